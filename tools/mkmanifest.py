#!/usr/bin/env python3
"""Regenerates /verif/MANIFEST.json from the table below (kept by hand)."""
import json
import os

VERIF = os.path.dirname(os.path.dirname(os.path.abspath(__file__)))

CLAIMED = {
    "C01": dict(
        text="Coq theorems (props/C01.v) over the Gallina model of utils::{int_from_slice,bytes_from_int,float_from_slice,"
             "bytes_from_float} and of IntReg/FloatReg/StringReg/Register value/set_value/read/write over a recording "
             "device (uncached): for every supported length, byte order, signedness, address and in-range value the "
             "device receives exactly one write of the two's-complement image at [address, address+length), bytes "
             "outside are unchanged, read-back returns the value; every device byte image decodes to the number whose "
             "image it is (sign extension included); unsupported lengths are refused before any access; 8-byte floats "
             "are bit exact for all 2^64 patterns; NUL-padded ASCII strings round-trip and non-ASCII / NUL-containing / "
             "over-long strings are refused without access; raw access is exact and refuses other buffer lengths. "
             "4-byte floats: narrow(widen x) = x for every non-NaN binary32 pattern (zeros, subnormals via Z.log2, "
             "normals, infinities), so f32-representable values round-trip through 4-byte registers bit-exactly. Tied to "
             "/repo by running real nodes built from XML and the extracted model on the same histories.",
        note="Trusted: Coq kernel, model/RegCodec.v + lib/Mem.v validated by correspondence, extraction + driver, "
             "rust/h_genapi (recording Device), tools/c01.py + reghist.py + xmlrender.py (independent Python predicate "
             "using struct for IEEE-754). roxmltree and the XML parser are exercised, not modelled, here (see C17).",
        technique="Coq proof (codec round trips, memory splice lemmas) + model/implementation correspondence",
        design="6/C01"),
    "C02": dict(
        text="Coq theorems (props/C02.v) over the Gallina model of BitMask::{mask,min,max,apply_mask,masked_value} (64-bit "
             "two's-complement patterns written explicitly) and of MaskedIntReg value/set_value through the recording "
             "device: for every field 0<=lsb<=msb<=63, signedness and register content, min/max are exactly the field's "
             "range, reading returns the field's bits sign-interpreted (C02_read_any), an in-range write changes no bit "
             "outside [lsb,msb] (bit-level, Z.testbit), reads back as the value written, an out-of-range write is "
             "refused with no device write; any finite interleaving of writes to pairwise disjoint sibling fields "
             "leaves every field reading as its last written value (induction over the write list); node level: one "
             "device write of exactly the register, bytes outside unchanged, read-back through the device. Two "
             "_refuted theorems record the defects of the pinned code (unsigned fields reaching bit 63 sign-extended; "
             "63-bit fields overflow) repaired by fix: commits d5eb3ad and 6e75ee7. Tied to /repo by running real "
             "MaskedIntReg / StructReg-entry nodes built from XML and the extracted model on the same histories. TIE TO "
             "THE SOURCE CODE: tools/translate_bitmask.py re-translates the seven methods of `impl BitMask` "
             "(genapi/src/masked_int_reg.rs) into gen/BitMaskSrc.v on every run (typed mini-Rust parser, debug-build "
             "semantics of lib/RustInt.v: overflow, shift and cast rules), and 12 `C02_*_from_source` / `C02_source_*` "
             "theorems prove the translated code equal to the model on every field and restate read-back, isolation, "
             "exact range check and exact decoding of the translated code itself.",
        note="Trusted: Coq kernel, model/BitField.v + model/RegCodec.v validated by correspondence, extraction + driver, "
             "tools/translate_bitmask.py + lib/RustInt.v (the semantics given to Rust's integer operations), "
             "rust/h_genapi, tools/c02.py (independent Python field_get/field_put predicate), reghist.py, xmlrender.py. "
             "BE bit numbering is normalised by norm_field (modelled, compared by correspondence).",
        technique="Coq proof (bit-level lemmas via Z.testbit, induction over write histories) + code translator (impl BitMask) + model/implementation correspondence",
        design="6/C02"),
    "C10": dict(
        text="Coq theorems (props/C10.v) over the Gallina model of ReadMem/WriteMem::chunks and their iterators: for every "
             "address, length and budget the chunk list is finite, non-empty chunks, contiguous, sums/concatenates to the "
             "request, each within budget, all but the last full, [] for the empty request, Err for a budget without payload "
             "room, no 64-bit address overflow (strong induction, no bound). The model is tied to /repo by running the real "
             "iterators and the extracted model on the same boundary+random cases, and the property predicate is evaluated by "
             "the harness on the exhaustive grid 0..4096 x 0..600. TIE TO THE SOURCE CODE: tools/translate_chunks.py regenerates gen/ReadChunks.v on every run from ReadMem::chunks, "
             "ReadMemChunks::next (an iterator mutating its fields, executed symbolically) and ReadMem::maximum_read_length "
             "over lib/RustInt.v; C10_read_init_from_source, C10_read_next_from_source and "
             "C10_maximum_read_length_from_source prove them equal to the model's functions for every value of the fields' "
             "types (the proof does not depend on the order of independent field updates); the WRITE side too: WriteMem::chunks, "
             "WriteMemChunks::next (slices abstracted to index ranges, WriteMem::new(..).unwrap(), overflowing usize additions), "
             "WriteMem::new and into_scd_len (C10_write_init_from_source, C10_write_next_from_source, C10_write_mem_new_from_source).",
        note="Trusted: Coq kernel, hand-written model (model/Chunks.v) validated by correspondence, extraction "
             "(ExtrOcamlBasic) cross-checked against vm_compute on a sample, ocaml/driver.ml, rust/h_proto, tools/c10.py. "
             "Debug-build overflow semantics (panic) modelled.",
        technique="Coq proof (induction on fuel/remaining length) + model/implementation correspondence",
        design="6/C10"),
    "C09": dict(
        text="Coq theorems (props/C09.v) over the Gallina model of the command constructors and CommandPacket::serialize "
             "(Vec and fixed-slice sinks with std's short-write semantics, write_bytes_le ignoring the count): an "
             "independent layout decoder inverts serialize for every constructible command and request id "
             "(C09_layout), byte count = cmd_len = 12 + SCD-length field, maximum_ack_len bounds every conforming "
             "acknowledge incl. pending, exact-size slice = Vec output, constructors are Ok exactly when the true "
             "lengths fit 16 bits (no truncation; the u16 product in WriteMemStacked::new is shown unreachable "
             "otherwise). Tied to /repo by running the real constructors/serialize and the extracted model on the "
             "same commands; predicate = independent Python encoder of the U3V layout. Magic, the four command ids and "
             "the request-ack flag of the model are proved equal to gen/ProtoTables.v, REGENERATED from cmd.rs / ack.rs on "
             "every run (C09_constants_from_source; each acknowledge id of the source table = command id + 1). "
             "TIE TO THE SOURCE CODE: tools/translate_serialize.py (a typed mini-Rust translator) regenerates "
             "gen/SerializeSrc.v on every run from device/src/u3v/protocol/cmd.rs: the structs and enums (Records / "
             "Inductives), the trait CommandScd as a record of methods with its four implementations as instances (code "
             "generic in T: CommandScd takes the record), the constants, the constructors (ReadMem::new, WriteMem::new, "
             "ReadMemStacked::{new,len,ack_scd_len}, WriteMemStacked::{new,len}, CommandCcd::{new,from_scd}, "
             "CommandPacket::new, finalize, into_scd_len; usize / u16 arithmetic with the debug-build overflow checks of "
             "lib/RustInt.v, checked_add, try_into, fold and for loops as a monadic fold), cmd_len / maximum_ack_len / "
             "header_len / scd_len / ack_scd_len, and every serializer (CommandPacket, CommandCcd, CommandFlag, ScdKind "
             "and the four commands) as the ordered list of write operations it performs (write_bytes_le of an n-byte "
             "integer, write_all of a slice, nested serializers, for loops as flat_map), which model/SerOps.v runs "
             "against a sink. Proved (proofs/P_C09s.v): for EVERY command value, request id and sink - growable or a "
             "slice of any size - running the translated serializer is the model's serialize, and on a Vec its bytes are "
             "serialize_vec (C09_serialize_from_source, induction over the entry lists); the translated length functions "
             "are the model's (C09_lengths_from_source); the match tables inside the serializers are those of "
             "gen/ProtoTables.v (C09_tables_from_source); the translated constructors equal the model's below 2^64-byte "
             "sizes and return Ok for exactly the same commands without any size condition "
             "(C09_constructors_from_source, C09_constructed_by_source, C09_source_constructed_is_modelled); and the "
             "property restated on the translated code alone (C09_layout_of_source): for whatever the translated "
             "constructors return, the translated bytes are magic / flags / command id / SCD length / request id at "
             "offsets 0/4/6/8/10 followed by an SCD of exactly that length, the independent decoder reads back the "
             "command, the translated cmd_len is the byte count and the translated maximum_ack_len bounds every "
             "conforming acknowledge. The translator also checks that no other function of cmd.rs builds or mutates a "
             "command (struct literals, field assignments, &mut self, .entries) and pins the shape of write_bytes_le "
             "in impl/src/bytes_io.rs; anything outside the accepted shapes is a ShapeError = broken proof obligation.",
        note="Trusted: Coq kernel, model/Cmd.v validated by correspondence, spec/CmdLayout.v (decoder typed from the "
             "U3V layout), tools/translate_proto.py (regex translator of the protocol constants, shape assertions), "
             "tools/translate_serialize.py (parser / type checker / emitter for the Rust subset of the translated "
             "functions; method and trait resolution by name and receiver type; references erased, which is sound for "
             "the accepted shapes because nothing is mutated through a reference) with model/SerOps.v (meaning of the "
             "write operations: `?` after write_bytes_le never fires on Vec / slice sinks and drops the count, `?` "
             "after write_all leaves all enclosing serializers) and lib/RustInt.v, extraction cross-checked with "
             "vm_compute, driver.ml, rust/h_proto, tools/c09.py.",
        technique="Coq proof (decoder∘encoder = id by induction over entry lists; translated code = model by induction over entry lists and case analysis of every overflow check) + code translator re-run on every check + model/implementation correspondence",
        design="6/C09"),
    "C08": dict(
        text="Coq theorems (props/C08.v): the cursor-style model of AckPacket::parse equals a fixed-offset layout decoder "
             "for every byte string (Ok iff accepted, all header fields and the raw SCD equal, never Panic); the status "
             "classifier (namespace bits 14..13, GenCP / USB3 Vision / device-specific tables, fatal bit) and the "
             "acknowledge-kind table equal the specification on all 65536 codes by complete enumeration inside Coq; the "
             "typed views agree with the offset spec, stay inside the SCD present, and never panic; every conforming "
             "acknowledge and every event list (multi- and single-event form) round-trips through the decoder "
             "(induction over lists); event decoding is total. Two _refuted theorems record the defects of the pinned "
             "code (repaired by fix: commits). Tied to /repo by running the real decoders and the extracted model on "
             "exhaustive status codes, windows of scd_len, truncations, mutations and random strings. The model's status "
             "tables, namespace shift / mask / dispatch, acknowledge-kind table and magic numbers are proved equal - for "
             "every code - to gen/ProtoTables.v, REGENERATED from the match arms of ack.rs / event.rs on every run "
             "(C08_status_table_from_source, C08_ack_kind_from_source, C08_magic_from_source).",
        note="Trusted: Coq kernel, model/Ack.v + model/Event.v validated by correspondence, spec/GenCPLayout.v (typed from "
             "the GenCP/U3V layout and code tables), tools/translate_proto.py (regex translator, shape assertions), extraction cross-checked with vm_compute, driver.ml, rust/h_proto, "
             "tools/c08.py (independent Python offset decoder as predicate). Debug-build semantics.",
        technique="Coq proof (cursor = offset spec; 65536-code enumeration by vm_compute; list induction) + correspondence",
        design="6/C08"),
    "C11": dict(
        text="Coq theorems (props/C11.v): cursor-style models of Leader/Trailer::parse and of the image / extended-chunk / "
             "chunk specific parts equal a fixed-offset U3V layout decoder for every byte string (Ok iff accepted, all "
             "fields equal, never Panic); pixel-format codes map one-to-one to formats over the tables REGENERATED from "
             "pixel_format.rs on every run (both directions, all integers; the catch-all arm is asserted by the "
             "translator); PayloadBuilder::build: for any leader, trailer, buffer and received count within the buffer, "
             "Ok implies id/type/timestamp/image info come from that leader and trailer and image size <= valid size <= "
             "received <= buffer, so image()/payload() cannot panic; build never panics; the backwards chunk walk is "
             "bounded. Codec part tied to /repo by correspondence in h_proto (incl. sweeps of pixel-code ranges, all "
             "2^32 codes in the thorough tier); payload assembly is tied through the real streaming loop in the C12 "
             "harness. Leader / trailer magic, payload type and payload status tables of the model are proved equal, for "
             "every value, to gen/ProtoTables.v regenerated from stream.rs on every run (C11_stream_tables_from_source).",
        note="Trusted: Coq kernel, model/Stream.v + model/Payload.v, spec/StreamLayout.v (typed from the U3V layout), "
             "tools/translate.py and tools/translate_proto.py (regex translators, shape assertions), extraction + driver, rust/h_proto, tools/c11.py.",
        technique="Coq proof (cursor = offset spec; table bijection by vm_compute over regenerated tables; builder bounds) + translator + correspondence",
        design="6/C11"),
}

HOLD = set()
ALL = ["C%02d" % i for i in range(1, 21)]
# entries written by the per-property builders: tools/manifest_cXX.json
import glob
for f in sorted(glob.glob(os.path.join(VERIF, "tools", "manifest_c*.json"))):
    pid = "C" + os.path.basename(f)[len("manifest_c"):-len(".json")]
    if pid in CLAIMED or pid in globals().get("HOLD", ()):
        continue
    if os.path.exists(os.path.join(VERIF, "coq", "theories", "props", pid + ".v")) and \
       os.path.exists(os.path.join(VERIF, "tools", pid.lower() + ".py")):
        d = json.load(open(f))
        CLAIMED[pid] = dict(text=d["text"], note=d["note"], technique=d["technique"], design=d.get("design", "6/" + pid))
# the code translator for the bit-level decoders of cameleon/src/u3v/register_map.rs (tools/translate_decoders.py):
# appended to the text / note / technique of C13 and C14, whatever tools/manifest_c13.json / manifest_c14.json say
# (C08: tools/translate_ackparse.py, the decoders of ack.rs / event.rs)
SOURCE_TIE = {
    "C06": dict(
        text=" TIE TO THE SOURCE CODE: tools/translate_control.py (own tokenizer, statement / expression parser, typed "
             "statement-level emitter; debug-build integer semantics of lib/RustInt.v) re-translates on every run, from "
             "cameleon/src/u3v/control_handle.rs into gen/ControlSrc.v, fn verify_range, ControlHandle::{assert_open, "
             "verify_ack, send_cmd, abrm, initialize_config} and <ControlHandle as DeviceControl>::{is_opened, open, close, "
             "read, write}: `?` / unwrap_or_log! as the bind of a state monad after the conversion From<u3v::Error> (text "
             "pinned), early returns, `while retry_count > 0` with continue / break as a Fixpoint over fuel, `for` over "
             "chunks / chunks_mut as Fixpoints over the chunk list, `for` over WriteMemChunks as a fuelled Fixpoint stepping "
             "the `next` translated by tools/translate_chunks.py (gen/ReadChunks.v, also regenerated), mutable locals as "
             "rebinding, send_cmd<T, U> taking the model's command and the view record. model/CtlOps.v gives the operations "
             "their meaning over model/Control.v's own primitives; the CONTENTS of self.buffer and the sleeps are ghost state. "
             "C06_read_from_source, C06_write_from_source (any u64 address, any size: induction over the chunk lists / fuel), "
             "C06_verify_range_from_source, C06_assert_open_from_source and C06_session_from_source (abrm, initialize_config, "
             "open, close; the register_map.rs accessors they use pinned by text) prove the translated functions equal to "
             "ctl_read / ctl_write / verify_range / assert_open / h_abrm / initialize_config / ctl_open / ctl_close - same "
             "result or error class, same handle, same device traffic and memory - from every handle with fields in their "
             "types' ranges and every device that sends bytes; C06_read_of_source / C06_write_of_source restate the exactness "
             "clause on the translated code alone (composition with C06_read_memory / C06_write_memory); "
             "C06_source_examples: non-vacuity by vm_compute. A source change outside the accepted subset is reported as a "
             "broken proof obligation (ShapeError), a change inside it breaks the equalities.",
        note=" Also trusted: tools/translate_control.py (parser, typing of integer expressions, rebinding of mutable "
             "locals, the classification of `if` branches, loop-carried variables, erasure of references - sound for the "
             "accepted shapes: the only state behind `&mut self` is threaded by the monad, a Result that is not propagated is "
             "refused) and model/CtlOps.v (Vec::resize, slice indexing / chunks / copy_from_slice with their panics, the "
             "channel operations as the scripted device's on_send / on_recv, the packet operations as model/Cmd.v / "
             "model/Ack.v - tied to cmd.rs / ack.rs by C09 / C08; timeout_duration is not modelled: the translator refuses a "
             "time-out argument other than self.config.timeout_duration and a sleep of anything but the pending "
             "acknowledge's time-out); the hypotheses hinv / wbytes (fields within their types, the device sends bytes) are "
             "needed because `as usize` is `mod 2^64` in the translation.",
        technique=" + code translator (control transaction layer of control_handle.rs: verify_range, assert_open, read, write, open, close, initialize_config)"),
    "C07": dict(
        text=" TIE TO THE SOURCE CODE: tools/translate_control.py re-translates on every run verify_ack and send_cmd of "
             "cameleon/src/u3v/control_handle.rs (and read / write, which call them) into gen/ControlSrc.v over "
             "model/CtlOps.v. C07_verify_ack_from_source: the translated verify_ack tests the status, then the request id, "
             "both failures Io, nothing touched. C07_send_cmd_from_source - the FULL equality, nothing partial: for every "
             "constructed command and every view the translated send_cmd (length check against maximum_cmd_length, buffer "
             "grown to max(cmd_len, maximum_ack_len), serialize into the buffer, send of buffer[..cmd_len], the retry loop - "
             "recv into the whole buffer, parse of buffer[0..recv_len], verify_ack, a Pending acknowledge parsed, slept and "
             "counted down, kind check, request id advanced once - then parse + scd_as) is the model's send_cmd followed by "
             "the view, from every state; C07_retry_loop_from_source states the loop alone for every fuel above the retry "
             "count (the fuel the translator passes is never used up). C07_total_of_source restates the property on the "
             "translated code alone: against any device that sends bytes the translated read and write never panic and a "
             "successful read fills the whole buffer; C07_source_examples: a wrong request id gives Io through the "
             "translated code.",
        note=" Also trusted: tools/translate_control.py and model/CtlOps.v (see C06); the ghost buffer contents make "
             "`&self.buffer[..cmd_len]` / `[0..recv_len]` real slices (Panic outside the buffer) instead of pinned text.",
        technique=" + code translator (verify_ack, send_cmd with its retry loop of control_handle.rs)"),
    "C18": dict(
        text=" TIE TO THE SOURCE CODE: tools/translate_access.py re-translates on every run NodeElementBase::{is_readable, "
             "is_writable, is_locked, is_implemented, is_available} (genapi/src/node_base.rs) and RegisterBase::{is_readable, "
             "is_writable} (register_base.rs) into gen/AccessSrc.v - the conjunctions with Rust's order and short circuit, "
             "the matches! mode sets, the map_or defaults - and checks that IntReg / MaskedIntReg / FloatReg / StringReg "
             "delegate to them; C18_controls_from_source, C18_base_readable_from_source, C18_base_writable_from_source and "
             "C18_register_access_from_source prove the translated functions equal to the model's ctlq / base_r / base_w / "
             "register arms for every node and every behaviour of the nodes asked; C18_source_write_order states the "
             "first-failing-control rule of the translated code alone.",
        note=" Also trusted: tools/translate_access.py (regex shapes) and model/AccessOps.v; the per-kind is_readable / "
             "is_writable of the non-register features (value sources, converters, swiss knives) are not translated.",
        technique=" + code translator (access-restriction core of node_base.rs / register_base.rs)"),
    "C01": dict(
        text=" TIE TO THE SOURCE CODE: tools/translate_codec.py re-translates on every run, from genapi/src/utils.rs into "
             "gen/CodecSrc.v, int_from_slice and bytes_from_int (the local macro_rules! arms, the invocation list of (length, "
             "signed type, unsigned type) entries, tested in the source's order) and float_from_slice / bytes_from_float (their "
             "match arms), over the byte conversions of lib/RustBytes.v (from_xx_bytes of a slice of the wrong size and "
             "copy_from_slice of the wrong length panic; `as` keeps the low bits); four theorems C01_*_from_source prove the "
             "translated functions equal to the model's for every byte slice, value, length, byte order and signedness, and "
             "C01_source_int_roundtrip states the round trip of the translated code itself.",
        note=" Also trusted: tools/translate_codec.py and lib/RustBytes.v; f32 <-> f64 conversion is the model's widen / "
             "narrow on IEEE bit patterns in the translation too.",
        technique=" + code translator (value codecs of genapi/src/utils.rs)"),
    "C08": dict(
        text=" TIE TO THE SOURCE CODE: tools/translate_ackparse.py (tokenizer, item and expression parser, type inference "
             "for `let x = cursor.read_bytes_le()?`, Gallina emitter; debug-build semantics of lib/RustInt.v) re-translates on "
             "every run, from device/src/u3v/protocol/ack.rs and event.rs into gen/AckParseSrc.v, every struct and enum, "
             "AckPacket::{parse, parse_prefix, scd_as, status, request_id, scd_kind}, AckCcd::parse, Status::{parse, "
             "parse_gencp_status, parse_usb_status (with their debug_assert!s), is_fatal, is_success}, ScdKind::parse, the trait "
             "ParseScd with its five implementations (ReadMem, WriteMem, Pending, ReadMemStacked, WriteMemStacked), and "
             "EventPacket::parse, EventCcd::parse, EventScd::parse with its loop and the local fn read_and_seek: ordered cursor "
             "reads (width from the inferred type), seeks, every bounds comparison, slice indexing (Panic outside the slice), "
             "checked_sub / usize addition, `?` and early returns; the two `while` loops become Fixpoints over a fuel argument. "
             "model/CurOps.v gives the cursor operations their meaning (shape of read_bytes_le in impl/src/bytes_io.rs and of "
             "u3v::Error pinned). C08_ack_parse_from_source (every byte list, no hypothesis), C08_views_from_source (every "
             "acknowledge with a 16-bit SCD length, all five views through scd_as) and C08_event_parse_from_source (every byte "
             "list shorter than 2^63) prove the translated decoders equal to model/Ack.v / model/Event.v - same fields, same "
             "error class, same panics; C08_total_of_source states totality on the translated code (no panic, and the fuel "
             "given to the loops is never used up), C08_conforming_of_source that every acknowledge built by "
             "spec/GenCPLayout.v is decoded to its fields by the translated code, C08_tables_cross_check that the constants "
             "and match tables inside the translated functions are those of gen/ProtoTables.v. A source change outside the "
             "accepted subset is reported as a broken proof obligation (ShapeError), never translated as something else.",
        note=" Also trusted: tools/translate_ackparse.py (parser, name / method / trait resolution, type inference, "
             "rebinding of mutable locals, merging of the variables that branches and loop bodies rebind, erasure of "
             "references - sound for the accepted shapes: the only `&mut` is the cursor, which is threaded explicitly, and a "
             "Result that is not propagated is refused, so the cursor after a failed read is never observed), model/CurOps.v "
             "(std::io::Cursor read_exact / seek / position, slice indexing, checked_sub, trailing_zeros; Vec::with_capacity "
             "as the empty vector; Duration as milliseconds), lib/RustInt.v, and the reading of the translated records / enums "
             "as the models' numbers (ack_of_src, status_num, scd_kind_num, events_of_src in proofs/P_C08s.v).",
        technique=" + code translator (acknowledge / event decoders and typed views of ack.rs / event.rs, cursor primitives of bytes_io.rs pinned)"),
    "C13": dict(
        text=" TIE TO THE SOURCE CODE: tools/translate_decoders.py (typed mini-Rust parser + Gallina emitter tools/minirust.py, "
             "debug-build semantics of lib/RustInt.v: shift-amount, overflow and checked_add rules, literal typing from the "
             "context) re-translates on every run, from cameleon/src/u3v/register_map.rs into gen/DecodersSrc.v, the bodies of "
             "Abrm::gencp_version, Sbrm::u3v_version, ManifestEntry::genicam_file_version, Sirm::payload_size_alignment, "
             "Sirm::is_stream_enable (the part after `let x: u32 = self.read_register(device, <mod>::<REG>)?`, whose shape is "
             "checked and whose register constant is emitted as the gen/RegTables.v constant), GenICamFileInfo::{file_type, "
             "compression_type, schema_version}, the macros is_bit_set! / set_bit! / unset_bit! (bodies parsed and expanded) "
             "with every method of DeviceConfiguration / DeviceCapability / U3VCapablitiy, fn register_address together with "
             "which read_register helper calls it, and ParseBytes for u3v::BusSpeed. 12 theorems C13_*_from_source (+ "
             "C13_source_examples) prove, for every register word, that model/RegMap.v's decode DVer32 / DFileVer / DAlign / "
             "DBool0 / DFileInfo / DSpeed, bit_set / cfg_* / the capability observers and gates, and reg_address ARE the "
             "translated code, and that the five getters read the register and use the decoder the model pairs them with "
             "(C13_getters_from_source). A source change outside the accepted subset is reported as a broken proof "
             "obligation (ShapeError), never translated as something else.",
        note=" Also trusted: tools/translate_decoders.py + tools/minirust.py (parser, typing of literals, macro expansion by "
             "sub-tree substitution, variant numbering table) and lib/RustInt.v (the semantics given to Rust's integer "
             "operations); the getters' prologue `self.read_register(..)?` and the ParseBytes wrappers are shape-checked, "
             "not translated.",
        technique=" + code translator (bit-level decoders, bit macros, register_address of register_map.rs)"),
    "C14": dict(
        text=" TIE TO THE SOURCE CODE: tools/translate_decoders.py re-translates on every run the bodies of "
             "ManifestEntry::genicam_file_version and GenICamFileInfo::{file_type, compression_type} "
             "(cameleon/src/u3v/register_map.rs -> gen/DecodersSrc.v, debug-build semantics of lib/RustInt.v); "
             "C14_file_version_from_source and C14_file_info_from_source prove, for every register word, that "
             "model/XmlFetch.v's version_of / file_type / compression_type (div / mod) are the translated shift-and-mask "
             "code, and that the tests the model's loop and fetch branch on are exactly the outcomes Ok(DeviceXml) / "
             "Ok(BufferXml) / Err(InvalidDevice) of the translated code (C14_source_examples: non-vacuity). THE RETRIEVAL "
             "ITSELF is translated too: tools/translate_xmlfetch.py re-translates on every run, statement by statement, "
             "DeviceControl::genapi (with its local zip_err) and ControlHandle::verify_xml of control_handle.rs and "
             "ManifestTable::{new, entries, read_register}, ManifestEntry::{new, file_info, genicam_file_version, "
             "file_address, file_size, sha1_hash, read_register} of register_map.rs into gen/XmlFetchSrc.v (X monad of "
             "model/XmlFetch.v, operation vocabulary model/XfOps.v: `?` / unwrap_or_log! = bind, `let mut` / assignment = "
             "rebinding, the `for` loop over the entries iterator = a fuelled fold with the closure evaluated per item, "
             "debug-build u64 arithmetic, a dropped Result is a ShapeError; the translated decoders of gen/DecodersSrc.v are "
             "re-used). C14_entries_from_source, C14_selection_from_source (loop body and the loop for ANY number of entries, "
             "by induction), C14_fetch_from_source (verify_xml and everything after the loop) and C14_genapi_from_source prove "
             "the translated functions equal to model/XmlFetch.v's entries / scan_entry / scan / verify_xml / fetch / genapi "
             "pointwise, for every handle state, device world and sha1 / unzip oracle (only hypothesis: a table address is "
             "not negative); C14_selection_of_source transfers C14_selects_newest to the translated loop (maximal version, "
             "first among equals); C14_retrieval_source_example runs the translated genapi by vm_compute.",
        note=" Also trusted: tools/translate_decoders.py + tools/minirust.py and lib/RustInt.v for the three translated "
             "decoders; tools/translate_xmlfetch.py (parser, receiver-type-directed method resolution, rebinding discipline) "
             "and model/XfOps.v (what each operation of the vocabulary means: device read, read_register::<T>, zeroed "
             "buffers as lengths, Range / Map iteration, semver order, the zip crate over the unzip oracle, u64 -> usize "
             "try_into as infallible on the 64-bit target, Vec::with_capacity taken not to fail); ControlHandle::"
             "{manifest_table, read}, the free fn read_register and unwrap_or_log! are pinned / taken from the model, not "
             "translated.",
        technique=" + code translators (file version / file info decoders of register_map.rs; statement-level translation of "
                  "genapi / verify_xml / ManifestTable::entries / ManifestEntry accessors, pointwise equality with the model, "
                  "induction over the entry loop)"),
    "C11": dict(
        text=" TIE TO THE SOURCE CODE: tools/translate_streamparse.py (own recursive-descent parser for the subset of Rust "
             "these functions use, type checker, Gallina emitter; debug-build integer semantics of lib/RustInt.v; cursor "
             "reads, slicing with Rust's panic rule, checked_sub and the `loop` with fuel of model/RdOps.v) re-translates on "
             "every run into gen/StreamParseSrc.v: Leader::parse / parse_prefix / specific_leader_as, Trailer::parse / "
             "parse_prefix / specific_trailer_as, the SpecificLeader / SpecificTrailer implementations of the three leaders "
             "and three trailers, TryFrom<u16> for PayloadType / PayloadStatus, the magic constants and every getter "
             "(device/src/u3v/protocol/stream.rs; the width of each read_bytes_le from the turbofish, the let annotation or "
             "the struct field the value ends in; PixelFormat::try_from is the table of gen/PixelTable.v); every method of "
             "PayloadBuilder (cameleon/src/u3v/stream_handle.rs: status check, valid_payload_size against the received count, "
             "`as usize` casts, the backwards chunk walk with checked_sub / slice / from_be_bytes / overflow-checked `+`); "
             "Payload::image_info / image / payload / into_vec (cameleon/src/payload.rs). Pinned: read_bytes_le of "
             "impl/src/bytes_io.rs is ONE read_exact of size_of::<T>() bytes then from_le_bytes, `#[from] std::io::Error` is "
             "BufferIo, the `use` lines that give the names their meaning, no struct literal of Payload / ImageInfo outside "
             "PayloadBuilder. C11_leader_parse_from_source / C11_trailer_parse_from_source: for EVERY byte list (no length "
             "bound) the translated decoders return exactly what model/Stream.v returns (Ok with the same fields, same error "
             "class, Panic in the same cases), the getters return their own fields, magic / payload type / status tables are "
             "those of gen/ProtoTables.v. C11_builder_bounds_from_source: the translated build is model/Payload.v's build for "
             "every leader, trailer, buffer (< 2^64 bytes) and u64 / usize sizes, the loop body is chunk_walk for every fuel, "
             "the translated payload() / image() are the model's views, into_vec() has the valid length. "
             "C11_views_in_bounds_of_source states the property's clause on the translated code alone (decode leader and "
             "trailer bytes, build: valid size <= received, payload() / into_vec() / image() are prefixes of the buffer, image "
             "size <= valid size, no panic); C11_builder_total_of_source: any fuel above valid/8 gives the same result, the "
             "chunk walk never runs out of fuel, nothing panics when received <= buffer length; C11_source_examples: "
             "non-vacuity. A source change outside the accepted subset is reported as a broken proof obligation "
             "(ShapeError), a change inside it breaks the equalities.",
        note=" Also trusted: tools/translate_streamparse.py (parser, typing, width inference, erasure of references - sound "
             "because the accepted functions mutate only a cursor / slice reader / one loop local, threaded explicitly) and "
             "model/RdOps.v (the meaning given to Cursor::read_exact, slicing, Vec::resize, `loop`); StreamingLoop::run "
             "(the received byte count it passes to PayloadBuilder) is C12's, not translated here.",
        technique=" + code translator (leader / trailer decoders of stream.rs, PayloadBuilder of stream_handle.rs, Payload views of payload.rs)"),
    "C05": dict(
        text=" TIE TO THE SOURCE CODE (evaluator): tools/translate_formulaops.py (own tokenizer, recursive-descent parser, "
             "type checker and Gallina emitter; the local macro_rules! apply_arithmetic_op / apply_cmp_op / apply_op are "
             "expanded token-wise from their parsed definitions) re-translates on every run, from genapi/src/formula.rs into "
             "gen/FormulaOpsSrc.v: the three From impls and as_integer / as_float / as_bool / is_integer of EvaluationResult, "
             "fn wrapping_pow (its `while` loop becomes a Fixpoint over a fuel argument), every arm of Expr::eval_binop (which "
             "operand combination takes the integer or the float path, overflowing_add/sub/mul/rem(..).0, `/` always in f64, "
             "the zero-divisor error before overflowing_rem, the guard and the `as u64` of `**`, overflowing_shl/shr(rhs as "
             "u32).0, & | ^ on as_integer(), comparisons through From<bool>, the placement of the `?`s of && and ||, "
             "unreachable!()), every arm of Expr::eval_unop with the class of its result, and Expr::eval (dispatch, ternary, "
             "literals, identifier lookup). Primitives get their meaning in model/FormulaOps.v (i64 methods exactly; every "
             "arithmetic f64 operation is a call into the oracle record, as in the model) and lib/RustInt.v. "
             "C05_binop_from_source: for every operator, all operand values (every i64, every float pattern) and every "
             "oracle record the translated arm returns what the model's binop_strict returns - same value, same class, same "
             "error; with the operands given by their evaluations the translated function is the EBin clause of the model's "
             "eval (short circuit included); the translated wrapping_pow loop is the model's power for every base and u64 "
             "exponent; the shift count is the count modulo 64. C05_unop_from_source, C05_coercions_from_source: the same for "
             "eval_unop and the coercions. C05_eval_from_source: the translated Expr::eval IS the model's eval for every "
             "expression, environment (integer literals i64) and fuel. C05_operators_of_source states the property's clauses "
             "on the translated code alone (no operator arm panics for any operands; + - * are arithmetic modulo 2^64; "
             "shifts by the count modulo 64; integer % fails exactly on 0; the power loop never uses up its fuel), "
             "C05_enums_cross_check that the translator's reading of BinOpKind / UnOpKind agrees with "
             "tools/translate_funcs.py's, C05_source_examples: non-vacuity. A source change outside the accepted subset is "
             "reported as a broken proof obligation (ShapeError), a change inside it breaks the equalities.",
        note=" Also trusted: tools/translate_formulaops.py (parser, typing of literals and conversions, token-wise macro "
             "expansion, erasure of references, an `&Expr` operand represented by the outcome of evaluating it in the "
             "unchanged environment), model/FormulaOps.v (overflowing_* / wrapping_* / signum / `as` casts of i64; f64 "
             "methods named as fields of the oracle record; neg / abs / signum / `!= 0.0` as bit manipulation) and "
             "lib/RustInt.v; the lexer and parser of formula.rs are not translated (tables only, tools/translate_funcs.py).",
        technique=" + code translator (evaluator of formula.rs: coercions, wrapping_pow, eval_binop, eval_unop, eval)"),
}
SOURCE_TIE["C20"] = dict(
    text=" TIE TO THE SOURCE CODE (hand-written part of impl/src/memory.rs; the proc macros stay tied by correspondence): "
         "tools/translate_memprot.py (typed mini-Rust parser / Gallina emitter tools/minirust.py extended with `/` `%`, "
         "indexing, `&mut v[i]` places with `*x` / `*x = e`, ranges, closures, for / fold / for_each, vec![x; n], struct "
         "literals, enum matches with guards, later-use typing of `let x = <literal expression>`; debug-build semantics of "
         "lib/RustInt.v: overflow, division, shift-amount panics) re-translates on every run into gen/MemProtSrc.v: enum "
         "AccessRight (declaration order, derive(PartialEq) checked) with is_readable / is_writable / as_num / meet / "
         "from_num (debug_assert! and unreachable! are Panic), enum MemoryError (the error classes), struct "
         "MemoryProtection with EVERY method of its impl (new: the ceil(size/4) vector; set_access_right: byte index, bit "
         "offset, mask-and-or through the `&mut` element; access_right: the extraction; access_right_with_range: fold of "
         "meet from RW; set_access_right_with_range; verify_address; verify_address_with_range: the `for` loop with `?`), "
         "and the provided methods write / read / range of trait Register (associated constants and the required parse / "
         "serialize are fields of a record; memory[range] index panic, copy_from_slice length panic, ADDRESS + LENGTH "
         "overflow). Vec / slice / iterator operations get their meaning in model/MemProtOps.v; an impl IntoIterator<Item = "
         "usize> is the list of its items. C20_access_right_from_source (all 4 rights, all 16 pairs of meet, every number "
         "given to from_num), C20_protection_from_source (every usize size / address, every right, item lists of any length "
         "by induction, EVERY vector incl. ill-formed ones: same Ok / Panic), C20_verify_from_source (no hypothesis; the "
         "model's fuelled loop over a Range is the translated loop over the range's items; empty range Ok) and "
         "C20_register_rw_from_source (every implementor record and every slice shorter than 2^64; with the model's "
         "register as implementor: reg_read, and reg_write for every non-BitField type) prove the translated functions "
         "equal to model/Memory.v's ar_* / prot_* / region_of / reg_read / reg_write. On the translated code alone: "
         "C20_protection_cells_of_source (set-then-get on the packed vector for every address below the size and every "
         "right, all other addresses untouched, well-formedness kept), C20_protection_new_of_source, "
         "C20_range_right_of_source (a range is readable / writable iff every cell is), C20_verify_of_source (accepted iff "
         "below the size, never a panic), C20_source_examples (the source's own unit test gives the packed bytes [141; 1]; "
         "an error; a panic). A source change outside the accepted subset (also: any method added to or removed from the "
         "three blocks) is reported as a broken proof obligation (ShapeError), a change inside it breaks the equalities.",
    note=" Also trusted: tools/translate_memprot.py + tools/minirust.py (parser, typing of literals, threading of the one "
         "`&mut` parameter as the function's result - mutations are only accepted in the top-level block or a loop body, a "
         "`&mut v[i]` local is the checked index into the current container, which the borrow checker keeps otherwise "
         "untouched) and model/MemProtOps.v (Vec indexing / IndexMut / slicing / copy_from_slice panics, vec![x; n] without "
         "allocation failure, iterators as finite item lists); AccessRight::as_str and the traits MemoryRead / MemoryWrite "
         "(implemented by the #[memory] macro) are not translated.",
    technique=" + code translator (AccessRight, MemoryProtection, provided methods of trait Register in impl/src/memory.rs)")
SOURCE_TIE["C04"] = dict(
    text=" TIE TO THE SOURCE CODE: tools/translate_cachepath.py (tokenizer, item / type / body parser, three emitters) "
         "re-translates on every run into gen/CachePathSrc.v: RegisterBase::{with_cache_or_read, read_and_cache, "
         "write_and_cache} (genapi/src/register_base.rs) and IPort::{read, write} of PortNode (port.rs) statement by "
         "statement - the ORDER of invalidate_cache_by, length(..)?, the buffer-length check and its error, address(..)?, "
         "the port access with `?`, the `match self.cacheable` arms, `if self.cacheable != NoCache`, the get_cache hit / "
         "miss - as computations over (device, variables, cache store); the ValueCtxt forwarders (lib.rs); the traits "
         "CacheStore / CacheStoreBuilder as records and their implementations for DefaultCacheStore (the two-level HashMap: "
         "entry / and_modify / or_insert_with, get, get_mut + assignment, the loop of invalidate_by, clear, "
         "entry().or_default() + push of store_invalidator) and CacheSink as functions on the store value (store.rs, "
         "builder.rs); RegisterBase::store_invalidators (parser/register_base.rs; the six register parsers are checked to "
         "call it with their own id). model/CacheOps.v gives the HashMap / Vec operations and the abstract operations "
         "(length, address, expect_iport_kind, the device) their meaning in terms of model/Cache.v's primitives. "
         "C04_write_path_from_source and C04_read_path_from_source: over the model's flat association list (as an instance "
         "of the translated trait) the translated paths ARE m_write_and_cache / m_cached_bytes / m_read_and_cache - same "
         "result or error, same device accesses in the same order, same cache - for every register, mode, cache, device "
         "and variable values with a length in 0 .. 2^63-1, cached and uncached context; and over the translated "
         "DefaultCacheStore / CacheSink they do the same from related states (the paths are proved parametric in the "
         "store). C04_store_from_source: the table the translated builder code produces from a system's nodes is the "
         "system's pInvalidator relation, every operation of the translated DefaultCacheStore is the model's for every "
         "store and key (induction over stores of any size), hence after any sequence of operations the translated store "
         "answers every key as the model's cache; CacheSink never answers. On the translated code alone: "
         "C04_write_through_of_source (after a successful write of a WriteThrough register the only block held for the node "
         "is the one just written, under (address, current length)), C04_nocache_of_source (a NoCache register never "
         "reaches cache_data, over any store), C04_source_example (non-vacuity). A source change outside the accepted "
         "shapes (also: a Result that is neither `?`-propagated nor returned, a new CacheStore method, another store "
         "layout) is reported as a broken proof obligation (ShapeError), a change inside them breaks the equalities.",
    note=" Also trusted: tools/translate_cachepath.py (parser; rebinding of the one variable an `if let` / `for` body "
         "writes; a `&mut V` from get_mut / entry().or_default() as the binding of its key; erasure of references) and "
         "model/CacheOps.v (HashMap as an association list with at most one binding per key, iteration order never used; "
         "length(..) / address(..) / expect_iport_kind abstract as in model/Cache.v; `length as usize` = r_cast 64); the "
         "value / set_value / IRegister::read / write bodies of the register node types that call the three paths are not "
         "translated (model/Cache.v transcribes them; tied by the correspondence).",
    technique=" + code translator (register caching path: register_base.rs, port.rs, ValueCtxt, DefaultCacheStore / CacheSink)")
SOURCE_TIE["C12"] = dict(
    text=" TIE TO THE SOURCE CODE of the transfer layout: tools/translate_streamparams.py (the typed mini-Rust parser / emitter of tools/translate_streamparse.py extended with iterator adaptors, `for _ in 0..n`, `+=`, fall-through `if`, submit on a buffer range; debug-build integer semantics of lib/RustInt.v; operations of model/SpOps.v + model/RdOps.v) re-translates on every run, from cameleon/src/u3v/stream_handle.rs into gen/StreamParamsSrc.v, struct StreamParams, StreamParams::{new, "
         "maximum_payload_size, payload_transfer_sizes} and the free functions read_leader / read_payload / read_trailer (a "
         "`&mut [u8]` is its length, the AsyncPool is the list of ranges submitted so far, `res k` the result of the k-th "
         "submission). C12_transfer_sizes_from_source: the translated payload_transfer_sizes is psizes for every parameter "
         "record (list equality, any count). C12_max_payload_from_source: maximum_payload_size is max_payload, its "
         "overflow-checked usize arithmetic panics exactly when the sum does not fit 64 bits. "
         "C12_read_helpers_from_source: for every result of the submissions read_payload submits from offset 0 one slice per "
         "element of payload_transfer_sizes (zero final transfers skipped, the cursor cannot overflow before a slice leaves the "
         "buffer), read_leader / read_trailer one slice [0, size); with every submission succeeding the frame's submissions "
         "are the model's slots as consecutive ranges, and the helpers panic exactly when one of the model's slice_in checks "
         "fails. C12_transfer_layout_of_source (translated code alone): the transfer sizes sum to maximum_payload_size, and "
         "in a buffer of that size every submitted range lies inside it (any shorter buffer: panic). C12_source_examples: "
         "non-vacuity. StreamingLoop::run itself (polling, length accounting, channel traffic) stays the trace-validated "
         "transition system model/StreamLoop.v; StreamHandle::{open, close, start/stop_streaming_loop} are not translated.",
    note=" Also trusted: tools/translate_streamparams.py + tools/translate_streamparse.py and model/SpOps.v (sp_submit: slice "
         "first - panic - then submit, an error leaves through `?`; r_for; Option as iterator); pinned: AsyncPool::submit's "
         "signature, `impl From<u3v::Error> for StreamError`, the use lines.",
    technique=" + code translator (StreamParams and the read helpers of stream_handle.rs)")
SOURCE_TIE["C15"] = dict(
    text=" TIE TO THE SOURCE CODE of the read-back: tools/translate_streamparams.py (the typed mini-Rust parser / emitter of tools/translate_streamparse.py extended with iterator adaptors, `for _ in 0..n`, `+=`, fall-through `if`, submit on a buffer range; debug-build integer semantics of lib/RustInt.v; operations of model/SpOps.v + model/RdOps.v) re-translates on every run, from cameleon/src/u3v/stream_handle.rs into gen/StreamParamsSrc.v, StreamParams::from_control statement by statement into the monad of "
         "model/Control.v (which call into register_map.rs in which order; the register constant each Sirm / Abrm getter "
         "reads is taken from the getter's body and emitted as the gen/RegTables.v name; the `as usize` conversions; "
         "InvalidDevice for a missing SIRM; the argument order of Self::new through the translated `new`), and "
         "payload_transfer_sizes. C15_stream_params_from_source: for EVERY control-handle state and device world the "
         "translated from_control leaves the same state as model/Control.v's stream_params and returns the same outcome (six "
         "parameters in the model's order, each `as usize`); under the control model's invariant "
         "(C07_every_operation_sound) the two are equal; loop_submits of model/StreamStart.v is leader, the translated "
         "payload_transfer_sizes, trailer. C15_stream_params_source_example: enable_streaming then the translated "
         "from_control on the read-back example's device image gives [56; 64; 65536; 0; 1000; 0].",
    note=" Also trusted: tools/translate_streamparams.py and the fc_* operations of model/SpOps.v (Abrm::new / Abrm::sbrm / "
         "Sbrm::sirm mean read_reg / abrm_sbrm / sbrm_sirm_address of model/Control.v; their bodies in register_map.rs are "
         "pinned textually).",
    technique=" + code translator (StreamParams::from_control)")
SOURCE_TIE["C16"] = dict(
    text=" TIE TO THE SOURCE CODE: tools/translate_camera.py (own tokenizer and statement parser) re-translates on every "
         "run Camera::{params_ctxt, open, load_context, start_streaming, stop_streaming, close} of cameleon/src/camera.rs "
         "into gen/CameraSrc.v: every statement IN SOURCE ORDER in the monad of model/Camera.v (failure plan + state + effect "
         "trace) over the operation vocabulary model/CamOps.v - `self.ctrl.<m>()?` / `self.strm.<m>(..)?` = one fallible "
         "operation each (a Result that is not propagated with `?` is a ShapeError), `if self.strm.is_loop_running() { return "
         "Err(StreamError::InStreaming.into()); }`, `if self.ctxt.is_none() { return Err(GenApiContextMissing); }`, `if "
         "!self.strm.is_loop_running() { return Ok(()); }` as guards with their early returns, `let mut ctxt = "
         "self.params_ctxt()?` = the translated params_ctxt, `expect_node!(&ctxt, NAME, as_X).set_value(&mut ctxt, v)?` / "
         "`.execute(&mut ctxt)?` with the node name, the interface and the literal taken from the source (the text of "
         "macro_rules! expect_node is pinned), `const DEFAULT_BUFFER_CAP`, `let (sender, receiver) = channel(cap, "
         "DEFAULT_BUFFER_CAP)` (payload::channel pinned: bounded(0) panics), the sender to start_streaming_loop and the "
         "receiver to the caller, `self.stop_streaming()?` inside close = the translated stop, `self.ctxt = "
         "Some(Ctxt::from_xml(&xml)?)`, `if let Some(ctxt) = &mut self.ctxt { ctxt.clear_cache() }`; info!(..) lines and "
         "#[tracing::instrument] are the only things skipped. C16_open_from_source, C16_load_from_source, "
         "C16_start_from_source, C16_stop_from_source, C16_close_from_source, C16_params_ctxt_from_source: the translated "
         "methods ARE cam_open / cam_load / cam_start true / cam_stop / cam_close / params_ctxt of model/Camera.v as functions "
         "of the failure plan and the state (pointwise, no extensionality axiom); C16_run_from_source (a session executed with "
         "the translated methods is the model's session), hence C16_order_of_source (every effect of every session of the "
         "translated code under every failure plan is admissible after the effects before it); C16_start_of_source / "
         "C16_stop_of_source (the device log of a failure-free translated start is EnableStreaming, TLParamsLocked := 1 [its "
         "mirror], AcquisitionStart, LoopStart in this order; of a translated stop: LoopStop, AcquisitionStop, TLParamsLocked "
         ":= 0 [mirror], DisableStreaming); C16_source_example (vm_compute). Any reordering of the steps, another node name, "
         "interface or literal, the receiver handed to the loop, a dropped `?` changes the generated term: the equalities "
         "fail (tried: AcquisitionStop before stop_streaming_loop, TLParamsLocked := 0 before AcquisitionStop, strm.close "
         "before ctrl.close, set_value(.., 2), DEFAULT_BUFFER_CAP = 0, and every seeded change that edits camera.rs) or the "
         "translator raises ShapeError; a renamed local, an extra info!, `Ok(())` through a let leave the proofs intact.",
    note=" Also trusted: tools/translate_camera.py (tokenizer, the accepted statement shapes, the pins) and model/CamOps.v "
         "(the meaning of each Rust step in the model's primitives: which effect a DeviceControl / PayloadStream method is, "
         "IntegerNode::set_value of TLParamsLocked as register / host-side variable / <pValueCopy> mirror, CommandNode::execute, "
         "the description as a parameter of load_context); the pinned pre-d70bfb8 variant cam_start false is not tied to any "
         "source (it documents the repaired defect).",
    technique=" + code translator (Camera methods of cameleon/src/camera.rs, statement order)")
SOURCE_TIE["C03"] = dict(
    text=" TIE TO THE SOURCE CODE (value-dispatch layer): tools/translate_ivalue.py (tokenizer, item / type / body parser, "
         "a statement-level emitter with dictionary passing for traits) re-translates on every run into gen/IValueSrc.v: "
         "trait IValue<T> as a record of value / set_value / is_readable and EVERY implementation in genapi/src/ivalue.rs - "
         "impl_ivalue_for_imm! / impl_ivalue_for_vid! expanded token-wise from their parsed definitions once per invocation "
         "(which conversion `as i64` / `as f64` and which ValueStore accessor each instance uses), StringId, NodeId as "
         "IValue<i64> / <f64> / <String> (the ORDER of the as_iinteger_kind / as_ifloat_kind / as_ienumeration_kind tests, "
         "what each branch calls, the final errors), ImmOrPNode, ValueKind (Value / PValue / PIndex arms), PValue (value "
         "from p_value; set_value to p_value THEN every p_value_copy in order), PIndex (index through "
         "expect_iinteger_kind, `value_indexed.iter().find(|vi| vi.index == index)`, the default) and PIndex::index; a "
         "generic impl takes one dictionary per `where` bound and a call x.value(device, store, cx) is resolved from the "
         "static type of x as rustc does (bound in scope, else the unique unifying impl, recursively). Also translated: "
         "the data types of elem_type.rs, ValueStore::integer_value / float_value / str_value and NodeId::as_*_kind / "
         "expect_*_kind (store.rs), the I*Kind::maybe_from tables (interface.rs), and the value paths of the node kinds: "
         "value / set_value / min / max of IntegerNode and FloatNode, value / set_value of BooleanNode, current_value / "
         "set_entry_by_value of EnumerationNode (entry lookup, invalidate_cache_by), execute / is_done of CommandNode. "
         "model/IvOps.v gives the requests to other nodes through the interface kinds, the value store, the `as` "
         "conversions and the EnumEntry lookup their meaning in terms of model/Graph.v's primitives. 18 further theorems "
         "(47 in total, all closed): C03_kinds_from_source, C03_nodeid_dispatch_from_source, C03_valueid_from_source, "
         "C03_immorpnode_from_source, C03_valuekind_from_source, C03_pvalue_copies_from_source, C03_pindex_from_source, "
         "C03_integer_from_source, C03_float_from_source, C03_boolean_from_source, C03_enumeration_from_source, "
         "C03_command_from_source prove, for every node store, node, state, value and every syntax tree of the model "
         "(copy lists and indexed-value lists of any length by induction), the translated functions equal to the "
         "corresponding clauses of model/Graph.v (same value / error class / state); C03_run_from_source closes the open "
         "recursion with the model's evaluator. On the translated code alone, for ANY dictionaries: "
         "C03_pvalue_write_order_of_source (main target first, then every copy in declaration order, stopping at the "
         "first failure), C03_pindex_first_match_of_source (index first, then the FIRST indexed value with that index, "
         "the default only if there is none), C03_boolean_value_of_source, C03_enumeration_reject_of_source (a value no "
         "entry has is InvalidData and nothing is touched), C03_source_example (vm_compute, non-vacuity). A source change "
         "outside the accepted shapes is reported as a broken proof obligation (ShapeError), a change inside them breaks "
         "the equalities.",
    note=" Also trusted: tools/translate_ivalue.py (parsers, token-wise macro expansion, erasure of references and of the "
         "device / store / cx plumbing, instance resolution, `?` and `return Err` as leaving the function - `return` is only "
         "accepted in tail positions and in the two pinned early-exit statement forms of a function body) and "
         "model/IvOps.v: a method call on an interface kind is a request to the node the kind refers to (ambassador "
         "delegation), Vec::get / get_mut + mem::replace of DefaultValueStore are nth_error / set_nth, ValueData::Boolean "
         "has no counterpart, cx.invalidate_cache_by / invalidate_cache_of are no-ops (stores built with no_cache(); the "
         "cached behaviour is C04's), the EnumEntry node behind an id is a parameter tied to the model's inlined entries "
         "by a hypothesis. Not translated: IValue::is_writable and the node kinds' own is_readable / is_writable (C18), "
         "inc, current_entry / set_entry_by_symbolic, the register / converter / swiss-knife / string node kinds, "
         "utils.rs (those stay tied by the correspondence check).",
    technique=" + code translator (trait IValue and its implementations, kind tables, value paths of Integer / Float / "
              "Boolean / Enumeration / Command nodes)")
SOURCE_TIE["C17"] = dict(
    text=" TIE TO THE SOURCE CODE (element schedules): tools/translate_parseorder.py (own tokenizer, expression / statement "
         "parser and type inference from the struct / enum definitions of genapi/src/*.rs and the `impl Default` blocks) "
         "re-translates on every run 37 `impl Parse for X` blocks of genapi/src/parser/*.rs into gen/ParseOrderSrc.v: "
         "NodeAttributeBase, NodeElementBase, RegisterBase, every node kind (Node, Category, Integer, IntReg, MaskedIntReg, "
         "Float, FloatReg, Boolean, Command, String, StringReg, Register, Port, Converter, IntConverter, SwissKnife, "
         "IntSwissKnife, Enumeration, EnumEntry, StructReg, StructEntry), RegisterDescription, Formula and the value types of "
         "elem_type.rs (ImmOrPNode<i64 / f64 / bool> with their sniffing conditions, NamedValue, ValueKind, PValue, PIndex, "
         "ValueIndexed, AddressKind, RegPIndex, BitMask) - each as the ORDERED schedule of cursor operations (required / "
         "optional TAG.. with default / repeated TAG.. / attribute / post-processing) with the local each result is bound to "
         "and the final struct literal (field := local), tags = constants of gen/ElemNames.v, element types from the struct "
         "fields. C17_schedules_from_source: for every covered impl (generic ones at every type argument in use) the "
         "translated schedule, interpreted over the model's cursor primitives (model/PoOps.v), IS the model's parser "
         "followed by the injection of its result into fields-by-Rust-name values, for every child list (loops by "
         "induction on the model's fuel), attribute list and fresh-id counter; C17_schedule_numeric_kinds_from_source "
         "spells out the bases and numeric / register kinds; C17_defaults_from_source (every default of every schedule is "
         "what the model's result holds on a declaration with the required children only); C17_roundtrip_of_source (the "
         "property on the translated schedules: rendered well-formed element base / register base / Integer / IntReg / "
         "MaskedIntReg / Float / FloatReg are consumed completely and yield the normalised node under the Rust field "
         "names); C17_asserted_tags_of_source (the tag an impl asserts is the tag the model's dispatch routes to it; the "
         "impls calling store_invalidators are the register kinds); C17_schedule_example (vm_compute). Leaf impls (String, "
         "NodeId, bool, i64, u64, f64, Expr), the id macros and match_text_view! are pinned by token text. NOT covered: "
         "GroupNode and the Vec<NodeData> dispatch of mod.rs (listed in the generated file). A change outside the accepted "
         "shapes in a covered impl is reported as a broken proof obligation (ShapeError), a change inside them (two "
         "parse_if swapped, a default changed, parse_while -> parse_if, a result bound to another field) breaks the "
         "equalities.",
    note=" The meaning of a schedule (model/PoOps.v: step_sem / run_body over peek / parse_if / loop / next_if of the "
         "model), the injections of the model's records into field-name values (proofs/P_C17s.v) and the shapes accepted "
         "by tools/translate_parseorder.py are trusted; value ids = stored values, NodeId = name, fresh_id() called once "
         "per EnumEntry (visible in its translated schedule).",
    technique=" + code translator (element schedules of every Parse impl of genapi/src/parser)")
SOURCE_TIE["C19"] = dict(
    text=" TIE TO THE SOURCE CODE (buffer protocol of gentl/src/ffi/mod.rs; the state machine, the ports and "
         "GCGetLastError stay tied by correspondence): tools/translate_gentl.py (own tokenizer, statement parser and "
         "emitter) re-translates on every run into gen/GenTLSrc.v: `impl From<&GenTlError> for GC_ERROR` (the variant "
         "set is checked against the `use` list and enum GenTlError of lib.rs; the three forwarding From impls are "
         "pinned), newtype_enum! INFO_DATATYPE, and EVERY `impl CopyTo for ..` - &str, &[u8], bool8_t, TlType, ModuleType "
         "(match self -> text, forwarded to &str), DeviceAccessStatus (`*self as i32`, forwarded to i32) and the six "
         "invocations of impl_copy_to_for_numeric! expanded from the parsed macro definition - statement by statement as "
         "state transformers over (dst NULL?, the cell behind dst_size, the caller's buffer): the ASCII test, len + 1 in "
         "debug-build usize arithmetic, the NULL test, `*dst_size < len` and its early return, copy_nonoverlapping, "
         "dst.add(len).write(0), `*dst = x`, `*dst_size = len`; model/GtlOps.v gives these operations their meaning (an "
         "out-of-bounds or NULL write is Panic). C19_copy_str_from_source (every byte list shorter than 2^64 - 1, every "
         "destination, every in-size, every buffer at least as large as announced), C19_copy_numeric_from_source (every "
         "integer) prove the translated functions equal to the state described by model/GenTL.v's str_copy_to / copy_to "
         "(written bytes, stored size, error code; on an error nothing changed), C19_error_codes_from_source that the "
         "translated table is code_of (same variants, distinct numbers) and the info types are the model's. "
         "C19_buffer_protocol_of_source states the protocol on the translated code alone (NULL -> size incl. the NUL "
         "terminator, nothing written; too small -> -1016, nothing written, *dst_size left unchanged; else exactly the "
         "bytes, rest of the buffer untouched), C19_source_examples evaluates it. The set of CopyTo impls, their three "
         "items and the trait are asserted; a source change outside the accepted statements is reported as a broken "
         "proof obligation (ShapeError), a change inside them breaks the equalities.",
    note=" Also trusted: tools/translate_gentl.py (parser, textual expansion of impl_copy_to_for_numeric!, the continuation "
         "of an `if` without else, a GenTlError represented by its C code) and model/GtlOps.v (the three-component state; "
         "a `*mut iN` destination as little-endian bytes; dst_size assumed non-NULL as the code does). copy_info is "
         "pinned by text, GCGetLastError / GCReadPort / GCWritePort are not translated.",
    technique=" + code translator (CopyTo implementations and the GC_ERROR table of gentl/src/ffi/mod.rs)")
for _pid, _d in SOURCE_TIE.items():
    if _pid in CLAIMED:
        for _k in ("text", "note", "technique"):
            CLAIMED[_pid][_k] = CLAIMED[_pid][_k].rstrip() + _d[_k]
NOT_YET = "check not built yet in this session (design in DESIGN.md section 6); will be claimed once its model, theorems and correspondence exist"


def main():
    checks = []
    for pid in ALL:
        if pid not in CLAIMED:
            continue
        c = CLAIMED[pid]
        checks.append({
            "property_id": pid,
            "quick_cmd": "./check %s quick" % pid,
            "thorough_cmd": "./check %s thorough" % pid,
            "evidence_file": "/verif/evidence/%s.json" % pid,
            "replay_cmd_template": "./check %s --replay {path}" % pid,
            "engine": "coq+correspondence",
            "level_claimed": {"category": "proof", "text": c["text"], "design_ref": c["design"]},
            "level_note": c["note"],
            "technique": c["technique"],
        })
    man = {
        "version": 1,
        "setup_cmd": "./setup.sh",
        "hooks": {
            "guard": "cameleon_verif",
            "enable": "no source hooks are needed: harness crates under /verif/rust link /repo's crates by path (rust/cut compiles /repo/cameleon/src against the fake USB layer rust/shim); the guard name is reserved and unused",
            "baseline_off_cmd": "cd /repo && cargo test --workspace --no-fail-fast --offline",
            "source_commits": [],
            "add_only": True,
        },
        "engines": [{
            "name": "coq+correspondence", "path": "/verif/check",
            "serves_properties": sorted(CLAIMED),
            "kind_free_text": "Coq 8.16.1 theorems over hand-written Gallina models (coq/theories), tied to /repo on every run by a differential correspondence (Rust harness vs extracted model, sample re-evaluated by vm_compute)",
        }],
        "checks": checks,
        "not_applicable": [{"property_id": p, "reason": NOT_YET} for p in ALL if p not in CLAIMED],
        "notes": "See DESIGN.md. Exit codes of ./check: 0 held, 1 VIOLATION, 2 machinery failure.",
    }
    with open(os.path.join(VERIF, "MANIFEST.json"), "w") as f:
        json.dump(man, f, indent=1)
    print("wrote MANIFEST.json with %d checks" % len(checks))


if __name__ == "__main__":
    main()
