#!/usr/bin/env python3
"""tools/seedprompt.py <Cxx> <letter1> <letter2> <worktree> <outdir>
Prints the prompt for a seeding sub-agent: ONLY the property text, the scratch worktree, the protocol, and the
list of code sites earlier seeding rounds already used (file + enclosing item, taken from seeded/*/patch.diff).
Nothing about the checks, models or theorems of /verif goes in."""
import json, os, re, sys

pid, l1, l2, wt, out = sys.argv[1:6]
here = os.path.dirname(os.path.dirname(os.path.abspath(__file__)))
prop = None
for l in open(os.path.join(here, "properties.jsonl")):
    p = json.loads(l)
    if p["id"] == pid:
        prop = p
used = []
sd = os.path.join(here, "seeded")
for s in sorted(os.listdir(sd)):
    if not s.startswith(pid + "-"):
        continue
    pf = os.path.join(sd, s, "patch.diff")
    if not os.path.exists(pf):
        continue
    cur = None
    sites = []
    txt = open(pf, errors="replace").read()
    for hunk in re.split(r"(?m)^(?=diff --git )", txt):
        m = re.search(r"(?m)^\+\+\+ b/(.*)$", hunk)
        if not m:
            continue
        cur = m.group(1).strip()
        fns = []
        for f in re.findall(r"fn\s+(\w+)", hunk):
            if f not in fns:
                fns.append(f)
        sites.append("%s (%s)" % (cur, ", ".join(fns[:6]) or "top level"))
    what = ""
    mf = os.path.join(sd, s, "meta.json")
    if os.path.exists(mf):
        what = re.sub(r"[=\-]{4,}", " ", json.load(open(mf)).get("needs_to_manifest", ""))
        what = re.sub(r"\s+", " ", what)[:260]
    used.append("  - " + "; ".join(sites[:4]) + (" :: " + what if what else ""))

print(f"""You are helping to evaluate a verification effort by playing the part of a developer who introduces a subtle regression.
You get ONE semantic property of the Rust repository cameleon-rs/cameleon (GenICam camera library: GenApi XML parser and node
interpreter, USB3 Vision protocol codecs, register maps, GenTL C interface) and your own scratch git worktree of it:

    {wt}

Work ONLY inside that directory and under {out} (create it).  Never read, write or run anything in /repo or /verif; do not
look for any verification material anywhere on this machine - your changes must be independent of it.  There is no network:
use `cargo ... --offline` only, and set `CARGO_TARGET_DIR={wt}/target` and `-j6` for every cargo call.  No camera hardware is
present: where code talks to a device, write your own in-process fake inside your demonstration (implement the crate's
traits such as DeviceControl / PayloadStream / IPort-like device closures, or a byte-array memory), as a test file under the
crate's `tests/` directory or as a `#[cfg(test)]`-free small example program; the demonstration may use only crates already
used by the repository.  Do NOT use `git stash` (all scratch worktrees share one stash list): switch between the changed and
the unchanged tree with `git diff > file` and `git apply -R file` / `git apply file`.

THE PROPERTY ({prop['id']}: {prop['title']})

Statement: {prop['statement']}

Quantifier: {prop.get('quantifier')}

Why tests cannot settle it: {prop.get('why_tests_cant')}

Anchors: {json.dumps(prop.get('anchors'))}

YOUR TASK

Produce TWO independent changes to the repository, called {l1} and {l2} (each a patch against the worktree's HEAD, not stacked),
such that for each of them:
 1. the workspace still compiles and the existing test suite, unedited, still passes
    (`cargo test --workspace --no-fail-fast --offline -j6`; record the `test result:` lines);
 2. the change breaks the property above - some clause of it is false of the changed code;
 3. it looks like something a developer could plausibly commit (a tidy-up, an optimisation, a "simplification", a
    refactoring, a fix for something else), not sabotage;
 4. it needs something SPECIFIC to manifest: a particular interleaving or order of operations, a fault or error at one
    particular point, a multi-step history (three or more operations), an unusual-but-legal input (a boundary of a range,
    an alignment, a length, a wrap-around, a rarely used XML attribute or node kind, a rarely used code path), or two
    cooperating edits at different sites that each look fine alone.  Changes that any ordinary use exposes at once are
    not wanted.
 5. you provide a demonstration (a test file or small program plus the exact command) that PASSES on the unchanged
    worktree and FAILS with the change applied - run it both ways and keep the output.

Earlier rounds already produced changes at the following sites for this property; choose DIFFERENT functions / clauses /
mechanisms (another file, another clause of the statement, another kind of trigger):
{chr(10).join(used) if used else '  (none)'}

DELIVERABLES (exactly this layout)

  {out}/{l1}/patch.diff      `git diff` of the change ONLY (no demonstration file inside), applies with `git apply` to HEAD
  {out}/{l1}/demo.*          the demonstration source file(s)
  {out}/{l1}/demo.txt        where each demonstration file must be placed in the repository, the exact command to run it, and
                             the observed output without and with the change
  {out}/{l1}/notes.txt       which clause is broken, the code site, what is needed for it to manifest, why the suite misses it
  (the same for {l2})

Before you finish: `git -C {wt} checkout -- . && git -C {wt} clean -fdq -e target` so the worktree is back at HEAD (keep
`target/` for my re-confirmation), and verify that each patch.diff applies cleanly to that clean tree with `git apply --check`.
Your final message: for {l1} and {l2} one paragraph each (site, mechanism, trigger, demonstration command, both outcomes).""")
