"""C03 — feature evaluation follows GenApi dataflow semantics.

prove(): props/C03.v.  Correspondence: generated acyclic node graphs (tools/gen_graph.py) + device images +
operation histories; the real genapi crate (rust/h_graph, stores built with no_cache()) against
model/Graph.v evaluated by coqc/vm_compute on the same graph; compared per operation: value / error class,
then the complete device access log (reads and writes, in order) and the final device memory.
Predicate: tools/ref_graph.py, an independent Python reference interpreter written from the property text
(values, "some error" where the class is not prescribed, write log, final memory)."""
import json
import os
import sys

import gen_graph as G
import ref_graph as R
from vplib import Case, Check, MachineryError, Rng

PID = "C03"
IMPORTS = ["Outcome", "Formula", "FormulaFlocq", "Graph"]
E_ALLOC = 96         # model-only: register length beyond 2^20 (the code aborts in the allocator)
E_EXPR_CYCLE = 97    # model-only: <Expression>s referring to each other cyclically (the code overflows the stack)


def split_out(out, nops):
    """-> (per-op results, tail) or None"""
    if out is None or len(out) < 2:
        return None
    res, i = [], 0
    for _ in range(nops):
        if i >= len(out):
            return None
        n = out[i]
        res.append(out[i + 1:i + 1 + n])
        i += 1 + n
    return res, out[i:]


def parse_tail(t):
    if not t or t[0] != -7:
        return None
    n = t[1]
    i = 2
    log = []
    for _ in range(n):
        if t[i] == 0:
            log.append(("R", t[i + 1], t[i + 2]))
            i += 3
        else:
            ln = t[i + 2]
            log.append(("W", t[i + 1], bytes(t[i + 3:i + 3 + ln])))
            i += 3 + ln
    if t[i] != -8:
        return None
    return log, bytes(t[i + 1:])


def predicate(c, out):
    g = c.meta
    if out is None or out in ([3], [4]):
        return "the harness hung or was killed: %r" % (out,)
    if out == [2]:
        return "panic outside an operation (store construction)"
    if out[:2] == [1, 99]:
        return "the node store could not be built from a well-formed description"
    so = split_out(out, len(g["ops"]))
    if so is None:
        return "unparsable output"
    res, tail = so
    pt = parse_tail(tail)
    if pt is None:
        return "unparsable device log"
    log, mem = pt
    exp = R.run_reference(g)
    for i, (o, r, e) in enumerate(zip(g["ops"], res, exp["results"])):
        if r == [2]:
            if e is not None:
                return "op %d %r panicked" % (i, o)
            continue
        if e is None:             # the property text does not prescribe the outcome of this operation
            continue
        if e == "err":
            if not r or r[0] != 1:
                return "op %d %r: %r, the property requires an error" % (i, o, r[:6])
        elif r != e:
            return "op %d %r: result %r, the property requires %r" % (i, o, r[:8], e[:8])
    if exp["complete"]:
        writes = [(a, b) for k, a, b in log if k == "W"]
        if writes != exp["writes"]:
            return "device writes %r differ from the required %r" % (writes[:6], exp["writes"][:6])
        if mem != exp["mem"]:
            return "final device memory differs from the required one"
    return None


def nontrivial(c, out):
    so = split_out(out, len(c.meta["ops"])) if out else None
    if not so:
        return False
    return sum(1 for r in so[0] if r and r[0] == 0) >= 2


def make_case(g, family):
    c = Case("g", [], meta=g, term=G.model_term(g), rline=G.rust_line(g))
    g["family"] = family
    return c


def gen_cases(ck):
    rng = Rng(ck.seed)
    quick = ck.tier == "quick"
    cases = []
    for g in G.boundary_graphs():
        cases.append(make_case(g, "boundary"))
    n_core, n_wide, n_chain = (500, 1000, 150) if quick else (8000, 20000, 2000)
    for _ in range(n_core):
        cases.append(make_case(G.gen_graph(rng, kinds=G.CORE, float_ok=False), "core"))
    for _ in range(n_wide):
        cases.append(make_case(G.gen_graph(rng), "wide"))
    for _ in range(n_chain):
        cases.append(make_case(G.gen_chain(rng), "chains"))
    return cases


def has_alloc(mo, g):
    so = split_out(mo, len(g["ops"]))
    return so is None or any(r[:2] in ([1, E_ALLOC], [1, E_EXPR_CYCLE]) for r in so[0])


def replay(ck, binary):
    r = json.load(open(ck.replay))
    if r.get("kind") != "case":
        print(json.dumps(r, indent=1)[:4000])
        sys.exit(0)
    g = r["graph"]
    g = G.from_json(g)
    c = make_case(g, "replay")
    impl = ck.run_impl(binary, [c.line])
    model = ck.run_model_terms(IMPORTS, [c.term], per_eval=1)
    print("xml      :", G.render_xml(g)[len(G.HEADER):])
    print("ops      :", g["ops"])
    si, sm = split_out(impl[0], len(g["ops"])), split_out(model[0], len(g["ops"]))
    if si and sm:
        for o, a, b in zip(g["ops"], si[0], sm[0]):
            print("   %-40r impl %-30r model %r%s" % (o, a[:10], b[:10], "" if a == b else "   <<<"))
        print("impl tail :", si[1][:200])
        print("model tail:", sm[1][:200])
    else:
        print("impl :", impl[0][:100])
        print("model:", model[0][:100])
    print("predicate:", predicate(c, impl[0]) or "holds")
    ck.compare([c], impl, model, predicate, nontrivial)
    ck.finish()


class GCheck(Check):
    def write_replay(self, obj):
        # keep the graph itself in the replay (the harness line alone is not readable)
        if obj.get("kind") == "case" and getattr(self, "_cur", None) is not None:
            g = self._cur.get(obj.get("case"))
            if g is not None:
                obj["graph"] = G.to_json(g)
                obj["xml"] = G.render_xml(g)[len(G.HEADER):]
                obj["case"] = obj["case"][:200] + "..."
        return Check.write_replay(self, obj)


def main():
    ck = GCheck(PID)
    ck.rule = ("acyclic node graphs of <= 14 nodes over Integer / IntReg / MaskedIntReg / Boolean / Enumeration / Command / "
               "IntSwissKnife / IntConverter (family core) plus Float / FloatReg / SwissKnife / Converter / String / StringReg / "
               "Register / Category (family wide): every value-source form (Value, pValue + pValueCopy before and after, pIndex "
               "with ValueIndexed / pValueIndexed / defaults), Min / Max / Inc immediates and references, register addresses from "
               "Address, pAddress, pIndex with Offset / pOffset, embedded IntSwissKnife, several elements, Length / pLength, "
               "formulas with .Value/.Min/.Max/.Inc/.Enum accessors, constants, expressions, shadowing names; ~2.5 % references to "
               "a node of the wrong kind, ~1 % dangling; random 80-byte device image; 4..25 operations (value / set / min / max / "
               "inc / execute / is_done / current entry / set entry / string / register read, write, address, length), ~12 % on a "
               "node without that interface or a missing node, scripted device rejections; family chains: pValue chains of length "
               "1..8 with copies over value slots and registers; real genapi crate vs model/Graph.v (coqc vm_compute) on every case; "
               "predicate = independent Python reference interpreter; non-trivial = at least two successful operations")
    ck.trusted += ["tools/gen_graph.py (generator + XML / Gallina renderers), tools/ref_graph.py (reference interpreter), rust/h_graph",
                   "Flocq binary64 instance of the float primitives (model/FormulaFlocq.v) is used to RUN the model only"]
    ck.prove()
    ck.phase("prove")
    binary, log = ck.cargo_build("h_graph")
    ck.phase("cargo")
    if binary is None:
        path = ck.write_replay({"kind": "build", "property": PID, "unchecked": "correspondence via rust/h_graph", "log": log[-6000:]})
        ck.violations.append((path, True, "harness rust/h_graph does not build against the repository: correspondence cannot be established"))
        ck.finish()
    if ck.replay:
        replay(ck, binary)
    cases = gen_cases(ck)
    ck.phase("generate")
    try:
        model = ck.run_model_terms(IMPORTS, [c.term for c in cases], per_eval=100)
    except MachineryError as e:          # coqc killed on an overloaded machine: one more attempt
        ck.notes.append("model evaluation retried after: %s" % str(e).splitlines()[0][:200])
        model = ck.run_model_terms(IMPORTS, [c.term for c in cases], per_eval=100)
    ck.phase("model")
    keep = [i for i, c in enumerate(cases) if not has_alloc(model[i], c.meta)]
    ck.dist["excluded_absurd_register_length_or_cyclic_expression"] = len(cases) - len(keep)
    cases = [cases[i] for i in keep]
    model = [model[i] for i in keep]
    impl = ck.run_impl(binary, [c.line for c in cases], jobs=8)
    ck.phase("impl")
    ck._cur = {c.line: c.meta for c in cases}
    for fam in ("boundary", "core", "wide", "chains"):
        idx = [i for i, c in enumerate(cases) if c.meta["family"] == fam]
        if idx:
            ck.compare([cases[i] for i in idx], [impl[i] for i in idx], [model[i] for i in idx], predicate, nontrivial,
                       family=fam)
    st = R.STATS
    ck.dist["reference"] = dict(st)
    ck.finish()
