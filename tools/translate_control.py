#!/usr/bin/env python3
"""tools/translate_control.py -- CODE translator for the control transaction layer (properties C06 / C07):
cameleon/src/u3v/control_handle.rs -> coq/theories/gen/ControlSrc.v, regenerated on every run.

Translated (statement by statement, into the state monad X of model/CtlOps.v; integer arithmetic has the debug-build
semantics of lib/RustInt.v):

    fn verify_range, ControlHandle::{assert_open, verify_ack, send_cmd, initialize_config, abrm},
    <ControlHandle as DeviceControl>::{is_opened, open, close, read, write}

Shapes:
    self.<field> / self.config.<field>     doX t <- h_<field>          (assignment: h_set_<field> v)
    self.buffer.len() / .resize(n, v) / &self.buffer[a..b] / cmd.serialize(self.buffer.as_mut_slice())
                                           buf_len / buf_resize / buf_slice / buf_serialize (the CONTENTS of the buffer
                                           are ghost state of the translation)
    self.inner.send(bytes, T) / .recv(&mut self.buffer, T) / .open() / .close() / .set_halt(T) / .clear_halt() / .is_opened()
                                           ch_send / ch_recv / ..; T must be `self.config.timeout_duration`
    E?  and  unwrap_or_log!(E)             the bind of the monad, after the conversion From<u3v::Error> for ControlError
                                           (xtry ce_of_usb for the channel, liftE / xtry ce_of_u3v for protocol functions;
                                           macro text and From impl pinned); a Result that is neither propagated nor
                                           returned is a ShapeError
    return Err(E) / Err(E) / Ok(v)         failX <class> / retX v; a `&mut [u8]` parameter is returned next to the value
    a + b, a - b, x as T, wrapping_add     r_add / r_sub (Panic outside the type) / r_cast / r_wrapping_add
    let mut v / v = e / v -= e             rebinding of the Gallina name
    if c { .. } [else { .. }]              a branch that leaves (return / break / continue) is the `then`, the rest of the
                                           block the `else`; a branch without control transfer returns the variables it
                                           rebinds; anything mixed is a ShapeError
    while V > 0 { .. continue; .. break; } Fixpoint over a fuel argument (S (Z.to_nat V)) carrying the variables the body
                                           rebinds; out of fuel = failX E_FUEL
    for x in s.chunks(n) / chunks_mut(n)   Fixpoint over the list r_chunks n s (chunks_mut: the rewritten chunks are
                                           collected and become the new value of s)
    for x in <WriteMemChunks>              Fixpoint over fuel (witer_fuel) stepping witer_next (gen/ReadChunks.v's
                                           translated `next`)
    send_cmd<T: CommandScd, U: ParseScd>   takes the model's `cmd` for T and the view record (V : ack_view U) for U; U at a
                                           call is the annotation of the `let` that receives the result
Anything outside the accepted shapes raises ShapeError (exit 3): the check reports the proof obligation as broken instead
of translating something else."""
import os
import re
import sys

VERIF = os.path.dirname(os.path.dirname(os.path.abspath(__file__)))
OUT = os.path.join(VERIF, "coq", "theories", "gen", "ControlSrc.v")
INTS = {"u8": 8, "u16": 16, "u32": 32, "u64": 64, "u128": 128, "usize": 64}


class ShapeError(Exception):
    pass


def strip_comments(s):
    s = re.sub(r"/\*.*?\*/", "", s, flags=re.S)
    return re.sub(r"//[^\n]*", "", s)


def norm(s):
    return re.sub(r"\s+", "", s)


# ------------------------------------------------------------------------------------------------- tokens --
TOK = re.compile(r"""
    (?P<ws>\s+) |
    (?P<str>"(?:[^"\\]|\\.)*") |
    (?P<life>'[A-Za-z_][A-Za-z0-9_]*(?!')) |
    (?P<num>0x[0-9A-Fa-f_]+|0b[01_]+|\d[\d_]*(?:[iu](?:8|16|32|64|128|size))?) |
    (?P<id>[A-Za-z_][A-Za-z0-9_]*) |
    (?P<op>->|=>|==|!=|<=|>=|<<=|>>=|<<|>>|&&|\|\||\.\.=|\.\.|::|\+=|-=|\*=|/=|%=|\|=|&=|\^=|[(){}\[\]<>,;:.&|!+\-*/=?\#%^@$])
""", re.X)
NUMTOK = re.compile(r"(0x[0-9A-Fa-f_]+?|0b[01_]+|\d[\d_]*?)(_?[iu](?:8|16|32|64|128|size))?(?![A-Za-z0-9_])")


def tokenize(s):
    out, pos = [], 0
    while pos < len(s):
        m = TOK.match(s, pos)
        if not m:
            raise ShapeError("cannot tokenize %r" % s[pos:pos + 40])
        if m.lastgroup == "num":
            m2 = NUMTOK.match(s, pos)
            if not m2:
                raise ShapeError("numeric token not understood near %r" % s[pos:pos + 30])
            out.append(("num", m2.group(0)))
            pos = m2.end()
            continue
        pos = m.end()
        if m.lastgroup != "ws":
            out.append((m.lastgroup, m.group(0)))
    return out


def num_value(tok):
    m = NUMTOK.match(tok)
    body = m.group(1).replace("_", "")
    if body.startswith("0x"):
        v = int(body[2:], 16)
    elif body.startswith("0b"):
        v = int(body[2:], 2)
    else:
        v = int(body, 10)
    sfx = m.group(2)
    return v, (sfx.lstrip("_") if sfx else None)


DEPTH = {"<": 1, ">": -1, ">>": -2, "(": 1, ")": -1, "[": 1, "]": -1, "{": 1, "}": -1}
COMPOUND = {"+=": "+", "-=": "-", "*=": "*", "/=": "/", "%=": "%"}


class Parser:
    """statements and expressions of a function body"""

    def __init__(self, toks):
        self.t, self.i = toks, 0

    def peek(self, k=0):
        return self.t[self.i + k][1] if self.i + k < len(self.t) else None

    def kind(self, k=0):
        return self.t[self.i + k][0] if 0 <= self.i + k < len(self.t) else None

    def eof(self):
        return self.i >= len(self.t)

    def near(self):
        return " ".join(x[1] for x in self.t[max(0, self.i - 8):self.i + 8])

    def eat(self, x=None):
        tok = self.peek()
        if tok is None or (x is not None and tok != x):
            raise ShapeError("expected %r, found %r near `%s`" % (x, tok, self.near()))
        self.i += 1
        return tok

    def ident(self):
        if self.kind() != "id":
            raise ShapeError("identifier expected near `%s`" % self.near())
        return self.eat()

    def type_until(self, stops):
        ty, depth = [], 0
        while not (depth == 0 and self.peek() in stops):
            tok = self.eat()
            depth += DEPTH.get(tok, 0)
            ty.append(tok)
        return ty

    # ---- statements
    def block_body(self):
        out = []
        while not self.eof() and self.peek() != "}":
            kw = self.peek()
            if kw == ";":
                self.eat(";")
                continue
            if kw == "let":
                self.eat("let")
                mut = False
                if self.peek() == "mut":
                    self.eat("mut")
                    mut = True
                if self.peek() == "(":
                    raise ShapeError("tuple pattern in a let near `%s`" % self.near())
                name = self.ident()
                ty = None
                if self.peek() == ":":
                    self.eat(":")
                    ty = self.type_until(("=",))
                self.eat("=")
                e = self.expr()
                self.eat(";")
                out.append(("let", name, mut, ty, e))
                continue
            if kw == "const":
                self.eat("const")
                name = self.ident()
                self.eat(":")
                ty = self.type_until(("=",))
                self.eat("=")
                e = self.expr()
                self.eat(";")
                out.append(("let", name, False, ty, e))
                continue
            if kw == "while":
                self.eat("while")
                if self.peek() == "let":
                    raise ShapeError("while let")
                c = self.expr(nostruct=True)
                out.append(("while", c, self.braced()))
                continue
            if kw == "for":
                self.eat("for")
                pat = self.ident()
                self.eat("in")
                it = self.expr(nostruct=True)
                out.append(("for", pat, it, self.braced()))
                continue
            if kw in ("loop", "unsafe", "static", "struct", "enum", "impl", "mod", "fn", "use", "macro_rules"):
                raise ShapeError("statement `%s` near `%s`" % (kw, self.near()))
            e = self.expr()
            if self.peek() == "=":
                self.eat("=")
                r = self.expr()
                self.eat(";")
                out.append(("assign", e, None, r))
                continue
            if self.peek() in COMPOUND:
                op = COMPOUND[self.eat()]
                r = self.expr()
                self.eat(";")
                out.append(("assign", e, op, r))
                continue
            if self.peek() in ("|=", "&=", "^=", "<<=", ">>="):
                raise ShapeError("compound assignment near `%s`" % self.near())
            if self.peek() == ";":
                self.eat(";")
                out.append(("expr", e))
                continue
            if self.eof() or self.peek() == "}":
                if e[0] == "if" and e[3] is None:
                    out.append(("expr", e))     # an `if` without else has no value
                else:
                    out.append(("tail", e))
                break
            if e[0] in ("if", "iflet", "match", "block"):
                out.append(("expr", e))
                continue
            raise ShapeError("statement near `%s`" % self.near())
        return out

    def braced(self):
        self.eat("{")
        b = self.block_body()
        self.eat("}")
        return b

    # ---- expressions
    LEVELS = [["||"], ["&&"], ["==", "!=", "<", ">", "<=", ">="], ["|"], ["^"], ["&"], ["<<", ">>"], ["+", "-"],
              ["*", "/", "%"]]

    def expr(self, lvl=0, nostruct=False):
        if lvl == len(self.LEVELS):
            return self.cast(nostruct)
        e = self.expr(lvl + 1, nostruct)
        while self.peek() in self.LEVELS[lvl]:
            op = self.eat()
            r = self.expr(lvl + 1, nostruct)
            e = ("bin", op, e, r)
            if lvl == 2:
                if self.peek() in self.LEVELS[2]:
                    raise ShapeError("chained comparison near `%s`" % self.near())
                break
        return e

    def cast(self, nostruct):
        e = self.unary(nostruct)
        while self.peek() == "as":
            self.eat("as")
            ty = self.eat()
            if ty not in INTS:
                raise ShapeError("cast to `%s`" % ty)
            e = ("as", e, ty)
        return e

    def unary(self, nostruct):
        if self.peek() == "&":
            self.eat("&")
            if self.peek() == "mut":
                self.eat("mut")
                return ("refmut", self.unary(nostruct))
            return ("ref", self.unary(nostruct))
        if self.peek() == "!":
            self.eat("!")
            return ("not", self.unary(nostruct))
        if self.peek() in ("-", "*", "&&"):
            raise ShapeError("unary `%s` near `%s`" % (self.peek(), self.near()))
        return self.postfix(nostruct)

    def args(self, close=")"):
        out = []
        while self.peek() != close:
            out.append(self.expr())
            if self.peek() == ",":
                self.eat(",")
            elif self.peek() != close:
                raise ShapeError("argument list near `%s`" % self.near())
        self.eat(close)
        return out

    def postfix(self, nostruct):
        e = self.atom(nostruct)
        while True:
            if self.peek() == ".":
                self.eat(".")
                if self.kind() == "num":
                    raise ShapeError("tuple field near `%s`" % self.near())
                name = self.ident()
                if self.peek() == "::":
                    raise ShapeError("turbofish on a method near `%s`" % self.near())
                if self.peek() == "(":
                    self.eat("(")
                    e = ("mcall", e, name, self.args())
                else:
                    e = ("field", e, name)
            elif self.peek() == "?":
                self.eat("?")
                e = ("try", e)
            elif self.peek() == "[":
                self.eat("[")
                lo = hi = None
                if self.peek() != "..":
                    lo = self.expr()
                if self.peek() != "..":
                    raise ShapeError("index that is not a range near `%s`" % self.near())
                self.eat("..")
                if self.peek() != "]":
                    hi = self.expr()
                self.eat("]")
                e = ("index", e, lo, hi)
            elif self.peek() == "(":
                raise ShapeError("call of an expression near `%s`" % self.near())
            else:
                return e

    def block_expr(self):
        return ("block", self.braced())

    def pattern(self):
        if self.peek() == "_":
            self.eat("_")
            return ("wild",)
        if self.kind() != "id":
            raise ShapeError("pattern near `%s`" % self.near())
        p = self.path()
        if self.peek() == "(":
            self.eat("(")
            inner = self.pattern()
            self.eat(")")
            return ("pctor", p, inner)
        if self.peek() == "{":
            raise ShapeError("struct pattern near `%s`" % self.near())
        return ("ppath", p)

    def atom(self, nostruct):
        kind, tok = self.kind(), self.eat()
        if tok == "(":
            if self.peek() == ")":
                self.eat(")")
                return ("unit",)
            e = self.expr()
            if self.peek() == ",":
                raise ShapeError("tuple expression near `%s`" % self.near())
            self.eat(")")
            return ("paren", e)
        if tok == "{":
            self.i -= 1
            return self.block_expr()
        if kind == "num":
            v, sfx = num_value(tok)
            return ("lit", v, sfx)
        if kind == "str":
            return ("str", tok)
        if tok in ("||", "|"):
            raise ShapeError("closure near `%s`" % self.near())
        if tok == "if":
            if self.peek() == "let":
                self.eat("let")
                pat = self.pattern()
                self.eat("=")
                s = self.expr(nostruct=True)
                a = self.block_expr()
                b = None
                if self.peek() == "else":
                    self.eat("else")
                    if self.peek() == "if":
                        raise ShapeError("else if after if let")
                    b = self.block_expr()
                return ("iflet", pat, s, a, b)
            c = self.expr(nostruct=True)
            a = self.block_expr()
            b = None
            if self.peek() == "else":
                self.eat("else")
                if self.peek() == "if":
                    b = ("block", [("tail", self.atom(False))])
                else:
                    b = self.block_expr()
            return ("if", c, a, b)
        if tok == "match":
            s = self.expr(nostruct=True)
            self.eat("{")
            arms = []
            while self.peek() != "}":
                pats = [self.pattern()]
                while self.peek() == "|":
                    self.eat("|")
                    pats.append(self.pattern())
                if self.peek() == "if":
                    raise ShapeError("match guard near `%s`" % self.near())
                self.eat("=>")
                b = self.expr()
                if self.peek() == ",":
                    self.eat(",")
                elif self.peek() != "}" and b[0] != "block":
                    raise ShapeError("match arm near `%s`" % self.near())
                arms.append((pats, b))
            self.eat("}")
            return ("match", s, arms)
        if tok == "return":
            if self.peek() in (";", "}", ",", None):
                raise ShapeError("return without a value")
            return ("return", self.expr())
        if tok == "break":
            if self.peek() not in (";", "}"):
                raise ShapeError("break with a value or a label")
            return ("break",)
        if tok == "continue":
            if self.peek() not in (";", "}"):
                raise ShapeError("continue with a label")
            return ("continue",)
        if kind == "id":
            if tok in ("loop", "while", "unsafe", "move", "mut", "let", "for", "fn", "ref", "in"):
                raise ShapeError("`%s` in expression position near `%s`" % (tok, self.near()))
            self.i -= 1
            p = self.path()
            if self.peek() == "!":
                self.eat("!")
                if self.peek() not in ("(", "[", "{"):
                    raise ShapeError("macro call near `%s`" % self.near())
                close = {"(": ")", "[": "]", "{": "}"}[self.eat()]
                name = "::".join(p)
                if name == "unwrap_or_log":
                    a = self.args(close)
                    if len(a) != 1:
                        raise ShapeError("unwrap_or_log! with %d arguments" % len(a))
                    return ("try", a[0])
                if name == "format":
                    return ("macro", name, self.args(close))
                raise ShapeError("macro %s! near `%s`" % (name, self.near()))
            if self.peek() == "(":
                self.eat("(")
                a = self.args()
                if p == ["Ok"] or p == ["Err"]:
                    if len(a) != 1:
                        raise ShapeError("%s with %d arguments" % (p[0], len(a)))
                    return (p[0].lower(), a[0])
                return ("call", p, a)
            if self.peek() == "{" and not nostruct and p[-1][0].isupper():
                raise ShapeError("struct literal near `%s`" % self.near())
            return ("path", p)
        raise ShapeError("unexpected `%s` near `%s`" % (tok, self.near()))

    def path(self):
        if self.kind() != "id":
            raise ShapeError("path expected near `%s`" % self.near())
        p = [self.eat()]
        while self.peek() == "::":
            self.eat("::")
            if self.peek() == "<":
                raise ShapeError("turbofish near `%s`" % self.near())
            if self.kind() != "id":
                raise ShapeError("path near `%s`" % self.near())
            p.append(self.eat())
        return p


# --------------------------------------------------------------------------------------------- AST helpers --
def walk(ast):
    """every tuple node of an AST"""
    if isinstance(ast, tuple):
        yield ast
        for x in ast:
            yield from walk(x)
    elif isinstance(ast, list):
        for x in ast:
            yield from walk(x)


def names_used(ast):
    out = []
    for n in walk(ast):
        if n and n[0] == "path" and len(n[1]) == 1 and n[1][0] not in out:
            out.append(n[1][0])
    return out


MUTATING_METHODS = ("copy_from_slice",)


def assigned(ast):
    """locals assigned (or mutated through a method) inside an AST, in order of first assignment"""
    out = []
    for n in walk(ast):
        tgt = None
        if n and n[0] == "assign" and n[1][0] == "path" and len(n[1][1]) == 1:
            tgt = n[1][1][0]
        if n and n[0] == "mcall" and n[2] in MUTATING_METHODS and n[1][0] == "path" and len(n[1][1]) == 1:
            tgt = n[1][1][0]
        if tgt and tgt not in out:
            out.append(tgt)
    return out


def let_names(ast):
    return [n[1] for n in walk(ast) if n and n[0] == "let"] + [n[1] for n in walk(ast) if n and n[0] == "for"]


def has_transfer(ast, loops=True):
    """does the AST contain return / break / continue (break / continue inside a nested loop do not count)"""
    if isinstance(ast, list):
        return any(has_transfer(x) for x in ast)
    if not isinstance(ast, tuple) or not ast:
        return False
    if ast[0] == "return":
        return True
    if ast[0] in ("break", "continue"):
        return True
    if ast[0] in ("while", "for"):
        return any(n[0] == "return" for n in walk(ast) if n)
    return any(has_transfer(x) for x in ast)


def diverges(stmts):
    """the block always leaves through return / break / continue"""
    if not stmts:
        return False
    st = stmts[-1]
    if st[0] in ("expr", "tail"):
        e = st[1]
        if e[0] in ("return", "break", "continue"):
            return True
        if e[0] == "if" and e[3] is not None:
            return diverges(e[2][1]) and diverges(e[3][1])
        if e[0] == "iflet" and e[4] is not None:
            return diverges(e[3][1]) and diverges(e[4][1])
    return False


# ---------------------------------------------------------------------------------------------- the source --
UNWRAP_OR_LOG = """macro_rules! unwrap_or_log { ($expr:expr) => {{ match $expr { Ok(v) => v, Err(error) => { error!(?error);
 return Err(error.into()); } } }}; }"""

FROM_U3V = """impl From<u3v::Error> for ControlError { fn from(err: u3v::Error) -> ControlError {
 use u3v::Error::{BufferIo, InvalidDevice, InvalidPacket, LibUsb};
 use u3v::LibUsbError::{ Access, BadDescriptor, Busy, Interrupted, InvalidParam, Io, NoDevice, NoMem, NotFound, NotSupported,
 Other, Overflow, Pipe, Timeout, };
 match &err { LibUsb(libusb_error) => match libusb_error {
 Io | InvalidParam | Access | Overflow | Pipe | Interrupted | NoMem | NotSupported | BadDescriptor | Other => ControlError::Io(err.into()),
 Busy => ControlError::Busy, NoDevice | NotFound => ControlError::Disconnected, Timeout => ControlError::Timeout, },
 BufferIo(_) | InvalidPacket(_) => ControlError::Io(err.into()),
 InvalidDevice => ControlError::InvalidDevice("invalid device".into()), } } }"""

HANDLE_FIELDS = ("inner: u3v::ControlChannel, config: ConnectionConfig, next_req_id: u16, buffer: Vec<u8>, info: u3v::DeviceInfo, "
                 "abrm: Option<Abrm>, sbrm: Option<Sbrm>, sirm: Option<Sirm>, manifest_table: Option<ManifestTable>,")
CONFIG_FIELDS = "timeout_duration: Duration, retry_count: u16, maximum_cmd_length: u32, maximum_ack_length: u32,"
SEND_CMD_WHERE = "where T: cmd::CommandScd, U: ack::ParseScd<'a>,"

# register_map.rs: the accessors initialize_config / abrm call, pinned by their text
RM_PINS = {
    "Abrm::new": ("pub fn new<Ctrl: DeviceControl + ?Sized>(device: &mut Ctrl) -> ControlResult<Self> {",
                  "let (capability_addr, capability_len) = abrm::DEVICE_CAPABILITY; let device_capability = "
                  "read_register(device, capability_addr, capability_len)?; Ok(Self { device_capability })"),
    "Abrm::sbrm": ("pub fn sbrm<Ctrl: DeviceControl + ?Sized>(&self, device: &mut Ctrl) -> ControlResult<Sbrm> {",
                   "let sbrm_address = self.sbrm_address(device)?; Sbrm::new(device, sbrm_address)"),
    "Abrm::sbrm_address": ("pub fn sbrm_address<Ctrl: DeviceControl + ?Sized>( &self, device: &mut Ctrl, ) -> ControlResult<u64> {",
                           "self.read_register(device, abrm::SBRM_ADDRESS)"),
    "Abrm::maximum_device_response_time": (
        "pub fn maximum_device_response_time<Ctrl: DeviceControl + ?Sized>( &self, device: &mut Ctrl, ) -> ControlResult<Duration> {",
        "self.read_register(device, abrm::MAXIMUM_DEVICE_RESPONSE_TIME)"),
    "Abrm::read_register": (
        "fn read_register<T, Ctrl: DeviceControl + ?Sized>( &self, device: &mut Ctrl, register: (u64, u16), ) -> ControlResult<T> "
        "where T: ParseBytes, {",
        "read_register(device, register.0, register.1)"),
    "Sbrm::new": ("pub fn new<Ctrl: DeviceControl + ?Sized>( device: &mut Ctrl, sbrm_addr: u64, ) -> ControlResult<Self> {",
                  "let (capability_offset, capability_len) = sbrm::U3VCP_CAPABILITY_REGISTER; let capability_addr = "
                  "register_address(sbrm_addr, capability_offset)?; let capability = read_register(device, capability_addr, "
                  "capability_len)?; Ok(Self { sbrm_addr, capability, })"),
    "Sbrm::maximum_command_transfer_length": (
        "pub fn maximum_command_transfer_length<Ctrl: DeviceControl + ?Sized>( &self, device: &mut Ctrl, ) -> ControlResult<u32> {",
        "self.read_register(device, sbrm::MAXIMUM_COMMAND_TRANSFER_LENGTH)"),
    "Sbrm::maximum_acknowledge_trasfer_length": (
        "pub fn maximum_acknowledge_trasfer_length<Ctrl: DeviceControl + ?Sized>( &self, device: &mut Ctrl, ) -> ControlResult<u32> {",
        "self.read_register(device, sbrm::MAXIMUM_ACKNOWLEDGE_TRANSFER_LENGTH)"),
    "Sbrm::read_register": (
        "fn read_register<T, Ctrl>(&self, device: &mut Ctrl, register: (u64, u16)) -> ControlResult<T> where T: ParseBytes, "
        "Ctrl: DeviceControl + ?Sized, {",
        "let (offset, len) = register; let addr = register_address(self.sbrm_addr, offset)?; read_register(device, addr, len)"),
    "::register_address": (
        "fn register_address(base: u64, offset: u64) -> ControlResult<u64> {",
        "base.checked_add(offset).ok_or_else(|| { ControlError::InvalidDevice(\"register address exceeds the 64 bit address "
        "space\".into()) })"),
    "::read_register": (
        "fn read_register<T, Ctrl: DeviceControl + ?Sized>( device: &mut Ctrl, addr: u64, len: u16, ) -> ControlResult<T> "
        "where T: ParseBytes, {",
        "let len = len as usize; let mut buf = vec![0; len]; device.read(addr, &mut buf[..len])?; T::parse_bytes(&buf[..len])"),
}


def block_at(src, i):
    if src[i] != "{":
        raise ShapeError("expected '{' at %r" % src[i:i + 30])
    depth = 0
    for j in range(i, len(src)):
        if src[j] == "{":
            depth += 1
        elif src[j] == "}":
            depth -= 1
            if depth == 0:
                return src[i + 1:j], j + 1
    raise ShapeError("unbalanced braces")


def one(pattern, src, what):
    ms = list(re.finditer(pattern, src))
    if len(ms) != 1:
        raise ShapeError("%s: found %d times" % (what, len(ms)))
    return ms[0]


class Source:
    def __init__(self, repo):
        self.text = strip_comments(open(os.path.join(repo, "cameleon/src/u3v/control_handle.rs")).read())
        t = self.text
        # pins
        m = one(r"macro_rules!\s*unwrap_or_log\s*\{", t, "macro unwrap_or_log!")
        body, _ = block_at(t, m.end() - 1)
        if norm("macro_rules! unwrap_or_log {" + body + "}") != norm(UNWRAP_OR_LOG):
            raise ShapeError("the body of macro unwrap_or_log! changed: %r" % norm(body)[:200])
        m = one(r"pub struct ControlHandle\s*\{", t, "struct ControlHandle")
        if norm(block_at(t, m.end() - 1)[0]) != norm(HANDLE_FIELDS):
            raise ShapeError("the fields of ControlHandle changed")
        m = one(r"struct ConnectionConfig\s*\{", t, "struct ConnectionConfig")
        if norm(block_at(t, m.end() - 1)[0]) != norm(CONFIG_FIELDS):
            raise ShapeError("the fields of ConnectionConfig changed")
        mod = strip_comments(open(os.path.join(repo, "cameleon/src/u3v/mod.rs")).read())
        m = one(r"impl From<u3v::Error> for ControlError\s*\{", mod, "impl From<u3v::Error> for ControlError")
        if norm("impl From<u3v::Error> for ControlError {" + block_at(mod, m.end() - 1)[0] + "}") != norm(FROM_U3V):
            raise ShapeError("impl From<u3v::Error> for ControlError (cameleon/src/u3v/mod.rs) changed")
        if not re.search(r"use cameleon_device::\{\s*u3v,\s*u3v::protocol::\{ack, cmd\},\s*\};", t):
            raise ShapeError("the `use cameleon_device::{u3v, u3v::protocol::{ack, cmd}}` line changed")
        # impl blocks
        m = one(r"\nimpl ControlHandle\s*\{", t, "impl ControlHandle")
        self.inherent = block_at(t, m.end() - 1)[0]
        m = one(r"\nimpl DeviceControl for ControlHandle\s*\{", t, "impl DeviceControl for ControlHandle")
        self.trait = block_at(t, m.end() - 1)[0]
        self.free = t
        self.rm = strip_comments(open(os.path.join(repo, "cameleon/src/u3v/register_map.rs")).read())
        self.rm_checked = set()

    def function(self, where, name):
        """-> (header text, body text)"""
        src = {"ControlHandle": self.inherent, "DeviceControl": self.trait, "free": self.free}[where]
        ms = [m for m in re.finditer((r"(?m)^fn %s\b" if where == "free" else r"\bfn %s\b") % re.escape(name), src)]
        if len(ms) != 1:
            raise ShapeError("fn %s: found %d times in %s" % (name, len(ms), where))
        i = ms[0].start()
        depth, j = 0, i
        while j < len(src) and not (src[j] == "{" and depth == 0):
            if src[j] in "(<[":
                depth += 1
            elif src[j] in ")>]":
                if not (src[j] == ">" and src[j - 1] == "-"):
                    depth -= 1
            elif src[j] == ";" and depth == 0:
                raise ShapeError("fn %s has no body" % name)
            j += 1
        body, _ = block_at(src, j)
        return src[i:j], body

    def pin_rm(self, key):
        """register_map.rs: the accessor `key` still has the pinned text"""
        if key in self.rm_checked:
            return
        owner, name = key.split("::")
        head, want = RM_PINS[key]
        if owner:
            m = one(r"\nimpl %s\s*\{" % owner, self.rm, "impl %s (register_map.rs)" % owner)
            scope = block_at(self.rm, m.end() - 1)[0]
        else:
            scope = self.rm
        cands = []
        for m in re.finditer(r"(?:pub\s+)?fn %s\b" % re.escape(name), scope):
            k = scope.index("{", m.start())
            # a where clause can contain no brace; the first `{` at angle depth 0 starts the body
            if owner == "" and scope[:m.start()].count("{") != scope[:m.start()].count("}"):
                continue        # a method of some impl, not the free function
            cands.append((scope[m.start():k + 1], block_at(scope, k)[0]))
        if len(cands) != 1:
            raise ShapeError("register_map.rs: %s found %d times" % (key, len(cands)))
        h, b = cands[0]
        if norm(h) != norm(head) or norm(b) != norm(want):
            raise ShapeError("register_map.rs: %s no longer has the pinned text: %r / %r" % (key, norm(h)[:160], norm(b)[:200]))
        self.rm_checked.add(key)


# ------------------------------------------------------------------------------------------------ compiler --
FUNCS = {          # name -> where it is defined
    "verify_range": "free",
    "assert_open": "ControlHandle", "verify_ack": "ControlHandle", "send_cmd": "ControlHandle",
    "initialize_config": "ControlHandle", "abrm": "ControlHandle",
    "is_opened": "DeviceControl", "open": "DeviceControl", "close": "DeviceControl", "read": "DeviceControl",
    "write": "DeviceControl",
}
ORDER = ["is_opened", "assert_open", "verify_range", "verify_ack", "send_cmd", "read", "write", "abrm",
         "initialize_config", "open", "close"]

RESERVED = {"as", "at", "cofix", "else", "end", "exists", "fix", "for", "forall", "fun", "if", "in", "let", "match", "mod",
            "Prop", "return", "Set", "then", "Type", "using", "where", "with", "by", "Z", "list", "nat", "bool", "option",
            "unit", "tt", "fst", "snd", "take", "drop", "zlen", "cmd", "ack", "packet", "world", "st", "ctl", "edit", "reply",
            "fuel", "items", "acc", "it", "S", "O", "U", "V", "X", "M", "ret", "fail", "lift", "wmem", "witer", "ghost",
            "serialize", "length", "map", "rev", "app", "repeat", "true", "false", "None", "Some", "Ok", "Err", "Panic"}

ERR_CLASS = {"NotOpened": ("CE_NOT_OPENED", 0), "Busy": ("CE_BUSY", 0), "Disconnected": ("CE_DISCONNECTED", 0),
             "Timeout": ("CE_TIMEOUT", 0), "Io": ("CE_IO", 1), "InvalidDevice": ("CE_INVALID_DEVICE", 1),
             "InvalidData": ("CE_INVALID_DATA", 1)}
ACK_KINDS = ("ReadMem", "WriteMem", "ReadMemStacked", "WriteMemStacked", "Pending")
CMD_KINDS = ("ReadMem", "WriteMem", "ReadMemStacked", "WriteMemStacked")
VIEWS = {"ack::ReadMem": "view_ReadMem", "ack::WriteMem": "view_WriteMem", "ack::Pending": "view_Pending"}
VIEW_FIELDS = {("ack::ReadMem", "data"): ("ReadMem_data", "bytes"), ("ack::WriteMem", "length"): ("WriteMem_length", "u16"),
               ("ack::Pending", "timeout"): ("Pending_timeout", "Duration")}
CONFIG_FIELD_TYPES = {"timeout_duration": "Duration", "retry_count": "u16", "maximum_cmd_length": "u32",
                      "maximum_ack_length": "u32"}
INT_MAX = {"u8": 255, "u16": 65535, "u32": 2 ** 32 - 1, "u64": 2 ** 64 - 1, "usize": 2 ** 64 - 1, "u128": 2 ** 128 - 1}


def coq_type(ty):
    if isinstance(ty, tuple):
        if ty[0] == "option":
            if ty[1][0] is None:
                raise ShapeError("the element type of an Option is never determined")
            return "(option %s)" % coq_type(ty[1][0])
        raise ShapeError("no Gallina type for %r" % (ty,))
    if ty in INTS or ty in ("Duration", "AckKind", "StatusKind", "Abrm"):
        return "Z"
    simple = {"bool": "bool", "unit": "unit", "bytes": "(list Z)", "mutbytes": "(list Z)", "AckPacket": "Ack.ack",
              "Cmd": "Cmd.cmd", "Packet": "packet", "Ccd": "packet", "CmdKind": "cmd_kind", "U": "U", "cmd::ReadMem": "(Z * Z)",
              "cmd::WriteMem": "wmem", "WriteMemChunks": "witer", "ReadMemChunks": "(Z * Z * Z)", "Sbrm": "(Z * Z)",
              "ack::ReadMem": "ack_ReadMem", "ack::WriteMem": "ack_WriteMem", "ack::Pending": "ack_Pending",
              "chunks": "(list (list Z))"}
    if ty in simple:
        return simple[ty]
    raise ShapeError("no Gallina type for %r" % (ty,))


def tup(items):
    if not items:
        return "tt"
    return items[0] if len(items) == 1 else "(" + ", ".join(items) + ")"


def tup_type(tys):
    if not tys:
        return "unit"
    return tys[0] if len(tys) == 1 else "(" + " * ".join(tys) + ")"


def ind(s, n=2):
    return "\n".join((" " * n + l) if l else l for l in s.split("\n"))


def atomic(t):
    return bool(re.fullmatch(r"[A-Za-z0-9_.']+|\(.*\)|\[.*\]", t, flags=re.S)) and (
        not t.startswith("(") or _balanced_whole(t))


def _balanced_whole(t):
    depth = 0
    for i, ch in enumerate(t):
        if ch == "(":
            depth += 1
        elif ch == ")":
            depth -= 1
            if depth == 0 and i != len(t) - 1:
                return False
    return depth == 0


def par(t):
    return t if atomic(t) else "(" + t + ")"


def render(chain, final):
    lines = []
    for kind, pat, term in chain:
        if kind == "do":
            tt_ = term if not re.match(r"(if|match|doX|let)\b", term) else "(" + term + ")"
            if "\n" in tt_:
                lines.append("doX %s <-\n%s;" % (pat, ind(tt_, 2)))
            else:
                lines.append("doX %s <- %s;" % (pat, tt_))
        else:
            lines.append("let %s := %s in" % (pat, term))
    lines.append(final)
    return "\n".join(lines)


class V:
    """a compiled expression: a pure Gallina term of type ty, or (comp = 'out' | 'X') a Result computation that still has
    to be propagated; lit: an integer literal whose type is not fixed yet"""

    def __init__(self, term, ty, comp=None, err=None, lit=False, place=None):
        self.term, self.ty, self.comp, self.err, self.lit, self.place = term, ty, comp, err, lit, place


class Translator:
    def __init__(self, repo):
        self.src = Source(repo)
        self.defs = []          # (name, text) in emission order
        self.sigs = {}
        self.busy = []

    # ---- signatures
    def ptype(self, toks, generics):
        s = "".join(toks)
        if s in INTS or s == "bool":
            return s
        if s == "&[u8]":
            return "bytes"
        if s == "&mut[u8]":
            return "mutbytes"
        if s == "&ack::AckPacket":
            return "AckPacket"
        if s in VIEWS:
            return s
        if s == "T" and "T" in generics:
            return "Cmd"
        if s == "U" and "U" in generics:
            return "U"
        if s == "()":
            return "unit"
        if s == "Abrm":
            return "Abrm"
        raise ShapeError("type `%s`" % " ".join(toks))

    def signature(self, name):
        if name in self.sigs:
            return self.sigs[name]
        head, body = self.src.function(FUNCS[name], name)
        p = Parser(tokenize(head))
        p.eat("fn")
        p.eat(name)
        generics = []
        if p.peek() == "<":
            p.eat("<")
            while p.peek() != ">":
                tok = p.eat()
                if tok != "," and p.kind(-1) == "id":
                    generics.append(tok)
                if p.peek() == ":":
                    raise ShapeError("fn %s: bound in the generics list" % name)
            p.eat(">")
        p.eat("(")
        params, selfk = [], None
        while p.peek() != ")":
            if p.peek() == "&":
                p.eat("&")
                if p.peek() in ("'a",) or p.kind() == "life":
                    p.eat()
                mut = False
                if p.peek() == "mut":
                    p.eat("mut")
                    mut = True
                p.eat("self")
                selfk = "mut" if mut else "ref"
            else:
                mut = False
                if p.peek() == "mut":
                    p.eat("mut")
                    mut = True
                pn = p.ident()
                p.eat(":")
                ty = self.ptype(p.type_until((",", ")")), generics)
                params.append((pn, ty, mut))
            if p.peek() == ",":
                p.eat(",")
        p.eat(")")
        ret, result = "unit", False
        if p.peek() == "->":
            p.eat("->")
            rt = p.type_until(("where", None))
            s = "".join(rt)
            m = re.fullmatch(r"ControlResult<(.*)>", s)
            if m:
                result = True
                ret = self.ptype([m.group(1)], generics)
            else:
                ret = self.ptype(rt, generics)
        if generics:
            if name != "send_cmd" or generics != ["T", "U"]:
                raise ShapeError("fn %s: generics %r" % (name, generics))
            rest = "".join(x[1] for x in p.t[p.i:])
            if norm(rest) != norm(SEND_CMD_WHERE):
                raise ShapeError("fn send_cmd: where clause %r" % rest)
        elif not p.eof():
            raise ShapeError("fn %s: trailing `%s` in the header" % (name, p.near()))
        if FUNCS[name] != "free" and selfk is None:
            raise ShapeError("fn %s takes no self" % name)
        sig = dict(name=name, params=params, ret=ret, result=result, generic=bool(generics), body=body,
                   inouts=[pn for pn, ty, _ in params if ty == "mutbytes"], coq="src_" + name)
        self.sigs[name] = sig
        return sig

    def ret_coq(self, sig):
        if sig["inouts"]:
            if sig["ret"] != "unit":
                raise ShapeError("fn %s: a `&mut [u8]` parameter and a value" % sig["name"])
            return tup_type(["(list Z)"] * len(sig["inouts"]))
        return coq_type(sig["ret"])

    def need(self, name):
        if name in [d[0] for d in self.defs]:
            return self.signature(name)
        if name in self.busy:
            raise ShapeError("recursion through fn %s" % name)
        self.busy.append(name)
        sig = self.signature(name)
        FnCompiler(self, sig).run()
        self.busy.pop()
        return sig


class FnCompiler:
    def __init__(self, tr, sig):
        self.tr, self.sig = tr, sig
        self.n = 0
        self.loops = []         # texts of the loop Fixpoints
        self.nloop = 0
        self.loopctx = []
        self.used_generic = False

    def tmp(self):
        self.n += 1
        return "t%d_" % self.n

    def err(self, msg):
        return ShapeError("fn %s: %s" % (self.sig["name"], msg))

    @staticmethod
    def cname(n):
        return n + "_v" if n in RESERVED or n.startswith("src_") or re.fullmatch(r"t\d+_", n) else n

    def run(self):
        sig = self.sig
        stmts = Parser(tokenize(sig["body"])).block_body()
        env = {}
        binders = []
        if sig["generic"]:
            binders.append("{U : Type} (V : ack_view U)")
        for pn, ty, mut in sig["params"]:
            env[pn] = dict(coq=self.cname(pn), ty=ty, mut=mut or ty == "mutbytes")
            binders.append("(%s : %s)" % (self.cname(pn), coq_type(ty)))
        body = self.block(stmts, env, None)
        text = "\n\n".join(self.loops + [
            "(* control_handle.rs: %s *)\nDefinition %s %s: X %s :=\n%s." % (
                sig["name"], sig["coq"], " ".join(binders) + (" " if binders else ""), self.tr.ret_coq(sig), ind(body))])
        self.tr.defs.append((sig["name"], text))

    # ------------------------------------------------------------------------------------------ statements --
    def block(self, stmts, env, k):
        """term for the statements followed by the continuation k (None: the end of the function body)"""
        if not stmts:
            if k is None:
                raise self.err("a path falls off the end of the function")
            return k(env)
        st, rest = stmts[0], stmts[1:]

        def cont(env2):
            return self.block(rest, env2, k)
        kind = st[0]
        if kind == "let":
            _, name, mut, tyt, e = st
            chain = []
            want = self.local_type(tyt) if tyt is not None else None
            if e[0] == "str":
                v = V("tt", "str")
            elif e[0] == "path" and e[1] == ["None"]:
                v = V("None", ("option", [None]))
            else:
                v = self.pure(self.expr(e, env, chain, want), "let %s" % name)
            if v.lit:
                if want not in INTS:
                    raise self.err("the type of `let %s = <literal>` is not determined" % name)
                v = V(v.term, want)
            if want is not None and v.ty != want:
                raise self.err("let %s: declared %r, value of type %r" % (name, want, v.ty))
            env2 = dict(env)
            cn = self.cname(name)
            env2[name] = dict(coq=cn, ty=v.ty, mut=mut)
            if chain and chain[-1][0] == "do" and chain[-1][1] == v.term and re.fullmatch(r"t\d+_", v.term):
                chain[-1] = ("do", cn, chain[-1][2])
            else:
                chain.append(("let", cn, v.term))
            return render(chain, cont(env2))
        if kind == "assign":
            return self.assign(st, env, cont)
        if kind == "while":
            return self.while_(st, env, cont)
        if kind == "for":
            return self.for_(st, env, cont)
        if kind == "tail":
            if rest:
                raise self.err("statements after the tail expression")
            return self.result(st[1], env, k)
        if kind == "expr":
            e = st[1]
            if e[0] == "return":
                if rest:
                    raise self.err("statements after a return")
                return self.result(e[1], env, None)
            if e[0] in ("break", "continue"):
                if rest:
                    raise self.err("statements after %s" % e[0])
                if not self.loopctx:
                    raise self.err("%s outside a loop" % e[0])
                return self.loopctx[-1][e[0]](env)
            if e[0] == "if":
                return self.if_stmt(e, env, rest, k)
            if e[0] == "iflet" and e[4] is None and diverges(e[3][1]):
                return self.iflet(("iflet", e[1], e[2], e[3], ("block", rest)), env, k, else_is_rest=True)
            if e[0] in ("iflet", "match", "block"):
                raise self.err("`%s` in statement position" % e[0])
            chain = []
            v = self.expr(e, env, chain, None)
            if v.comp is not None:
                raise self.err("a Result that is neither propagated by `?` nor returned")
            return render(chain, cont(env))
        raise self.err("statement kind %r" % kind)

    def local_type(self, toks):
        s = "".join(toks)
        if s in INTS or s == "bool" or s in VIEWS:
            return s
        raise self.err("type annotation `%s`" % " ".join(toks))

    def result(self, e, env, k):
        """the value of the function (k None) or of the enclosing block"""
        while e[0] == "paren":
            e = e[1]
        sig = self.sig
        if e[0] == "if":
            if e[3] is None:
                raise self.err("`if` without else in tail position")
            chain = []
            c = self.cond(e[1], env, chain)
            a = self.block(e[2][1], dict(env), k)
            b = self.block(e[3][1], dict(env), k)
            return render(chain, "if %s then\n%s\nelse\n%s" % (c, ind(par(a)), ind(par(b))))
        if e[0] == "iflet":
            return self.iflet(e, env, k)
        if k is not None:
            raise self.err("a block with a value in statement position")
        if not sig["result"]:
            chain = []
            v = self.pure(self.expr(e, env, chain, sig["ret"]), "the result")
            if v.ty != sig["ret"]:
                raise self.err("result of type %r, declared %r" % (v.ty, sig["ret"]))
            return render(chain, "retX %s" % par(v.term))
        if e[0] == "ok":
            chain = []
            if sig["inouts"]:
                if e[1][0] != "unit":
                    raise self.err("Ok(value) in a function with a `&mut [u8]` parameter")
                return "retX %s" % par(tup([env[n]["coq"] for n in sig["inouts"]]))
            if e[1][0] == "unit":
                if sig["ret"] != "unit":
                    raise self.err("Ok(()) in a function returning %r" % (sig["ret"],))
                return "retX tt"
            v = self.pure(self.expr(e[1], env, chain, sig["ret"]), "Ok(..)")
            if v.ty != sig["ret"]:
                raise self.err("Ok(..) of type %r, declared %r" % (v.ty, sig["ret"]))
            return render(chain, "retX %s" % par(v.term))
        if e[0] == "err":
            return "failX %s" % self.error_class(e[1], env)
        chain = []
        v = self.expr(e, env, chain, None)
        if v.comp is None:
            raise self.err("the function ends in a value that is not a Result")
        if sig["inouts"]:
            raise self.err("a Result in tail position of a function with a `&mut [u8]` parameter")
        if v.ty != sig["ret"]:
            raise self.err("tail Result of %r, declared %r" % (v.ty, sig["ret"]))
        return render(chain, self.converted(v))

    def converted(self, v):
        """the X computation of a Result value, error class converted to ControlError"""
        if v.comp == "out":
            if v.err == "u3v":
                return "liftE ce_of_u3v %s" % par(v.term)
            raise self.err("conversion of a %s error of a pure computation" % v.err)
        if v.err == "ctl":
            return v.term
        return "xtry %s %s" % ({"u3v": "ce_of_u3v", "usb": "ce_of_usb"}[v.err], par(v.term))

    def error_class(self, e, env):
        if e[0] == "path" and e[1][:1] == ["ControlError"] and len(e[1]) == 2 and ERR_CLASS.get(e[1][1], (0, 1))[1] == 0:
            return ERR_CLASS[e[1][1]][0]
        if e[0] == "call" and e[1][:1] == ["ControlError"] and len(e[1]) == 2 and ERR_CLASS.get(e[1][1], (0, 0))[1] == 1:
            if len(e[2]) != 1:
                raise self.err("error constructor with %d arguments" % len(e[2]))
            self.opaque(e[2][0], env)
            return ERR_CLASS[e[1][1]][0]
        raise self.err("error value %r" % (e[:2],))

    def opaque(self, e, env):
        """the message of an error: no effect may hide in it"""
        for n in walk(e):
            if not n:
                continue
            if n[0] in ("try", "return", "break", "continue", "if", "iflet", "match", "block", "index"):
                raise self.err("`%s` inside an error message" % n[0])
            if n[0] == "mcall" and n[2] not in ("into", "status", "kind", "request_id", "scd_kind"):
                raise self.err("method .%s() inside an error message" % n[2])
            if n[0] == "call" and n[1] != ["anyhow", "Error", "msg"]:
                raise self.err("call of %s inside an error message" % "::".join(n[1]))
            if n[0] == "path" and len(n[1]) == 1 and n[1][0] not in env and n[1][0] != "self":
                raise self.err("unknown name %s inside an error message" % n[1][0])

    def cond(self, e, env, chain):
        v = self.pure(self.expr(e, env, chain, "bool"), "a condition")
        if v.ty != "bool":
            raise self.err("condition of type %r" % (v.ty,))
        return par(v.term)

    def mods_of(self, stmts, env):
        ms = [m for m in assigned(stmts) if m in env]
        for m in ms:
            if m in let_names(stmts):
                raise self.err("the name %s is both assigned and re-declared in a block" % m)
            if not env[m]["mut"]:
                raise self.err("assignment to the immutable %s" % m)
        return ms

    def if_stmt(self, e, env, rest, k):
        _, c, a, b = e
        a = a[1]
        b = b[1] if b is not None else None

        def cont(env2):
            return self.block(rest, env2, k)
        chain = []
        ct = self.cond(c, env, chain)
        if b is None:
            if diverges(a):
                return render(chain, "if %s then\n%s\nelse\n%s" % (ct, ind(par(self.block(a, dict(env), None))), cont(env)))
            if has_transfer(a):
                raise self.err("an `if` whose body leaves on some paths only")
            mods = self.mods_of(a, env)
            at = self.block(a, dict(env), lambda e2: "retX %s" % par(tup([e2[m]["coq"] for m in mods])))
            chain.append(("do", tup([env[m]["coq"] for m in mods]) if mods else "_",
                          "if %s then\n%s\nelse retX %s" % (ct, ind(par(at)), par(tup([env[m]["coq"] for m in mods])))))
            return render(chain, cont(env))
        da, db = diverges(a), diverges(b)
        if da and db:
            if rest:
                raise self.err("statements after an if / else that always leaves")
            return render(chain, "if %s then\n%s\nelse\n%s" % (ct, ind(par(self.block(a, dict(env), None))),
                                                                 ind(par(self.block(b, dict(env), None)))))
        if da and not has_transfer(b):
            return render(chain, "if %s then\n%s\nelse\n%s" % (ct, ind(par(self.block(a, dict(env), None))),
                                                                 ind(par(self.block(b, dict(env), cont)))))
        if db and not has_transfer(a):
            return render(chain, "if %s then\n%s\nelse\n%s" % (ct, ind(par(self.block(a, dict(env), cont))),
                                                                 ind(par(self.block(b, dict(env), None)))))
        if has_transfer(a) or has_transfer(b):
            raise self.err("an if / else whose branches leave on some paths only")
        mods = self.mods_of(a + b, env)

        def fin(e2):
            return "retX %s" % par(tup([e2[m]["coq"] for m in mods]))
        at, bt = self.block(a, dict(env), fin), self.block(b, dict(env), fin)
        chain.append(("do", tup([env[m]["coq"] for m in mods]) if mods else "_",
                      "if %s then\n%s\nelse\n%s" % (ct, ind(par(at)), ind(par(bt)))))
        return render(chain, cont(env))

    def iflet(self, e, env, k, else_is_rest=False):
        _, pat, s, a, b = e
        if b is None:
            raise self.err("if let without else")
        if not (pat[0] == "pctor" and pat[1] == ["Some"] and pat[2][0] == "ppath" and len(pat[2][1]) == 1):
            raise self.err("if let pattern %r" % (pat,))
        chain = []
        v = self.pure(self.expr(s, env, chain, None), "the scrutinee of if let")
        if not (isinstance(v.ty, tuple) and v.ty[0] == "option" and v.ty[1][0] is not None):
            raise self.err("if let Some(..) on a %r" % (v.ty,))
        name = pat[2][1][0]
        env2 = dict(env)
        env2[name] = dict(coq=self.cname(name), ty=v.ty[1][0], mut=False)
        at = self.block(a[1], env2, None if else_is_rest else k)
        bt = self.block(b[1], dict(env), k)
        return render(chain, "match %s with\n| Some %s =>\n%s\n| None =>\n%s\nend" % (
            v.term, self.cname(name), ind(par(at), 4), ind(par(bt), 4)))

    # ---- assignment
    def assign(self, st, env, cont):
        _, place, op, e = st
        chain = []
        sp = self.self_path(place)
        if sp is not None:
            fld, fty, getter, setter = self.handle_field(sp)
            if setter is None:
                raise self.err("assignment to self.%s" % ".".join(sp))
            if op is None:
                v = self.pure(self.expr(e, env, chain, fty), "the assigned value")
            else:
                cur = self.bind(chain, getter)
                v = self.arith(op, V(cur, fty), self.pure(self.expr(e, env, chain, fty), "operand"), chain)
            v = self.fix_lit(v, fty)
            if v.ty != fty:
                raise self.err("self.%s: %s is assigned a %r" % (".".join(sp), fty, v.ty))
            chain.append(("do", "_", "%s %s" % (setter, par(v.term))))
            return render(chain, cont(env))
        if not (place[0] == "path" and len(place[1]) == 1 and place[1][0] in env):
            raise self.err("assignment to something other than a local or a field of self")
        name = place[1][0]
        var = env[name]
        if not var["mut"]:
            raise self.err("assignment to the immutable %s" % name)
        if op is None:
            want = var["ty"] if not isinstance(var["ty"], tuple) else None
            v = self.pure(self.expr(e, env, chain, want), "the assigned value")
            if isinstance(var["ty"], tuple) and var["ty"][0] == "option":
                if not (isinstance(v.ty, tuple) and v.ty[0] == "option"):
                    raise self.err("%s: an Option is assigned a %r" % (name, v.ty))
                if var["ty"][1][0] is None:
                    var["ty"][1][0] = v.ty[1][0]
                elif v.ty[1][0] is not None and v.ty[1][0] != var["ty"][1][0]:
                    raise self.err("%s: Option<%s> is assigned Option<%s>" % (name, var["ty"][1][0], v.ty[1][0]))
                v = V(v.term, var["ty"])
            v = self.fix_lit(v, var["ty"])
        else:
            v = self.arith(op, V(var["coq"], var["ty"]), self.expr(e, env, chain, var["ty"]), chain)
        if v.ty != var["ty"]:
            raise self.err("%s: %r is assigned a %r" % (name, var["ty"], v.ty))
        env2 = dict(env)
        env2[name] = dict(var)
        if chain and chain[-1][0] == "do" and chain[-1][1] == v.term and re.fullmatch(r"t\d+_", v.term):
            chain[-1] = ("do", var["coq"], chain[-1][2])
        else:
            chain.append(("let", var["coq"], v.term))
        return render(chain, cont(env2))

    # ---- loops
    def loop_params(self, body_asts, env, mods, exclude=()):
        free = [n for n in names_used(body_asts) if n in env and n not in mods and n not in exclude]
        return free

    def binders(self, names, env):
        return " ".join("(%s : %s)" % (env[n]["coq"], coq_type(env[n]["ty"])) for n in names)

    def new_loop(self):
        self.nloop += 1
        return "%s_loop%d" % (self.sig["coq"], self.nloop)

    def generic_binders(self, used):
        return ("{U : Type} (V : ack_view U) ", "V ") if used else ("", "")

    def while_(self, st, env, cont):
        _, c, body = st
        if not (c[0] == "bin" and c[1] == ">" and c[2][0] == "path" and len(c[2][1]) == 1 and c[3] == ("lit", 0, None)):
            raise self.err("a `while` whose condition is not `<local> > 0`")
        vname = c[2][1][0]
        mods = self.mods_of(body, env)
        if vname not in mods or env[vname]["ty"] not in INTS:
            raise self.err("the loop does not count the unsigned local %s down" % vname)
        free = self.loop_params(body, env, mods)
        name = self.new_loop()
        saved, self.used_generic = self.used_generic, False

        def call(e2, fuel="fuel"):
            return "%s%s %s" % (name, "", " ".join([fuel] + [e2[n]["coq"] for n in free + mods]))

        def brk(e2):
            return "retX %s" % par(tup([e2[m]["coq"] for m in mods]))
        self.loopctx.append({"continue": call, "break": brk})
        lenv = {n: dict(v) for n, v in env.items()}
        bt = self.block(body, lenv, call)
        self.loopctx.pop()
        gb, ga = self.generic_binders(self.used_generic)
        if self.used_generic:
            raise self.err("the generic view is used inside a loop")
        self.used_generic = saved
        rty = tup_type([coq_type(lenv[m]["ty"]) for m in mods])
        self.loops.append(
            "(* control_handle.rs: %s, the loop `while %s > 0` *)\n"
            "Fixpoint %s (fuel : nat) %s {struct fuel} : X %s :=\n"
            "  if negb (%s >? 0) then retX %s else\n"
            "  match fuel with\n  | O => failX E_FUEL\n  | S fuel =>\n%s\n  end." % (
                self.sig["name"], vname, name, self.binders(free + mods, lenv), rty, env[vname]["coq"],
                par(tup([env[m]["coq"] for m in mods])), ind(bt, 4)))
        chain = [("do", tup([env[m]["coq"] for m in mods]), call(env, "(S (Z.to_nat %s))" % env[vname]["coq"]))]
        env2 = {n: dict(v) for n, v in env.items()}
        for m in mods:
            env2[m]["ty"] = lenv[m]["ty"]
        return render(chain, cont(env2))

    def for_(self, st, env, cont):
        _, pat, it, body = st
        chain = []
        v = self.expr(it, env, chain, None)
        if v.comp is not None:
            raise self.err("the iterator of a `for` is an unpropagated Result")
        if any(n and n[0] == "break" for n in walk(body)):
            raise self.err("break inside a `for`")
        pn = self.cname(pat)
        if v.ty == "chunks":
            srcname, is_mut = v.place
            mods = self.mods_of(body, env)
            if srcname in mods or (is_mut and srcname in names_used(body)):
                raise self.err("the chunked slice %s is used inside the loop" % srcname)
            free = self.loop_params(body, env, mods)
            name = self.new_loop()
            lenv = {n: dict(x) for n, x in env.items()}
            lenv[pat] = dict(coq=pn, ty="bytes", mut=is_mut)
            if pat in mods:
                raise self.err("loop variable %s shadows an assigned local" % pat)

            def call(e2):
                extra = [("(acc ++ %s)" % e2[pat]["coq"])] if is_mut else []
                return "%s items %s" % (name, " ".join([e2[n]["coq"] for n in free + mods] + extra)) if (free or mods or extra) \
                    else "%s items" % name
            self.loopctx.append({"continue": call, "break": None})
            saved, self.used_generic = self.used_generic, False
            bt = self.block(body, lenv, call)
            used, self.used_generic = self.used_generic, saved or self.used_generic
            self.loopctx.pop()
            if used:
                raise self.err("the generic view is used inside a loop")
            gb, ga = self.generic_binders(False)
            outs = [env[m]["coq"] for m in mods] + (["acc"] if is_mut else [])
            rty = tup_type([coq_type(lenv[m]["ty"]) for m in mods] + (["(list Z)"] if is_mut else []))
            self.loops.append(
                "(* control_handle.rs: %s, the loop `for %s in %s.%s(..)` *)\n"
                "Fixpoint %s %s(items : list (list Z)) %s%s {struct items} : X %s :=\n"
                "  match items with\n  | [] => retX %s\n  | %s :: items =>\n%s\n  end." % (
                    self.sig["name"], pat, srcname, "chunks_mut" if is_mut else "chunks", name, gb,
                    self.binders(free + mods, lenv), " (acc : list Z)" if is_mut else "", rty, par(tup(outs)), pn,
                    ind(bt.replace("%s items " % name, "%s %sitems " % (name, ga)), 4)))
            args = [env[n]["coq"] for n in free + mods] + (["[]"] if is_mut else [])
            env2 = {n: dict(x) for n, x in env.items()}
            pats = [env[m]["coq"] for m in mods] + ([env[srcname]["coq"]] if is_mut else [])
            chain.append(("do", tup(pats) if pats else "_", "%s %s%s %s" % (name, ga, v.term, " ".join(args))))
            return render(chain, cont(env2))
        if v.ty == "WriteMemChunks":
            mods = self.mods_of(body, env)
            free = self.loop_params(body, env, mods)
            name = self.new_loop()
            lenv = {n: dict(x) for n, x in env.items()}
            lenv[pat] = dict(coq=pn, ty="cmd::WriteMem", mut=False)

            def call(e2):
                return "%s fuel it %s" % (name, " ".join(e2[n]["coq"] for n in free + mods))
            self.loopctx.append({"continue": call, "break": None})
            saved, self.used_generic = self.used_generic, False
            bt = self.block(body, lenv, call)
            used, self.used_generic = self.used_generic, saved or self.used_generic
            self.loopctx.pop()
            if used:
                raise self.err("the generic view is used inside a loop")
            gb, ga = self.generic_binders(False)
            rty = tup_type([coq_type(lenv[m]["ty"]) for m in mods])
            t = self.tmp()
            self.loops.append(
                "(* control_handle.rs: %s, the loop `for %s in <WriteMemChunks>` *)\n"
                "Fixpoint %s %s(fuel : nat) (it : witer) %s {struct fuel} : X %s :=\n"
                "  match fuel with\n  | O => failX E_FUEL\n  | S fuel =>\n"
                "    doX %s <- liftP (witer_next it);\n    match %s with\n    | None => retX %s\n    | Some (%s, it) =>\n%s\n    end\n  end." % (
                    self.sig["name"], pat, name, gb, self.binders(free + mods, lenv), rty, t, t,
                    par(tup([env[m]["coq"] for m in mods])), pn,
                    ind(bt.replace("%s fuel it" % name, "%s %sfuel it" % (name, ga)), 6)))
            chain.append(("do", tup([env[m]["coq"] for m in mods]) if mods else "_",
                          "%s %s(witer_fuel %s) %s %s" % (name, ga, v.term, v.term,
                                                           " ".join(env[n]["coq"] for n in free + mods))))
            return render(chain, cont({n: dict(x) for n, x in env.items()}))
        raise self.err("a `for` over a %r" % (v.ty,))

    # ------------------------------------------------------------------------------------------ expressions --
    def bind(self, chain, term):
        t = self.tmp()
        chain.append(("do", t, term))
        return t

    def pure(self, v, what):
        if v.comp is not None:
            raise self.err("%s: a Result that is neither propagated by `?` nor returned" % what)
        return v

    def fix_lit(self, v, ty):
        if v.lit:
            if ty not in INTS:
                raise self.err("an integer literal where a %r is expected" % (ty,))
            if not 0 <= int(v.term) <= INT_MAX[ty]:
                raise self.err("literal %s does not fit %s" % (v.term, ty))
            return V(v.term, ty)
        return v

    def self_path(self, e):
        """['inner'] for self.inner, ['config', 'retry_count'] .. ; None when e is not a field chain of self"""
        out = []
        while e[0] == "field":
            out.append(e[2])
            e = e[1]
        if e[0] == "path" and e[1] == ["self"] and out:
            return out[::-1]
        return None

    def handle_field(self, sp):
        """-> (name, type, getter, setter)"""
        if sp == ["next_req_id"]:
            return "next_req_id", "u16", "h_next_req_id", "h_set_next_req_id"
        if len(sp) == 2 and sp[0] == "config" and sp[1] in CONFIG_FIELD_TYPES:
            return sp[1], CONFIG_FIELD_TYPES[sp[1]], "h_" + sp[1], "h_set_" + sp[1]
        if sp == ["abrm"]:
            return "abrm", ("option", ["Abrm"]), "h_abrm_cache", "h_set_abrm_cache"
        raise self.err("field self.%s" % ".".join(sp))

    def is_timeout(self, e):
        return self.self_path(e) == ["config", "timeout_duration"]

    def ints2(self, a, b, what):
        """unify the types of two integer operands"""
        if a.lit and b.lit:
            raise self.err("%s of two untyped literals" % what)
        if a.lit:
            a = self.fix_lit(a, b.ty)
        if b.lit:
            b = self.fix_lit(b, a.ty)
        if a.ty != b.ty or a.ty not in INTS:
            raise self.err("%s of a %r and a %r" % (what, a.ty, b.ty))
        return a, b

    def arith(self, op, a, b, chain):
        a, b = self.ints2(self.pure(a, "operand"), self.pure(b, "operand"), "`%s`" % op)
        w = INTS[a.ty]
        f = {"+": "r_add %d" % w, "-": "r_sub %d" % w, "*": "r_mul %d" % w, "/": "r_div", "%": "r_rem"}.get(op)
        if f is None:
            raise self.err("operator `%s`" % op)
        return V(self.bind(chain, "liftP (%s %s %s)" % (f, par(a.term), par(b.term))), a.ty)

    def expr(self, e, env, chain, want=None):
        k = e[0]
        if k == "paren":
            return self.expr(e[1], env, chain, want)
        if k == "lit":
            if e[2] is not None:
                return self.fix_lit(V(str(e[1]), None, lit=True), e[2])
            if want in INTS:
                return self.fix_lit(V(str(e[1]), None, lit=True), want)
            return V(str(e[1]), None, lit=True)
        if k == "unit":
            return V("tt", "unit")
        if k == "path":
            return self.path(e[1], env)
        if k == "field":
            return self.field(e, env, chain)
        if k in ("ref", "refmut"):
            inner = e[1]
            if inner[0] == "index" or (inner[0] == "path" and len(inner[1]) == 1 and inner[1][0] in env):
                return self.expr(inner, env, chain, want)
            raise self.err("a reference to something other than a local or a slice")
        if k == "index":
            return self.index(e, env, chain)
        if k == "as":
            v = self.pure(self.expr(e[1], env, chain, None), "operand of `as`")
            if v.lit:
                v = self.fix_lit(v, "u32") if int(v.term) < 2 ** 31 else v
            if v.ty not in INTS:
                raise self.err("`as` on a %r" % (v.ty,))
            return V("r_cast %d %s" % (INTS[e[2]], par(v.term)), e[2])
        if k == "not":
            v = self.pure(self.expr(e[1], env, chain, "bool"), "operand of `!`")
            if v.ty != "bool":
                raise self.err("`!` on a %r" % (v.ty,))
            return V("negb %s" % par(v.term), "bool")
        if k == "bin":
            return self.binop(e, env, chain, want)
        if k == "try":
            v = self.expr(e[1], env, chain, want)
            if v.comp is None:
                raise self.err("`?` / unwrap_or_log! on a value that is not a Result")
            return V(self.bind(chain, self.converted(v)), v.ty, place=v.place)
        if k == "call":
            return self.call(e, env, chain, want)
        if k == "mcall":
            return self.mcall(e, env, chain, want)
        if k == "match":
            return self.match(e, env, chain)
        if k in ("ok", "err", "return", "break", "continue"):
            raise self.err("`%s` in value position" % k)
        raise self.err("expression kind `%s`" % k)

    def path(self, p, env):
        if len(p) == 1:
            if p[0] in env:
                var = env[p[0]]
                return V(var["coq"], var["ty"] if var["ty"] != "mutbytes" else "bytes", place=("local", p[0]))
            if p[0] == "None":
                return V("None", ("option", [None]))
            raise self.err("unknown name %s" % p[0])
        if len(p) == 2 and p[0] in INTS and p[1] == "MAX":
            return V(str(INT_MAX[p[0]]), p[0])
        if p[:2] == ["ack", "ScdKind"] and len(p) == 3 and p[2] in ACK_KINDS:
            return V("AK_" + p[2], "AckKind")
        if p[:2] == ["cmd", "ScdKind"] and len(p) == 3 and p[2] in CMD_KINDS:
            return V("CK_" + p[2], "CmdKind")
        raise self.err("path %s" % "::".join(p))

    def field(self, e, env, chain):
        sp = self.self_path(e)
        if sp is not None:
            _, fty, getter, _ = self.handle_field(sp)
            return V(self.bind(chain, getter), fty)
        v = self.pure(self.expr(e[1], env, chain, None), "receiver of a field")
        if (v.ty, e[2]) in VIEW_FIELDS:
            acc, fty = VIEW_FIELDS[(v.ty, e[2])]
            return V("%s %s" % (acc, par(v.term)), fty)
        raise self.err("field .%s of a %r" % (e[2], v.ty))

    def index(self, e, env, chain):
        _, base, lo, hi = e
        lo_v = V("0", "usize") if lo is None else self.fix_lit(self.pure(self.expr(lo, env, chain, "usize"), "index"), "usize")
        if self.self_path(base) == ["buffer"]:
            if hi is None:
                hi_t = self.bind(chain, "buf_len")
            else:
                hv = self.fix_lit(self.pure(self.expr(hi, env, chain, "usize"), "index"), "usize")
                if hv.ty != "usize":
                    raise self.err("slice index of type %r" % (hv.ty,))
                hi_t = hv.term
            if lo_v.ty != "usize":
                raise self.err("slice index of type %r" % (lo_v.ty,))
            return V(self.bind(chain, "buf_slice %s %s" % (par(lo_v.term), par(hi_t))), "bytes")
        b = self.pure(self.expr(base, env, chain, None), "sliced value")
        if b.ty != "bytes":
            raise self.err("slice of a %r" % (b.ty,))
        if hi is None:
            hi_t = "(zlen %s)" % par(b.term)
        else:
            hv = self.fix_lit(self.pure(self.expr(hi, env, chain, "usize"), "index"), "usize")
            hi_t = hv.term
        return V(self.bind(chain, "liftP (src_slice %s %s %s)" % (par(b.term), par(lo_v.term), par(hi_t))), "bytes")

    def binop(self, e, env, chain, want):
        _, op, l, r = e
        if op in ("&&", "||"):
            a = self.pure(self.expr(l, env, chain, "bool"), "operand")
            sub = []
            b = self.pure(self.expr(r, env, sub, "bool"), "operand")
            if sub:
                raise self.err("an effect in the right operand of `%s`" % op)
            if a.ty != "bool" or b.ty != "bool":
                raise self.err("`%s` on non-booleans" % op)
            return V("%s %s %s" % (par(a.term), op, par(b.term)), "bool")
        if op in ("==", "!=", "<", ">", "<=", ">="):
            a = self.pure(self.expr(l, env, chain, None), "operand")
            b = self.pure(self.expr(r, env, chain, a.ty if not a.lit else None), "operand")
            if a.ty in ("AckKind", "StatusKind") and a.ty == b.ty and op in ("==", "!="):
                pass
            else:
                a, b = self.ints2(a, b, "comparison")
            c = {"==": "%s =? %s", "!=": "negb (%s =? %s)", "<": "%s <? %s", ">": "%s >? %s", "<=": "%s <=? %s",
                 ">=": "%s >=? %s"}[op] % (par(a.term), par(b.term))
            return V(c, "bool")
        if op in ("+", "-", "*", "/", "%"):
            a = self.expr(l, env, chain, want)
            b = self.expr(r, env, chain, a.ty if not a.lit else want)
            return self.arith(op, a, b, chain)
        raise self.err("operator `%s`" % op)

    def match(self, e, env, chain):
        _, s, arms = e
        v = self.pure(self.expr(s, env, chain, None), "the scrutinee of a match")
        if v.ty != "CmdKind":
            raise self.err("match on a %r" % (v.ty,))
        seen, out, ty = [], [], None
        for pats, body in arms:
            if len(pats) != 1 or pats[0][0] != "ppath":
                raise self.err("match arm pattern %r" % (pats,))
            pv = self.path(pats[0][1], env)
            if pv.ty != "CmdKind" or pv.term in seen:
                raise self.err("match arm pattern %s" % "::".join(pats[0][1]))
            seen.append(pv.term)
            sub = []
            bv = self.pure(self.expr(body, env, sub, None), "a match arm")
            if sub:
                raise self.err("an effect inside a match arm")
            if ty is not None and bv.ty != ty:
                raise self.err("match arms of types %r / %r" % (ty, bv.ty))
            ty = bv.ty
            out.append("| %s => %s" % (pv.term, bv.term))
        if sorted(seen) != sorted("CK_" + k for k in CMD_KINDS):
            raise self.err("the match on cmd::ScdKind is not exhaustive")
        return V("match %s with %s end" % (v.term, " ".join(out)), ty)

    # ---- calls
    def int_arg(self, a, env, chain, ty, what):
        v = self.fix_lit(self.pure(self.expr(a, env, chain, ty), what), ty)
        if v.ty != ty:
            raise self.err("%s: a %r where a %s is expected" % (what, v.ty, ty))
        return v

    def coerce_cmd(self, v):
        if v.ty == "Cmd":
            return v.term
        if v.ty == "cmd::ReadMem":
            return "cmd_of_rm %s" % par(v.term)
        if v.ty == "cmd::WriteMem":
            return "cmd_of_wm %s" % par(v.term)
        raise self.err("a %r where a command (T: CommandScd) is expected" % (v.ty,))

    def call_fn(self, name, args, env, chain, want):
        """call of a translated function of control_handle.rs"""
        sig = self.tr.need(name)
        if len(args) != len(sig["params"]):
            raise self.err("arity of %s" % name)
        terms = []
        for a, (pn, pty, _) in zip(args, sig["params"]):
            if pty == "mutbytes":
                raise self.err("call of %s, which has a `&mut [u8]` parameter" % name)
            if pty == "Cmd":
                terms.append(par(self.coerce_cmd(self.pure(self.expr(a, env, chain, None), "argument"))))
                continue
            v = self.fix_lit(self.pure(self.expr(a, env, chain, pty), "argument"), pty)
            if v.ty != pty:
                raise self.err("argument %s of %s: a %r where a %r is expected" % (pn, name, v.ty, pty))
            terms.append(par(v.term))
        head = sig["coq"]
        ret = sig["ret"]
        if sig["generic"]:
            if want in VIEWS:
                head += " " + VIEWS[want]
                ret = want
            elif want == "U" and self.sig["generic"]:
                head += " V"
                ret = "U"
                self.used_generic = True
            else:
                raise self.err("the acknowledge type U of %s(..) is not given by a `let` annotation" % name)
        term = " ".join([head] + terms)
        if sig["result"]:
            return V(term, ret, comp="X", err="ctl")
        return V(self.bind(chain, term), ret)

    def call(self, e, env, chain, want):
        _, p, args = e
        name = "::".join(p)
        if len(p) == 1 and p[0] in FUNCS and FUNCS[p[0]] == "free":
            return self.call_fn(p[0], args, env, chain, want)
        if name == "Some":
            if len(args) != 1:
                raise self.err("arity of Some")
            w = want[1][0] if isinstance(want, tuple) and want[0] == "option" else None
            v = self.pure(self.expr(args[0], env, chain, w), "argument of Some")
            if v.lit:
                raise self.err("Some(<untyped literal>)")
            return V("Some %s" % par(v.term), ("option", [v.ty]))
        m = re.fullmatch(r"(u8|u16|u32|u64|u128|usize)::from", name)
        if m:
            if len(args) != 1:
                raise self.err("arity of %s" % name)
            v = self.pure(self.expr(args[0], env, chain, None), "argument of %s" % name)
            if v.lit:
                v = self.fix_lit(v, m.group(1))
            if v.ty not in INTS or INTS[v.ty] > INTS[m.group(1)] or ("usize" in (v.ty, m.group(1)) and v.ty != m.group(1)
                                                                   and not (v.ty in ("u8", "u16") and m.group(1) == "usize")):
                raise self.err("%s of a %r" % (name, v.ty))
            return V(v.term, m.group(1))
        if name in ("std::cmp::max", "std::cmp::min"):
            if len(args) != 2:
                raise self.err("arity of %s" % name)
            a = self.pure(self.expr(args[0], env, chain, want), "argument")
            b = self.pure(self.expr(args[1], env, chain, a.ty if not a.lit else want), "argument")
            a, b = self.ints2(a, b, name)
            return V("Z.%s %s %s" % (p[2], par(a.term), par(b.term)), a.ty)
        if name == "std::thread::sleep":
            if len(args) != 1:
                raise self.err("arity of sleep")
            a = args[0]
            if not (a[0] == "field" and a[2] == "timeout" and a[1][0] == "path" and len(a[1][1]) == 1
                    and env.get(a[1][1][0], {}).get("ty") == "ack::Pending"):
                raise self.err("std::thread::sleep of something other than the time-out of the pending acknowledge")
            v = self.expr(a, env, chain, None)
            chain.append(("do", "_", "op_sleep %s" % par(v.term)))
            return V("tt", "unit")
        if name == "ack::StatusKind::GenCp":
            if len(args) == 1 and args[0] == ("path", ["ack", "GenCpStatus", "Success"]):
                return V("SK_GenCp_Success", "StatusKind")
            raise self.err("a status kind other than GenCp(Success)")
        if name == "ack::AckPacket::parse":
            if len(args) != 1:
                raise self.err("arity of AckPacket::parse")
            v = self.pure(self.expr(args[0], env, chain, None), "argument")
            if v.ty != "bytes":
                raise self.err("AckPacket::parse of a %r" % (v.ty,))
            return V("parse_ack %s" % par(v.term), "AckPacket", comp="out", err="u3v")
        if name == "cmd::ReadMem::new":
            if len(args) != 2:
                raise self.err("arity of ReadMem::new")
            a = self.int_arg(args[0], env, chain, "u64", "address")
            n = self.int_arg(args[1], env, chain, "u16", "read length")
            return V("rm_new %s %s" % (par(a.term), par(n.term)), "cmd::ReadMem")
        if name == "cmd::ReadMem::maximum_read_length":
            if len(args) != 1:
                raise self.err("arity of maximum_read_length")
            a = self.int_arg(args[0], env, chain, "usize", "maximum_ack_len")
            return V(self.bind(chain, "liftP (src_maximum_read_length %s)" % par(a.term)), "u16")
        if name == "cmd::WriteMem::new":
            if len(args) != 2:
                raise self.err("arity of WriteMem::new")
            a = self.int_arg(args[0], env, chain, "u64", "address")
            d = self.pure(self.expr(args[1], env, chain, None), "data")
            if d.ty != "bytes":
                raise self.err("WriteMem::new of a %r" % (d.ty,))
            return V("wm_new %s %s" % (par(a.term), par(d.term)), "cmd::WriteMem", comp="out", err="u3v")
        if name == "Abrm::new":
            if args != [("path", ["self"])]:
                raise self.err("Abrm::new of something other than self")
            self.tr.src.pin_rm("Abrm::new")
            self.tr.src.pin_rm("::read_register")
            rd = self.tr.need("read")["coq"]
            return V("rm_read_register %s (fst abrm_DEVICE_CAPABILITY) (snd abrm_DEVICE_CAPABILITY)" % rd, "Abrm",
                     comp="X", err="ctl")
        raise self.err("call of %s" % name)

    RM_METHODS = {      # (receiver type, method) -> (pins, register constant, result type)
        ("Abrm", "maximum_device_response_time"): (["Abrm::maximum_device_response_time", "Abrm::read_register",
                                                    "::read_register"], "abrm_MAXIMUM_DEVICE_RESPONSE_TIME", "Duration"),
        ("Sbrm", "maximum_command_transfer_length"): (["Sbrm::maximum_command_transfer_length", "Sbrm::read_register",
                                                       "::read_register", "::register_address"],
                                                      "sbrm_MAXIMUM_COMMAND_TRANSFER_LENGTH", "u32"),
        ("Sbrm", "maximum_acknowledge_trasfer_length"): (["Sbrm::maximum_acknowledge_trasfer_length", "Sbrm::read_register",
                                                          "::read_register", "::register_address"],
                                                         "sbrm_MAXIMUM_ACKNOWLEDGE_TRANSFER_LENGTH", "u32"),
    }

    def mcall(self, e, env, chain, want):
        _, recv, name, args = e
        if recv == ("path", ["self"]):
            if name in FUNCS and FUNCS[name] != "free":
                return self.call_fn(name, args, env, chain, want)
            raise self.err("method self.%s(..) is not translated" % name)
        sp = self.self_path(recv)
        if sp == ["inner"]:
            return self.channel(name, args, env, chain)
        if sp == ["buffer"]:
            if name == "len" and not args:
                return V(self.bind(chain, "buf_len"), "usize")
            if name == "resize" and len(args) == 2:
                n = self.int_arg(args[0], env, chain, "usize", "new length")
                b = self.int_arg(args[1], env, chain, "u8", "fill byte")
                chain.append(("do", "_", "buf_resize %s %s" % (par(n.term), par(b.term))))
                return V("tt", "unit")
            raise self.err("self.buffer.%s(..)" % name)
        # <expr>.try_into().unwrap()
        if name == "unwrap" and not args and recv[0] == "mcall" and recv[2] == "try_into" and not recv[3]:
            v = self.pure(self.expr(recv[1], env, chain, None), "operand of try_into")
            if v.ty not in INTS or want not in INTS:
                raise self.err("try_into().unwrap() from %r to %r" % (v.ty, want))
            return V(self.bind(chain, "liftP (r_unwrap (r_try_into %d %s 0))" % (INTS[want], par(v.term))), want)
        if name == "unwrap" and not args:
            v = self.expr(recv, env, chain, want)
            if v.comp != "out":
                raise self.err("unwrap() of something other than the Result of a protocol function")
            return V(self.bind(chain, "liftP (r_unwrap %s)" % par(v.term)), v.ty)
        if name == "serialize":
            if not (len(args) == 1 and args[0] == ("mcall", ("field", ("path", ["self"]), "buffer"), "as_mut_slice", [])):
                raise self.err("serialize into something other than self.buffer.as_mut_slice()")
            v = self.pure(self.expr(recv, env, chain, None), "receiver of serialize")
            if v.ty != "Packet":
                raise self.err("serialize of a %r" % (v.ty,))
            return V("buf_serialize %s" % par(v.term), "unit", comp="X", err="u3v")
        v = self.pure(self.expr(recv, env, chain, None), "receiver of .%s()" % name)
        ty = v.ty
        if ty in INTS:
            if name in ("wrapping_add", "wrapping_sub") and len(args) == 1:
                b = self.int_arg(args[0], env, chain, ty, "operand of %s" % name)
                return V("r_%s %d %s %s" % (name, INTS[ty], par(v.term), par(b.term)), ty)
            if name == "into" and not args and want in INTS and INTS[want] >= INTS[ty]:
                return V(v.term, want)
            raise self.err("method .%s(..) of a %s" % (name, ty))
        if ty == "bytes":
            if name == "len" and not args:
                return V("zlen %s" % par(v.term), "usize")
            if name in ("chunks", "chunks_mut") and len(args) == 1:
                if not (v.place and v.place[0] == "local"):
                    raise self.err(".%s(..) of something other than a local" % name)
                if name == "chunks_mut" and not env[v.place[1]]["mut"]:
                    raise self.err("chunks_mut of the immutable %s" % v.place[1])
                n = self.int_arg(args[0], env, chain, "usize", "chunk size")
                return V(self.bind(chain, "liftP (r_chunks %s %s)" % (par(n.term), par(v.term))), "chunks",
                         place=(v.place[1], name == "chunks_mut"))
            if name == "copy_from_slice" and len(args) == 1:
                if not (v.place and v.place[0] == "local" and env[v.place[1]]["mut"]):
                    raise self.err("copy_from_slice into something other than a mutable local slice")
                s = self.pure(self.expr(args[0], env, chain, None), "source of copy_from_slice")
                if s.ty != "bytes":
                    raise self.err("copy_from_slice of a %r" % (s.ty,))
                chain.append(("do", env[v.place[1]]["coq"], "liftP (r_copy_from_slice %s %s)" % (par(v.term), par(s.term))))
                return V("tt", "unit")
            raise self.err("method .%s(..) of a slice" % name)
        if ty == "Cmd" and name == "finalize" and len(args) == 1:
            r = self.int_arg(args[0], env, chain, "u16", "request id")
            return V("cmd_finalize %s %s" % (par(v.term), par(r.term)), "Packet")
        if ty == "Packet" and not args:
            if name == "ccd":
                return V(v.term, "Ccd")
            if name == "cmd_len":
                return V("pk_cmd_len %s" % par(v.term), "usize")
            if name == "maximum_ack_len":
                return V("pk_maximum_ack_len %s" % par(v.term), "usize")
        if ty == "Ccd" and name == "scd_kind" and not args:
            return V("pk_scd_kind %s" % par(v.term), "CmdKind")
        if ty == "AckPacket":
            if name == "status" and not args:
                return V(v.term, "Status")
            if name == "request_id" and not args:
                return V("ack_request_id %s" % par(v.term), "u16")
            if name == "scd_kind" and not args:
                return V("ack_scd_kind %s" % par(v.term), "AckKind")
            if name == "scd_as" and not args:
                if want in VIEWS:
                    return V("view_parse %s %s" % (VIEWS[want], par(v.term)), want, comp="out", err="u3v")
                if want == "U" and self.sig["generic"]:
                    self.used_generic = True
                    return V("view_parse V %s" % par(v.term), "U", comp="out", err="u3v")
                raise self.err("the target type of scd_as() is not given by a `let` annotation or the return type")
        if ty == "Status" and name == "kind" and not args:
            return V("ack_status_kind %s" % par(v.term), "StatusKind")
        if ty == "cmd::ReadMem" and name == "chunks" and len(args) == 1:
            n = self.int_arg(args[0], env, chain, "usize", "ack_len")
            return V("rm_chunks %s %s" % (par(v.term), par(n.term)), "ReadMemChunks", comp="out", err="u3v")
        if ty == "cmd::WriteMem":
            if name == "chunks" and len(args) == 1:
                n = self.int_arg(args[0], env, chain, "usize", "cmd_len")
                return V("wm_chunks %s %s" % (par(v.term), par(n.term)), "WriteMemChunks", comp="out", err="u3v")
            if name == "data_len" and not args:
                return V("wmem_data_len %s" % par(v.term), "usize")
        if ty == "Abrm" and name == "sbrm" and args == [("path", ["self"])]:
            for key in ("Abrm::sbrm", "Abrm::sbrm_address", "Abrm::read_register", "::read_register", "Sbrm::new",
                        "::register_address"):
                self.tr.src.pin_rm(key)
            return V("rm_Abrm_sbrm %s %s" % (self.tr.need("read")["coq"], par(v.term)), "Sbrm", comp="X", err="ctl")
        if (ty, name) in self.RM_METHODS and args == [("path", ["self"])]:
            pins, reg, rty = self.RM_METHODS[(ty, name)]
            for key in pins:
                self.tr.src.pin_rm(key)
            rd = self.tr.need("read")["coq"]
            if ty == "Abrm":
                return V("rm_read_register %s (fst %s) (snd %s)" % (rd, reg, reg), rty, comp="X", err="ctl")
            return V("rm_Sbrm_read_register %s %s %s" % (rd, par(v.term), reg), rty, comp="X", err="ctl")
        raise self.err("method .%s(..) of a %r" % (name, ty))

    def channel(self, name, args, env, chain):
        def timeout(a):
            if not self.is_timeout(a):
                raise self.err("a time-out argument that is not self.config.timeout_duration")
            return self.bind(chain, "h_timeout_duration")
        if name == "is_opened" and not args:
            return V(self.bind(chain, "ch_is_opened"), "bool")
        if name == "open" and not args:
            return V("ch_open", "unit", comp="X", err="usb")
        if name == "close" and not args:
            return V("ch_close", "unit", comp="X", err="usb")
        if name == "clear_halt" and not args:
            return V("ch_clear_halt", "unit", comp="X", err="usb")
        if name == "set_halt" and len(args) == 1:
            return V("ch_set_halt %s" % timeout(args[0]), "unit", comp="X", err="usb")
        if name == "send" and len(args) == 2:
            b = self.pure(self.expr(args[0], env, chain, None), "the bytes to send")
            if b.ty != "bytes":
                raise self.err("send of a %r" % (b.ty,))
            return V("ch_send %s %s" % (par(b.term), timeout(args[1])), "usize", comp="X", err="usb")
        if name == "recv" and len(args) == 2:
            if args[0] != ("refmut", ("field", ("path", ["self"]), "buffer")):
                raise self.err("recv into something other than &mut self.buffer")
            return V("ch_recv %s" % timeout(args[1]), "usize", comp="X", err="usb")
        raise self.err("self.inner.%s(..)" % name)


# ------------------------------------------------------------------------------------------------- output --
HEADER = """(* GENERATED by tools/translate_control.py from cameleon/src/u3v/control_handle.rs (fn verify_range,
   ControlHandle::{assert_open, verify_ack, send_cmd, abrm, initialize_config} and <ControlHandle as DeviceControl>::
   {is_opened, open, close, read, write}) - do not edit.  The operations are those of model/CtlOps.v (state monad X over
   the handle, the scripted device and the ghost contents of `self.buffer`); integer arithmetic has the debug-build
   semantics of lib/RustInt.v; `while` and `for` loops are Fixpoints (over a fuel argument / the list of chunks); the
   chunk iterators are those of gen/ReadChunks.v; registers are those of gen/RegTables.v. *)
From Cam Require Import Outcome RustInt Bytes Chunks Cmd Ack Control CurOps ReadChunks RegTables CtlOps.
"""


def generate(repo):
    tr = Translator(repo)
    for name in ORDER:
        tr.need(name)
    text = HEADER + "\n" + "\n\n".join(text for _, text in tr.defs) + "\n"
    return "\n".join(re.sub(r"  +\{struct", " {struct", l).rstrip() for l in text.split("\n"))


def regenerate(repo=None, out=None):
    repo = repo or os.environ.get("VERIF_REPO", "/repo")
    text = generate(repo)
    path = out or OUT
    if os.path.exists(path) and open(path).read() == text:
        return False
    with open(path, "w") as f:
        f.write(text)
    return True


def main():
    repo = sys.argv[1] if len(sys.argv) > 1 else None
    out = sys.argv[2] if len(sys.argv) > 2 else None
    try:
        print("gen/ControlSrc.v", "rewritten" if regenerate(repo, out) else "unchanged")
    except (ShapeError, OSError) as e:
        print("translate_control: %s" % e)
        sys.exit(3)


if __name__ == "__main__":
    main()
