"""Node models for the C17 check: random GenApi node descriptions of every element kind, rendered three ways
from one Python object:
  * GenApi XML text (for the real parser, rust/h_parse),
  * a Gallina term of type GenApiParse.snode (the model parses `render` of it),
  * the expected dump, computed here directly from the description with the schema defaults typed in below
    (the property's predicate: every declared name / property / default / reference is retrievable with the
    declared value).  Nothing here looks at the Coq model or at the Rust code.
Dump layout: see rust/h_parse/src/main.rs."""
import struct

# ---------------------------------------------------------------------------------------------- literals --
I64_MIN, I64_MAX, U64_MAX = -(1 << 63), (1 << 63) - 1, (1 << 64) - 1


class IL:
    """integer literal: decimal, or 0x / 0X hexadecimal with lower / upper case digits"""

    def __init__(self, val, form="d", px_up=False, dg_up=False):
        self.val, self.form, self.px_up, self.dg_up = val, form, px_up, dg_up

    def text(self):
        if self.form == "d":
            return str(self.val)
        h = "%x" % self.val
        return ("0X" if self.px_up else "0x") + (h.upper() if self.dg_up else h)

    def coq(self):
        f = "FmDec" if self.form == "d" else "(FmHex %s %s)" % (cb(self.px_up), cb(self.dg_up))
        return "(IL %s %s)" % (f, cz(self.val))


class HL:
    """bare hexadecimal literal (EventID, ChunkID)"""

    def __init__(self, val, up=False):
        self.val, self.up = val, up

    def text(self):
        h = "%x" % self.val
        return h.upper() if self.up else h

    def coq(self):
        return "(HL %s %s)" % (cb(self.up), cz(self.val))


class BLit:
    def __init__(self, val, yesno=True):
        self.val, self.yesno = val, yesno

    def text(self):
        return ("Yes" if self.val else "No") if self.yesno else ("true" if self.val else "false")

    def coq(self):
        return "(BL %s %s)" % (cb(self.yesno), cb(self.val))


class FL:
    """float literal: 'inf', 'ninf' or the text handed to the float parser ('NaN' included)"""

    def __init__(self, kind, text=None):
        self.kind, self.t = kind, text

    def text(self):
        return {"inf": "INF", "ninf": "-INF"}.get(self.kind, self.t)

    def coq(self):
        return {"inf": "FvInf", "ninf": "FvNegInf"}.get(self.kind) or "(FvText %s)" % cs(self.t)

    def bits(self):
        if self.kind == "inf":
            return 0x7FF0000000000000
        if self.kind == "ninf":
            return 0xFFF0000000000000
        return fbits(float(self.t))


class Imm:
    def __init__(self, v):
        self.v = v


class PN:
    """reference to the node named n.  lit: what the pinned code reads instead when the name is spelled like a literal of
    the site (KNOWN finding, see code_reads): a literal object, or 'panic'"""

    def __init__(self, n, lit=None):
        self.n, self.lit = n, lit


# node names a sloppy "is it a number / a boolean?" test would misread; all are legal names (start with a letter) and none is
# a literal of the schema at any site except Yes / No / true / false at Boolean sites (see code_reads)
POOL = ["inf", "Inf", "INFINITY", "Infinity", "infinity", "nan", "NAN", "Nan", "NaNx", "INFx", "e5", "E10", "x0", "xFF", "OxFF",
        "True", "False", "Yes", "No", "true", "false", "On", "Off"]
UNDERSCORE = ["_x", "_1", "__Gain"]
CODE_VIEW = False      # expectation functions use PN.lit (the known misreading) instead of the reference when set


def code_reads(name, site):
    """KNOWN finding: the literal the code reads for a reference at an ImmOrPNode site of type site ('i' i64, 'f' f64,
    'b' bool) when the node's legal name is spelled like a literal there; 'panic' for a name starting with an underscore
    (read as a numeral); None when the reference is read as a reference"""
    if site == "f" and name == "INF":
        return FL("inf")
    if site == "f" and name == "NaN":
        return FL("text", "NaN")
    if site == "b" and name in ("Yes", "true"):
        return BLit(True)
    if site == "b" and name in ("No", "false"):
        return BLit(False)
    if site in ("i", "f") and name.startswith("_"):
        return "panic"
    return None


def fbits(x):
    if x != x:
        return 0x7FF8000000000000
    return struct.unpack("<Q", struct.pack("<d", x))[0]


# ------------------------------------------------------------------------------------------- Gallina text --
def cb(b):
    return "true" if b else "false"


def cz(z):
    return "(%d)" % z if z < 0 else "%d" % z


def cs(s):
    return "(@nil Z)" if not s else "[" + ";".join(str(ord(c)) for c in s) + "]"


def co(f, o):
    return "None" if o is None else "(Some %s)" % f(o)


def cl(f, l):
    return "[]" if not l else "[" + "; ".join(f(x) for x in l) + "]"


def cimm(f, x):
    return "(Imm %s)" % f(x.v) if isinstance(x, Imm) else "(PNode %s)" % cs(x.n)


def clit(x):
    return x.coq()


def cname(table, x):
    return table[x]


# ---------------------------------------------------------------------------------------------- XML text --
def esc(s):
    return s.replace("&", "&amp;").replace("<", "&lt;").replace(">", "&gt;")


def esc_attr(s):
    return esc(s).replace('"', "&quot;")


def el(tag, text, attrs=()):
    a = "".join(' %s="%s"' % (k, esc_attr(v)) for k, v in attrs)
    return "<%s%s>%s</%s>" % (tag, a, esc(text), tag)


def xo(tag, f, o):
    return "" if o is None else el(tag, f(o))


def xl(tag, f, l):
    return "".join(el(tag, f(x)) for x in l)


def ximm(tag_i, tag_p, f, x):
    return el(tag_i, f(x.v)) if isinstance(x, Imm) else el(tag_p, x.n)


def xoimm(tag_i, tag_p, f, o):
    return "" if o is None else ximm(tag_i, tag_p, f, o)


def ident(x):
    return x


def txt(x):
    return x.text()


# ----------------------------------------------------------------------------------------- expected dump --
def es(s):
    return [len(s)] + [ord(c) for c in s]


def eo(f, o):
    return [0] if o is None else [1] + f(o)


def ev(f, l):
    out = [len(l)]
    for x in l:
        out += f(x)
    return out


def ez(z):
    return [z]


def eb(b):
    return [1 if b else 0]


def eimm(f, x):
    if isinstance(x, PN) and CODE_VIEW and x.lit is not None:
        return [0] + f(x.lit)
    return [0] + f(x.v) if isinstance(x, Imm) else [1] + es(x.n)


def eil(x):
    return [x.val]


def efl(x):
    return [x.bits()]


# enumerations: text -> ordinal (order of the harness); the schema default is named next to each use
VIS = ["Beginner", "Expert", "Guru", "Invisible"]
ACC = ["RO", "WO", "RW"]
CACHE = ["WriteThrough", "WriteAround", "NoCache"]
IREP = ["Linear", "Logarithmic", "Boolean", "PureNumber", "HexNumber", "IPV4Address", "MACAddress"]
FREP = ["Linear", "Logarithmic", "PureNumber"]
DNOT = ["Automatic", "Fixed", "Scientific"]
NS = ["Standard", "Custom"]
MP = ["1", "0", "-1"]
SIGN = ["Signed", "Unsigned"]
ENDIAN = ["LittleEndian", "BigEndian"]
STDNS = ["None", "IIDC", "GEV", "CL", "USB"]
C_VIS = dict(zip(VIS, ["VBeginner", "VExpert", "VGuru", "VInvisible"]))
C_ACC = dict(zip(ACC, ["AmRO", "AmWO", "AmRW"]))
C_CACHE = dict(zip(CACHE, ["CmWriteThrough", "CmWriteAround", "CmNoCache"]))
C_IREP = dict(zip(IREP, ["IrLinear", "IrLogarithmic", "IrBoolean", "IrPureNumber", "IrHexNumber", "IrIpV4Address",
                         "IrMacAddress"]))
C_FREP = dict(zip(FREP, ["FrLinear", "FrLogarithmic", "FrPureNumber"]))
C_DNOT = dict(zip(DNOT, ["DnAutomatic", "DnFixed", "DnScientific"]))
SLOPE = ["Increasing", "Decreasing", "Varying", "Automatic"]
C_SLOPE = dict(zip(SLOPE, ["SlIncreasing", "SlDecreasing", "SlVarying", "SlAutomatic"]))
C_NS = dict(zip(NS, ["NsStandard", "NsCustom"]))
C_MP = dict(zip(MP, ["MpHigh", "MpMid", "MpLow"]))
C_SIGN = dict(zip(SIGN, ["SgSigned", "SgUnsigned"]))
C_ENDIAN = dict(zip(ENDIAN, ["EnLE", "EnBE"]))


def dv(o, d):
    return d if o is None else o


def bv(o):
    """optional boolean element, schema default No"""
    return False if o is None else o.val


# ------------------------------------------------------------------------------------------------- parts --
class Attr:
    def __init__(self, name, ns=None, mp=None, es_=None):
        self.name, self.ns, self.mp, self.es = name, ns, mp, es_

    def xml(self):
        a = [("Name", self.name)]
        if self.ns is not None:
            a.append(("NameSpace", self.ns))
        if self.mp is not None:
            a.append(("MergePriority", self.mp))
        if self.es is not None:
            a.append(("ExposeStatic", self.es.text()))
        return a

    def coq(self):
        return "(mkAttr Src %s %s %s %s)" % (cs(self.name), co(lambda x: C_NS[x], self.ns),
                                             co(lambda x: C_MP[x], self.mp), co(clit, self.es))

    def exp(self):
        return [NS.index(dv(self.ns, "Custom")), MP.index(dv(self.mp, "0"))] + eo(lambda x: eb(x.val), self.es)


class Eb:
    """NodeElementBase.  ext: None or raw (xml text, Gallina children list) of an Extension element."""
    FIELDS = ["ext", "tooltip", "description", "display_name", "vis", "docu_url", "deprecated", "event", "impl",
              "avail", "locked", "block", "imposed", "errors", "alias", "cast", "invs"]

    def __init__(self, **kw):
        for f in self.FIELDS:
            setattr(self, f, kw.get(f, [] if f in ("errors", "invs") else None))

    def xml(self):
        s = ""
        if self.ext is not None:
            s += "<Extension>%s</Extension>" % self.ext[0]
        s += xo("ToolTip", ident, self.tooltip) + xo("Description", ident, self.description)
        s += xo("DisplayName", ident, self.display_name) + xo("Visibility", ident, self.vis)
        s += xo("DocuURL", ident, self.docu_url) + xo("IsDeprecated", txt, self.deprecated)
        s += xo("EventID", txt, self.event) + xo("pIsImplemented", ident, self.impl)
        s += xo("pIsAvailable", ident, self.avail) + xo("pIsLocked", ident, self.locked)
        s += xo("pBlockPolling", ident, self.block) + xo("ImposedAccessMode", ident, self.imposed)
        s += xl("pError", ident, self.errors) + xo("pAlias", ident, self.alias) + xo("pCastAlias", ident, self.cast)
        s += xl("pInvalidator", ident, self.invs)
        return s

    def coq(self):
        return "(mkEb Src %s %s %s %s %s %s %s %s %s %s %s %s %s %s %s %s %s)" % (
            co(lambda e: e[1], self.ext), co(cs, self.tooltip), co(cs, self.description), co(cs, self.display_name),
            co(lambda x: C_VIS[x], self.vis), co(cs, self.docu_url), co(clit, self.deprecated), co(clit, self.event),
            co(cs, self.impl), co(cs, self.avail), co(cs, self.locked), co(cs, self.block),
            co(lambda x: C_ACC[x], self.imposed), cl(cs, self.errors), co(cs, self.alias), co(cs, self.cast),
            cl(cs, self.invs))

    def exp(self):
        return (eo(es, self.tooltip) + eo(es, self.description) + eo(es, self.display_name)
                + [VIS.index(dv(self.vis, "Beginner"))] + eo(es, self.docu_url) + eb(bv(self.deprecated))
                + eo(lambda x: [x.val], self.event) + eo(es, self.impl) + eo(es, self.avail) + eo(es, self.locked)
                + eo(es, self.block) + [ACC.index(dv(self.imposed, "RW"))] + ev(es, self.errors) + eo(es, self.alias)
                + eo(es, self.cast))


def head(kind, attr, ebase):
    """chunk prefix: kind, name, retrievable-by-name flag, attribute base, element base"""
    return [kind] + es(attr.name) + [1] + attr.exp() + ebase.exp()


class Vk:
    """ValueKind: ('value', lit) | ('pvalue', before, pv, after) | ('pindex', pi, [(IL index, imm)], imm default)"""

    def __init__(self, *a):
        self.a = a

    def xml(self):
        a = self.a
        if a[0] == "value":
            return el("Value", a[1].text())
        if a[0] == "pvalue":
            return xl("pValueCopy", ident, a[1]) + el("pValue", a[2]) + xl("pValueCopy", ident, a[3])
        s = el("pIndex", a[1])
        for ix, v in a[2]:
            if isinstance(v, Imm):
                s += el("ValueIndexed", v.v.text(), [("Index", ix.text())])
            else:
                s += el("pValueIndexed", v.n, [("Index", ix.text())])
        return s + ximm("ValueDefault", "pValueDefault", txt, a[3])

    def coq(self):
        a = self.a
        if a[0] == "value":
            return "(SvValue %s)" % a[1].coq()
        if a[0] == "pvalue":
            return "(SvPValue %s %s %s)" % (cl(cs, a[1]), cs(a[2]), cl(cs, a[3]))
        return "(SvPIndex %s %s %s)" % (cs(a[1]), cl(lambda p: "(%s, %s)" % (p[0].coq(), cimm(clit, p[1])), a[2]),
                                        cimm(clit, a[3]))

    def exp(self, f):
        a = self.a
        if a[0] == "value":
            return [0] + f(a[1])
        if a[0] == "pvalue":
            return [1] + es(a[2]) + ev(es, a[1] + a[3])
        return [2] + es(a[1]) + ev(lambda p: [p[0].val] + eimm(f, p[1]), a[2]) + eimm(f, a[3])


class Bitmask:
    def __init__(self, bit=None, lsb=None, msb=None):
        self.bit, self.lsb, self.msb = bit, lsb, msb

    def xml(self):
        return el("Bit", self.bit.text()) if self.bit is not None else el("LSB", self.lsb.text()) + el("MSB", self.msb.text())

    def coq(self):
        return "(BmBit %s)" % self.bit.coq() if self.bit is not None else "(BmRange %s %s)" % (self.lsb.coq(), self.msb.coq())

    def exp(self):
        return [0, self.bit.val] if self.bit is not None else [1, self.lsb.val, self.msb.val]


# ------------------------------------------------------------------------------------------------- nodes --
class Node:
    """common shape: .xml() element text, .coq() snode term, .chunks(ctx) expected chunks (ctx carries the
    fresh-id counter of enum entries), .invs() expected invalidator registrations in call order, .names()"""
    TAG = None

    def wrap(self, attr, body):
        return "<%s%s>%s</%s>" % (self.TAG, xattrs(attr.xml()), body, self.TAG)

    def invs(self):
        return []

    def formulas(self):
        return []


class ISwiss(Node):
    KIND = 17

    def __init__(self, attr, ebase, streamable, pvars, consts, exprs, formula, unit, repr_):
        self.attr, self.eb, self.streamable, self.vars, self.consts, self.exprs = attr, ebase, streamable, pvars, consts, exprs
        self.formula, self.unit, self.repr = formula, unit, repr_

    def body(self):
        s = self.eb.xml() + xo("Streamable", txt, self.streamable)
        s += "".join(el("pVariable", n, [("Name", k)]) for k, n in self.vars)
        s += "".join(el("Constant", c.text(), [("Name", k)]) for k, c in self.consts)
        s += "".join(el("Expression", e, [("Name", k)]) for k, e in self.exprs)
        return s + el("Formula", self.formula) + xo("Unit", ident, self.unit) + xo("Representation", ident, self.repr)

    def xml(self):
        return "<IntSwissKnife%s>%s</IntSwissKnife>" % (xattrs(self.attr.xml()), self.body())

    def rec(self):
        return "(mkIswiss Src %s %s %s %s %s %s %s %s %s)" % (
            self.attr.coq(), self.eb.coq(), co(clit, self.streamable),
            cl(lambda p: "(%s, %s)" % (cs(p[0]), cs(p[1])), self.vars),
            cl(lambda p: "(%s, %s)" % (cs(p[0]), p[1].coq()), self.consts),
            cl(lambda p: "(%s, %s)" % (cs(p[0]), cs(p[1])), self.exprs), cs(self.formula), co(cs, self.unit),
            co(lambda x: C_IREP[x], self.repr))

    def coq(self):
        return "(SnIntSwissKnife %s)" % self.rec()

    def chunks(self, ctx):
        c = head(17, self.attr, self.eb) + eb(bv(self.streamable))
        c += ev(lambda p: es(p[0]) + es(p[1]), self.vars) + ev(lambda p: es(p[0]) + [p[1].val], self.consts)
        c += ev(lambda p: es(p[0]), self.exprs) + eo(es, self.unit) + [IREP.index(dv(self.repr, "PureNumber"))]
        return [c]

    def names(self):
        return [self.attr.name]

    def formulas(self):
        return [(self.attr.name, [e for _, e in self.exprs], [self.formula])]


def xattrs(a):
    return "".join(' %s="%s"' % (k, esc_attr(v)) for k, v in a)


class Addr:
    """('addr', imm IL) | ('swiss', ISwiss) | ('pindex', None | imm IL, name)"""

    def __init__(self, *a):
        self.a = a

    def xml(self):
        a = self.a
        if a[0] == "addr":
            return ximm("Address", "pAddress", txt, a[1])
        if a[0] == "swiss":
            return a[1].xml()
        if a[1] is None:
            return el("pIndex", a[2])
        if isinstance(a[1], Imm):
            return el("pIndex", a[2], [("Offset", a[1].v.text())])
        return el("pIndex", a[2], [("pOffset", a[1].n)])

    def coq(self):
        a = self.a
        if a[0] == "addr":
            return "(SaAddr %s)" % cimm(clit, a[1])
        if a[0] == "swiss":
            return "(SaSwiss %s)" % a[1].rec()
        return "(SaPIndex %s %s)" % (co(lambda x: cimm(clit, x), a[1]), cs(a[2]))

    def exp(self):
        a = self.a
        if a[0] == "addr":
            return [0] + eimm(eil, a[1])
        if a[0] == "swiss":
            return [1] + es(a[1].attr.name)
        return [2] + eo(lambda x: eimm(eil, x), a[1]) + es(a[2])


class Rb:
    def __init__(self, ebase, streamable, addrs, length, access, port, cache, polling, invs):
        self.eb, self.streamable, self.addrs, self.length, self.access = ebase, streamable, addrs, length, access
        self.port, self.cache, self.polling, self.invs = port, cache, polling, invs

    def xml(self):
        return (self.eb.xml() + xo("Streamable", txt, self.streamable) + "".join(a.xml() for a in self.addrs)
                + ximm("Length", "pLength", txt, self.length) + xo("AccessMode", ident, self.access)
                + el("pPort", self.port) + xo("Cachable", ident, self.cache) + xo("PollingTime", txt, self.polling)
                + xl("pInvalidator", ident, self.invs))

    def coq(self):
        return "(mkRb Src %s %s %s %s %s %s %s %s %s)" % (
            self.eb.coq(), co(clit, self.streamable), cl(lambda a: a.coq(), self.addrs), cimm(clit, self.length),
            co(lambda x: C_ACC[x], self.access), cs(self.port), co(lambda x: C_CACHE[x], self.cache),
            co(clit, self.polling), cl(cs, self.invs))

    def exp(self):
        return (eb(bv(self.streamable)) + ev(lambda a: a.exp(), self.addrs) + eimm(eil, self.length)
                + [ACC.index(dv(self.access, "RO"))] + es(self.port) + [CACHE.index(dv(self.cache, "WriteThrough"))]
                + eo(eil, self.polling) + ev(es, self.invs))

    def embedded(self):
        return [a.a[1] for a in self.addrs if a.a[0] == "swiss"]


class Plain(Node):
    TAG = "Node"

    def __init__(self, attr, ebase):
        self.attr, self.eb = attr, ebase

    def xml(self):
        return self.wrap(self.attr, self.eb.xml())

    def coq(self):
        return "(SnNode (mkPlain Src %s %s))" % (self.attr.coq(), self.eb.coq())

    def chunks(self, ctx):
        return [head(0, self.attr, self.eb) + [0]]

    def names(self):
        return [self.attr.name]


class Category(Node):
    TAG = "Category"

    def __init__(self, attr, ebase, features):
        self.attr, self.eb, self.features = attr, ebase, features

    def xml(self):
        return self.wrap(self.attr, self.eb.xml() + xl("pFeature", ident, self.features))

    def coq(self):
        return "(SnCategory (mkCategory Src %s %s %s))" % (self.attr.coq(), self.eb.coq(), cl(cs, self.features))

    def chunks(self, ctx):
        return [head(1, self.attr, self.eb) + [0] + ev(es, self.features)]

    def names(self):
        return [self.attr.name]


def deduce_min(rep):
    return 0 if rep in ("IPV4Address", "MACAddress") else I64_MIN


def deduce_max(rep):
    return {"IPV4Address": 0xFFFFFFFF, "MACAddress": 0xFFFFFFFFFFFF}.get(rep, I64_MAX)


class Integer(Node):
    TAG = "Integer"

    def __init__(self, attr, ebase, streamable, value, mn, mx, inc, unit, repr_, selected):
        self.attr, self.eb, self.streamable, self.value, self.min, self.max = attr, ebase, streamable, value, mn, mx
        self.inc, self.unit, self.repr, self.selected = inc, unit, repr_, selected

    def xml(self):
        return self.wrap(self.attr, self.eb.xml() + xo("Streamable", txt, self.streamable) + self.value.xml()
                         + xoimm("Min", "pMin", txt, self.min) + xoimm("Max", "pMax", txt, self.max)
                         + xoimm("Inc", "pInc", txt, self.inc) + xo("Unit", ident, self.unit)
                         + xo("Representation", ident, self.repr) + xl("pSelected", ident, self.selected))

    def coq(self):
        oi = lambda o: co(lambda x: cimm(clit, x), o)
        return "(SnInteger (mkInteger Src %s %s %s %s %s %s %s %s %s %s))" % (
            self.attr.coq(), self.eb.coq(), co(clit, self.streamable), self.value.coq(), oi(self.min), oi(self.max),
            oi(self.inc), co(cs, self.unit), co(lambda x: C_IREP[x], self.repr), cl(cs, self.selected))

    def chunks(self, ctx):
        rep = dv(self.repr, "PureNumber")
        c = head(2, self.attr, self.eb) + eb(bv(self.streamable)) + self.value.exp(eil)
        c += eimm(eil, dv(self.min, Imm(IL(deduce_min(rep))))) + eimm(eil, dv(self.max, Imm(IL(deduce_max(rep)))))
        c += eimm(eil, dv(self.inc, Imm(IL(1)))) + eo(es, self.unit) + [IREP.index(rep)] + ev(es, self.selected)
        return [c]

    def names(self):
        return [self.attr.name]


def int_tail_xml(n):
    return (xo("Sign", ident, n.sign) + xo("Endianess", ident, n.endian) + xo("Unit", ident, n.unit)
            + xo("Representation", ident, n.repr) + xl("pSelected", ident, n.selected))


def int_tail_exp(sign, endian, unit, rep, selected):
    return ([SIGN.index(dv(sign, "Unsigned")), ENDIAN.index(dv(endian, "LittleEndian"))] + eo(es, unit)
            + [IREP.index(dv(rep, "PureNumber"))] + ev(es, selected))


class RegKind(Node):
    """nodes built on RegisterBase: embedded swiss knives are stored as nodes of their own, the register's
    invalidators are registered with the cache store"""

    def names(self):
        return [k.attr.name for k in self.rb.embedded()] + [self.attr.name]

    def invs(self):
        return [(i, self.attr.name) for i in self.rb.invs]

    def emb_chunks(self, ctx):
        out = []
        for k in self.rb.embedded():
            out += k.chunks(ctx)
        return out

    def formulas(self):
        out = []
        for k in self.rb.embedded():
            out += k.formulas()
        return out


class IntReg(RegKind):
    TAG = "IntReg"

    def __init__(self, attr, rb, sign, endian, unit, repr_, selected):
        self.attr, self.rb, self.sign, self.endian, self.unit, self.repr, self.selected = attr, rb, sign, endian, unit, repr_, selected

    def xml(self):
        return self.wrap(self.attr, self.rb.xml() + int_tail_xml(self))

    def coq(self):
        return "(SnIntReg (mkIntreg Src %s %s %s %s %s %s %s))" % (
            self.attr.coq(), self.rb.coq(), co(lambda x: C_SIGN[x], self.sign), co(lambda x: C_ENDIAN[x], self.endian),
            co(cs, self.unit), co(lambda x: C_IREP[x], self.repr), cl(cs, self.selected))

    def chunks(self, ctx):
        c = head(3, self.attr, self.rb.eb) + eb(bv(self.rb.streamable)) + self.rb.exp()
        c += int_tail_exp(self.sign, self.endian, self.unit, self.repr, self.selected)
        return self.emb_chunks(ctx) + [c]


class MaskedIntReg(RegKind):
    TAG = "MaskedIntReg"

    def __init__(self, attr, rb, mask, sign, endian, unit, repr_, selected):
        self.attr, self.rb, self.mask, self.sign, self.endian = attr, rb, mask, sign, endian
        self.unit, self.repr, self.selected = unit, repr_, selected

    def xml(self):
        return self.wrap(self.attr, self.rb.xml() + self.mask.xml() + int_tail_xml(self))

    def coq(self):
        return "(SnMaskedIntReg (mkMasked Src %s %s %s %s %s %s %s %s))" % (
            self.attr.coq(), self.rb.coq(), self.mask.coq(), co(lambda x: C_SIGN[x], self.sign),
            co(lambda x: C_ENDIAN[x], self.endian), co(cs, self.unit), co(lambda x: C_IREP[x], self.repr),
            cl(cs, self.selected))

    def chunks(self, ctx):
        c = head(4, self.attr, self.rb.eb) + eb(bv(self.rb.streamable)) + self.rb.exp() + self.mask.exp()
        c += int_tail_exp(self.sign, self.endian, self.unit, self.repr, self.selected)
        return self.emb_chunks(ctx) + [c]


class SEntry:
    def __init__(self, attr, ebase, access, cache, polling, streamable, mask, sign, unit, repr_, selected):
        self.attr, self.eb, self.access, self.cache, self.polling, self.streamable = attr, ebase, access, cache, polling, streamable
        self.mask, self.sign, self.unit, self.repr, self.selected = mask, sign, unit, repr_, selected

    def xml(self):
        return "<StructEntry%s>%s</StructEntry>" % (xattrs(self.attr.xml()), (
            self.eb.xml() + xo("AccessMode", ident, self.access) + xo("Cachable", ident, self.cache)
            + xo("PollingTime", txt, self.polling) + xo("Streamable", txt, self.streamable) + self.mask.xml()
            + xo("Sign", ident, self.sign) + xo("Unit", ident, self.unit) + xo("Representation", ident, self.repr)
            + xl("pSelected", ident, self.selected)))

    def coq(self):
        return "(mkSentry Src %s %s tt %s %s %s %s %s %s %s %s %s)" % (
            self.attr.coq(), self.eb.coq(), co(lambda x: C_ACC[x], self.access), co(lambda x: C_CACHE[x], self.cache),
            co(clit, self.polling), co(clit, self.streamable), self.mask.coq(), co(lambda x: C_SIGN[x], self.sign),
            co(cs, self.unit), co(lambda x: C_IREP[x], self.repr), cl(cs, self.selected))


def inherit(entry, struct):
    """GenICam 2.8.7: the entry's element if present, else the structure's"""
    return struct if entry is None or entry == [] else entry


class StructReg(RegKind):
    TAG = "StructReg"

    def __init__(self, rb, endian, entries):
        self.rb, self.endian, self.entries = rb, endian, entries

    def xml(self):
        return '<StructReg Comment="c">%s</StructReg>' % (
            self.rb.xml() + xo("Endianess", ident, self.endian) + "".join(e.xml() for e in self.entries))

    def coq(self):
        return "(SnStructReg (mkStruct Src %s %s %s))" % (self.rb.coq(), co(lambda x: C_ENDIAN[x], self.endian),
                                                          cl(lambda e: e.coq(), self.entries))

    def twins(self):
        """the equivalent MaskedIntReg nodes: every mergeable property is the entry's if the entry declares it,
        else the structure's"""
        out = []
        r = self.rb
        for e in self.entries:
            ebase = Eb(**{f: inherit(getattr(e.eb, f), getattr(r.eb, f)) for f in Eb.FIELDS if f not in ("ext", "invs")})
            rb = Rb(ebase, inherit(e.streamable, r.streamable), r.addrs, r.length, inherit(e.access, r.access), r.port,
                    inherit(e.cache, r.cache), inherit(e.polling, r.polling), inherit(e.eb.invs, r.invs))
            out.append(MaskedIntReg(e.attr, rb, e.mask, e.sign, self.endian, e.unit, e.repr, e.selected))
        return out

    def chunks(self, ctx):
        out = self.emb_chunks(ctx)
        for t in self.twins():
            out += t.chunks(ctx)[-1:]
        return out

    def names(self):
        return [k.attr.name for k in self.rb.embedded()] + [e.attr.name for e in self.entries]

    def invs(self):
        out = []
        for t in self.twins():
            out += t.invs()
        return out

    def known_limitation(self):
        """KNOWN finding: an entry that explicitly writes the schema default of Visibility / IsDeprecated /
        ImposedAccessMode / AccessMode / Cachable / Streamable while the structure declares another value"""
        r = self.rb
        for e in self.entries:
            for ev_, sv, d in ((e.eb.vis, r.eb.vis, "Beginner"), (e.eb.imposed, r.eb.imposed, "RW"),
                               (e.access, r.access, "RO"), (e.cache, r.cache, "WriteThrough")):
                if ev_ == d and sv is not None and sv != d:
                    return True
            for ev_, sv in ((e.eb.deprecated, r.eb.deprecated), (e.streamable, r.streamable)):
                if ev_ is not None and not ev_.val and sv is not None and sv.val:
                    return True
        return False

    def as_code_does(self):
        """the same structure with the limitation applied (explicit defaults in an entry dropped)"""
        import copy
        s = copy.deepcopy(self)
        for e in s.entries:
            if e.eb.vis == "Beginner":
                e.eb.vis = None
            if e.eb.imposed == "RW":
                e.eb.imposed = None
            if e.access == "RO":
                e.access = None
            if e.cache == "WriteThrough":
                e.cache = None
            if e.eb.deprecated is not None and not e.eb.deprecated.val:
                e.eb.deprecated = None
            if e.streamable is not None and not e.streamable.val:
                e.streamable = None
        return s


class Boolean(Node):
    TAG = "Boolean"

    def __init__(self, attr, ebase, streamable, value, on, off, selected):
        self.attr, self.eb, self.streamable, self.value, self.on, self.off, self.selected = attr, ebase, streamable, value, on, off, selected

    def xml(self):
        return self.wrap(self.attr, self.eb.xml() + xo("Streamable", txt, self.streamable)
                         + ximm("Value", "pValue", txt, self.value) + xo("OnValue", txt, self.on)
                         + xo("OffValue", txt, self.off) + xl("pSelected", ident, self.selected))

    def coq(self):
        return "(SnBoolean (mkBoolean Src %s %s %s %s %s %s %s))" % (
            self.attr.coq(), self.eb.coq(), co(clit, self.streamable), cimm(clit, self.value), co(clit, self.on),
            co(clit, self.off), cl(cs, self.selected))

    def chunks(self, ctx):
        on = 1 if self.on is None else self.on.val
        off = 0 if self.off is None else self.off.val
        val = self.value
        if isinstance(val, PN) and CODE_VIEW and val.lit is not None:
            val = Imm(val.lit)
        v = [0, on if val.v.val else off] if isinstance(val, Imm) else [1] + es(val.n)
        return [head(5, self.attr, self.eb) + eb(bv(self.streamable)) + v + [on, off] + ev(es, self.selected)]

    def names(self):
        return [self.attr.name]


class Command(Node):
    TAG = "Command"

    def __init__(self, attr, ebase, value, command_value, polling):
        self.attr, self.eb, self.value, self.command_value, self.polling = attr, ebase, value, command_value, polling

    def xml(self):
        return self.wrap(self.attr, self.eb.xml() + ximm("Value", "pValue", txt, self.value)
                         + ximm("CommandValue", "pCommandValue", txt, self.command_value)
                         + xo("PollingTime", txt, self.polling))

    def coq(self):
        return "(SnCommand (mkCommand Src %s %s %s %s %s))" % (
            self.attr.coq(), self.eb.coq(), cimm(clit, self.value), cimm(clit, self.command_value), co(clit, self.polling))

    def chunks(self, ctx):
        return [head(6, self.attr, self.eb) + [0] + eimm(eil, self.value) + eimm(eil, self.command_value)
                + eo(eil, self.polling)]

    def names(self):
        return [self.attr.name]


class EnumEntry:
    def __init__(self, attr, ebase, value, numeric, self_clearing):
        self.attr, self.eb, self.value, self.numeric, self.self_clearing = attr, ebase, value, numeric, self_clearing

    def xml(self):
        return "<EnumEntry%s>%s</EnumEntry>" % (xattrs(self.attr.xml()), (
            self.eb.xml() + el("Value", self.value.text()) + xo("NumericValue", txt, self.numeric)
            + xo("IsSelfClearing", txt, self.self_clearing)))

    def coq(self):
        return "(mkEnumentry Src %s %s %s %s tt %s)" % (self.attr.coq(), self.eb.coq(), self.value.coq(),
                                                        co(clit, self.numeric), co(clit, self.self_clearing))


class Enumeration(Node):
    TAG = "Enumeration"

    def __init__(self, attr, ebase, streamable, entries, value, selected, polling):
        self.attr, self.eb, self.streamable, self.entries, self.value = attr, ebase, streamable, entries, value
        self.selected, self.polling = selected, polling

    def xml(self):
        return self.wrap(self.attr, self.eb.xml() + xo("Streamable", txt, self.streamable)
                         + "".join(e.xml() for e in self.entries) + ximm("Value", "pValue", txt, self.value)
                         + xl("pSelected", ident, self.selected) + xo("PollingTime", txt, self.polling))

    def coq(self):
        return "(SnEnumeration (mkEnumeration Src %s %s %s %s %s %s %s))" % (
            self.attr.coq(), self.eb.coq(), co(clit, self.streamable), cl(lambda e: e.coq(), self.entries),
            cimm(clit, self.value), cl(cs, self.selected), co(clit, self.polling))

    def entry_names(self, ctx, advance):
        """entries are reachable through their enumeration; the store names them $<symbolic>_<running number>"""
        k = ctx["fresh"]
        names = ["$%s_%d" % (e.attr.name, k + i) for i, e in enumerate(self.entries)]
        if advance:
            ctx["fresh"] = k + len(self.entries)
        return names

    def chunks(self, ctx):
        names = self.entry_names(ctx, True)
        out = []
        for nm, e in zip(names, self.entries):
            a = Attr(nm, e.attr.ns, e.attr.mp, e.attr.es)
            num = fbits(float(e.value.val)) if e.numeric is None else e.numeric.bits()
            out.append(head(8, a, e.eb) + [0, e.value.val, num] + es(e.attr.name) + eb(bv(e.self_clearing)))
        out.append(head(7, self.attr, self.eb) + eb(bv(self.streamable)) + ev(es, names) + eimm(eil, self.value)
                   + ev(es, self.selected) + eo(eil, self.polling))
        return out

    def names(self):
        return [self.attr.name]


F64_MIN = FL("text", "-1.7976931348623157e308")
F64_MAX = FL("text", "1.7976931348623157e308")


def float_tail_xml(n):
    return (xo("Unit", ident, n.unit) + xo("Representation", ident, n.repr) + xo("DisplayNotation", ident, n.dnot)
            + xo("DisplayPrecision", txt, n.dprec))


def float_tail_exp(n):
    return (eo(es, n.unit) + [FREP.index(dv(n.repr, "PureNumber")), DNOT.index(dv(n.dnot, "Automatic")),
                              6 if n.dprec is None else n.dprec.val])


class Float(Node):
    TAG = "Float"

    def __init__(self, attr, ebase, streamable, value, mn, mx, inc, unit, repr_, dnot, dprec):
        self.attr, self.eb, self.streamable, self.value, self.min, self.max, self.inc = attr, ebase, streamable, value, mn, mx, inc
        self.unit, self.repr, self.dnot, self.dprec = unit, repr_, dnot, dprec

    def xml(self):
        return self.wrap(self.attr, self.eb.xml() + xo("Streamable", txt, self.streamable) + self.value.xml()
                         + xoimm("Min", "pMin", txt, self.min) + xoimm("Max", "pMax", txt, self.max)
                         + xoimm("Inc", "pInc", txt, self.inc) + float_tail_xml(self))

    def coq(self):
        oi = lambda o: co(lambda x: cimm(clit, x), o)
        return "(SnFloat (mkFloat Src %s %s %s %s %s %s %s %s %s %s %s))" % (
            self.attr.coq(), self.eb.coq(), co(clit, self.streamable), self.value.coq(), oi(self.min), oi(self.max),
            oi(self.inc), co(cs, self.unit), co(lambda x: C_FREP[x], self.repr), co(lambda x: C_DNOT[x], self.dnot),
            co(clit, self.dprec))

    def chunks(self, ctx):
        c = head(9, self.attr, self.eb) + eb(bv(self.streamable)) + self.value.exp(efl)
        c += eimm(efl, dv(self.min, Imm(F64_MIN))) + eimm(efl, dv(self.max, Imm(F64_MAX)))
        c += eo(lambda x: eimm(efl, x), self.inc) + float_tail_exp(self)
        return [c]

    def names(self):
        return [self.attr.name]


class FloatReg(RegKind):
    TAG = "FloatReg"

    def __init__(self, attr, rb, endian, unit, repr_, dnot, dprec):
        self.attr, self.rb, self.endian, self.unit, self.repr, self.dnot, self.dprec = attr, rb, endian, unit, repr_, dnot, dprec

    def xml(self):
        return self.wrap(self.attr, self.rb.xml() + xo("Endianess", ident, self.endian) + float_tail_xml(self))

    def coq(self):
        return "(SnFloatReg (mkFloatreg Src %s %s %s %s %s %s %s))" % (
            self.attr.coq(), self.rb.coq(), co(lambda x: C_ENDIAN[x], self.endian), co(cs, self.unit),
            co(lambda x: C_FREP[x], self.repr), co(lambda x: C_DNOT[x], self.dnot), co(clit, self.dprec))

    def chunks(self, ctx):
        c = head(10, self.attr, self.rb.eb) + eb(bv(self.rb.streamable)) + self.rb.exp()
        c += [ENDIAN.index(dv(self.endian, "LittleEndian"))] + float_tail_exp(self)
        return self.emb_chunks(ctx) + [c]


class String(Node):
    TAG = "String"

    def __init__(self, attr, ebase, streamable, value):
        self.attr, self.eb, self.streamable, self.value = attr, ebase, streamable, value

    def xml(self):
        v = el("Value", self.value.v) if isinstance(self.value, Imm) else el("pValue", self.value.n)
        return self.wrap(self.attr, self.eb.xml() + xo("Streamable", txt, self.streamable) + v)

    def coq(self):
        return "(SnString (mkString Src %s %s %s %s))" % (self.attr.coq(), self.eb.coq(), co(clit, self.streamable),
                                                          cimm(cs, self.value))

    def chunks(self, ctx):
        v = [0] + es(self.value.v) if isinstance(self.value, Imm) else [1] + es(self.value.n)
        return [head(11, self.attr, self.eb) + eb(bv(self.streamable)) * 2 + v]

    def names(self):
        return [self.attr.name]


class RegNode(RegKind):
    def __init__(self, tag, attr, rb):
        self.TAG, self.attr, self.rb = tag, attr, rb

    def xml(self):
        return self.wrap(self.attr, self.rb.xml())

    def coq(self):
        return "(%s (mkRegnode Src %s %s))" % ("SnStringReg" if self.TAG == "StringReg" else "SnRegister",
                                                self.attr.coq(), self.rb.coq())

    def chunks(self, ctx):
        k = 12 if self.TAG == "StringReg" else 13
        return self.emb_chunks(ctx) + [head(k, self.attr, self.rb.eb) + eb(bv(self.rb.streamable)) + self.rb.exp()]


class Port(Node):
    TAG = "Port"

    def __init__(self, attr, ebase, chunk, swap, cache):
        self.attr, self.eb, self.chunk, self.swap, self.cache = attr, ebase, chunk, swap, cache

    def xml(self):
        return self.wrap(self.attr, self.eb.xml() + xoimm("ChunkID", "pChunkID", txt, self.chunk)
                         + xo("SwapEndianess", txt, self.swap) + xo("CacheChunkData", txt, self.cache))

    def coq(self):
        return "(SnPort (mkPort Src %s %s %s %s %s))" % (
            self.attr.coq(), self.eb.coq(), co(lambda x: cimm(clit, x), self.chunk), co(clit, self.swap),
            co(clit, self.cache))

    def chunks(self, ctx):
        return [head(18, self.attr, self.eb) + [0] + eo(lambda x: eimm(lambda h: [h.val], x), self.chunk)
                + eb(bv(self.swap)) + eb(bv(self.cache))]

    def names(self):
        return [self.attr.name]


class Group(Node):
    def __init__(self, members):
        self.members = members

    def xml(self):
        return '<Group Comment="g">%s</Group>' % "".join(m.xml() for m in self.members)

    def coq(self):
        return "(SnGroup %s)" % cl(lambda m: m.coq(), self.members)

    def chunks(self, ctx):
        out = []
        for m in self.members:
            out += m.chunks(ctx)
        return out

    def names(self):
        out = []
        for m in self.members:
            out += m.names()
        return out

    def invs(self):
        out = []
        for m in self.members:
            out += m.invs()
        return out

    def formulas(self):
        out = []
        for m in self.members:
            out += m.formulas()
        return out


# ---- Converter / IntConverter / SwissKnife: three-way like every other kind; the expression trees of their formulas
# are compared with hand-written expectations (formula::parse is property C05) ---------------------------------------
class FormulaNode(Node):
    """Converter / IntConverter / SwissKnife: kind, tag and the field list differ, the shape is shared"""

    def __init__(self, tag, attr, ebase, streamable, pvars, consts, exprs, formulas, pvalue, unit, repr_, dnot, dprec,
                 slope, is_linear):
        self.TAG, self.attr, self.eb, self.streamable, self.vars, self.consts, self.exprs = tag, attr, ebase, streamable, pvars, consts, exprs
        self.fs, self.pvalue, self.unit, self.repr, self.dnot, self.dprec, self.slope, self.is_linear = formulas, pvalue, unit, repr_, dnot, dprec, slope, is_linear

    def is_int(self):
        return self.TAG == "IntConverter"

    def xml(self):
        s = self.eb.xml() + xo("Streamable", txt, self.streamable)
        s += "".join(el("pVariable", n, [("Name", k)]) for k, n in self.vars)
        s += "".join(el("Constant", c.text(), [("Name", k)]) for k, c in self.consts)
        s += "".join(el("Expression", e, [("Name", k)]) for k, e in self.exprs)
        if self.TAG == "SwissKnife":
            s += el("Formula", self.fs[0])
        else:
            s += el("FormulaTo", self.fs[0]) + el("FormulaFrom", self.fs[1]) + el("pValue", self.pvalue)
        s += xo("Unit", ident, self.unit) + xo("Representation", ident, self.repr)
        if not self.is_int():
            s += xo("DisplayNotation", ident, self.dnot) + xo("DisplayPrecision", txt, self.dprec)
        if self.TAG != "SwissKnife":
            s += xo("Slope", ident, self.slope)
        if self.TAG == "Converter":
            s += xo("IsLinear", txt, self.is_linear)
        return self.wrap(self.attr, s)

    def coq(self):
        pairs = lambda f, l: cl(lambda p: "(%s, %s)" % (cs(p[0]), f(p[1])), l)
        common = "%s %s %s %s %s %s" % (self.attr.coq(), self.eb.coq(), co(clit, self.streamable), pairs(cs, self.vars),
                                       pairs(clit, self.consts), pairs(cs, self.exprs))
        if self.TAG == "SwissKnife":
            return "(SnSwissKnife (mkFswiss Src %s %s %s %s %s %s))" % (
                common, cs(self.fs[0]), co(cs, self.unit), co(lambda x: C_FREP[x], self.repr),
                co(lambda x: C_DNOT[x], self.dnot), co(clit, self.dprec))
        if self.TAG == "IntConverter":
            return "(SnIntConverter (mkIconv Src %s %s %s %s %s %s %s))" % (
                common, cs(self.fs[0]), cs(self.fs[1]), cs(self.pvalue), co(cs, self.unit),
                co(lambda x: C_IREP[x], self.repr), co(lambda x: C_SLOPE[x], self.slope))
        return "(SnConverter (mkFconv Src %s %s %s %s %s %s %s %s %s %s))" % (
            common, cs(self.fs[0]), cs(self.fs[1]), cs(self.pvalue), co(cs, self.unit), co(lambda x: C_FREP[x], self.repr),
            co(lambda x: C_DNOT[x], self.dnot), co(clit, self.dprec), co(lambda x: C_SLOPE[x], self.slope),
            co(clit, self.is_linear))

    def chunks(self, ctx):
        kind = {"Converter": 14, "IntConverter": 15, "SwissKnife": 16}[self.TAG]
        c = head(kind, self.attr, self.eb) + eb(bv(self.streamable)) + ev(lambda p: es(p[0]) + es(p[1]), self.vars)
        c += ev(lambda p: es(p[0]) + ([p[1].val] if self.is_int() else [p[1].bits()]), self.consts)
        c += ev(lambda p: es(p[0]), self.exprs)
        if self.TAG != "SwissKnife":
            c += es(self.pvalue)
        c += eo(es, self.unit)
        if self.is_int():
            c += [IREP.index(dv(self.repr, "PureNumber"))]
        else:
            c += [FREP.index(dv(self.repr, "PureNumber")), DNOT.index(dv(self.dnot, "Automatic")),
                  6 if self.dprec is None else self.dprec.val]
        if self.TAG != "SwissKnife":
            c += [["Increasing", "Decreasing", "Varying", "Automatic"].index(dv(self.slope, "Automatic"))]
        if self.TAG == "Converter":
            c += eb(bv(self.is_linear))
        return [c]

    def names(self):
        return [self.attr.name]

    def formulas(self):
        return [(self.attr.name, [e for _, e in self.exprs], list(self.fs[:1] if self.TAG == "SwissKnife" else self.fs))]


# formula texts with their expression trees written out by hand (layout of rust/h_parse `expr`):
# 1 binop l r | 2 unop e | 3 c t e | 4 int | 5 float bits | 6 ident
def _id(s):
    return [6] + es(s)


FORMULAS = [
    ("1", [4, 1]),
    ("A", _id("A")),
    ("A+1", [1, 0] + _id("A") + [4, 1]),
    ("A - B", [1, 1] + _id("A") + _id("B")),
    ("A*B+2", [1, 0, 1, 2] + _id("A") + _id("B") + [4, 2]),
    ("A+B*2", [1, 0] + _id("A") + [1, 2] + _id("B") + [4, 2]),
    ("(A+B)*2", [1, 2, 1, 0] + _id("A") + _id("B") + [4, 2]),
    ("A/4", [1, 3] + _id("A") + [4, 4]),
    ("A%3", [1, 4] + _id("A") + [4, 3]),
    ("0x10", [4, 16]),
    ("1.5", [5, fbits(1.5)]),
    ("-A", [2, 3] + _id("A")),
    ("ABS(A)", [2, 1] + _id("A")),
    ("(A>1)?A:B", [3, 1, 14] + _id("A") + [4, 1] + _id("A") + _id("B")),
    ("A&0xFF", [1, 16] + _id("A") + [4, 255]),
    ("A<<2", [1, 6] + _id("A") + [4, 2]),
    ("A=B", [1, 10] + _id("A") + _id("B")),
    ("A&&B", [1, 8] + _id("A") + _id("B")),
]


# --------------------------------------------------------------------------------------------- documents --
RD_ATTRS = [("ModelName", "M"), ("VendorName", "V"), ("StandardNameSpace", "None"), ("SchemaMajorVersion", "1"),
            ("SchemaMinorVersion", "1"), ("SchemaSubMinorVersion", "0"), ("MajorVersion", "1"), ("MinorVersion", "2"),
            ("SubMinorVersion", "3"), ("ToolTip", "t"), ("ProductGuid", "01234567-0123-0123-0123-0123456789ab"),
            ("VersionGuid", "76543210-3210-3210-3210-ba9876543210")]


class Doc:
    def __init__(self, nodes, rd=None):
        self.nodes = nodes
        self.rd = rd or list(RD_ATTRS)

    def xml(self):
        return ('<RegisterDescription%s xmlns="http://www.genicam.org/GenApi/Version_1_0">%s</RegisterDescription>'
                % (xattrs(self.rd), "".join(n.xml() for n in self.nodes)))

    def coq_attrs(self):
        return cl(lambda kv: "(%s, %s)" % (cs(kv[0]), cs(kv[1])), self.rd)

    def has_model(self):
        return all(self._has(n) for n in self.nodes)

    def _has(self, n):
        if isinstance(n, Group):
            return all(self._has(m) for m in n.members)
        return True        # every kind has a Gallina model (formula texts are opaque there)

    def term(self):
        return "run_doc true (Elem T_RegisterDescription %s (map render %s))" % (
            self.coq_attrs(), cl(lambda n: n.coq(), self.nodes))

    def rd_exp(self):
        d = dict(self.rd)
        uint = lambda s: int(s, 16) if s[:2] in ("0x", "0X") else int(s)
        return (es(d["ModelName"]) + es(d["VendorName"]) + eo(es, d.get("ToolTip")) + [STDNS.index(d["StandardNameSpace"])]
                + [uint(d[k]) for k in ("SchemaMajorVersion", "SchemaMinorVersion", "SchemaSubMinorVersion",
                                         "MajorVersion", "MinorVersion", "SubMinorVersion")]
                + es(d["ProductGuid"]) + es(d["VersionGuid"]))

    def expected(self):
        """(rd, sorted chunks, invalidator pairs in call order, formulas by node name)"""
        ctx = {"fresh": 0}
        chunks, invs, forms = [], [], {}
        for n in self.nodes:
            chunks += n.chunks(ctx)
            invs += n.invs()
            for name, exprs, fs in n.formulas():
                forms[name] = (exprs, fs)
        return self.rd_exp(), sorted(chunks), invs, forms

    def declared_names(self):
        out = []
        for n in self.nodes:
            out += n.names()
        return out


def split_dump(out, with_formulas):
    """[0, |rd|, rd.., n, chunks.., k, invs.. (, nf, fchunks..)] -> (rd, sorted chunks, invs, formula chunks)"""
    assert out[0] == 0
    p = 1
    n = out[p]
    rd = out[p + 1:p + 1 + n]
    p += 1 + n
    cnt = out[p]
    p += 1
    chunks = []
    for _ in range(cnt):
        ln = out[p]
        chunks.append(out[p + 1:p + 1 + ln])
        p += 1 + ln
    k = out[p]
    p += 1
    invs = []
    for _ in range(k):
        pair = []
        for _ in range(2):
            ln = out[p]
            pair.append("".join(chr(c) for c in out[p + 1:p + 1 + ln]))
            p += 1 + ln
        invs.append(tuple(pair))
    forms = {}
    if with_formulas:
        nf = out[p]
        p += 1
        for _ in range(nf):
            ln = out[p]
            c = out[p + 1:p + 1 + ln]
            p += 1 + ln
            sl = c[0]
            name = "".join(chr(x) for x in c[1:1 + sl])
            forms[name] = c[1 + sl:]
    assert p == len(out), "trailing data in dump"
    return rd, sorted(chunks), invs, forms


FSENT = -(1 << 70)
ISENT = -(1 << 70) - 1


import re
RUST_FLOAT = re.compile(r"^[+-]?((inf|infinity|nan)|((\d+\.?\d*|\.\d+)([eE][+-]?\d+)?))$", re.I)


class BadFloat(Exception):
    pass


def resolve_floats(out):
    """model dump: [FSENT, n, chars..] -> bits of the float literal (BadFloat when the text is not in the grammar of
    Rust's str::parse::<f64>: the implementation unwraps that error); [ISENT, z] -> bits of z as f64"""
    res = []
    i = 0
    while i < len(out):
        x = out[i]
        if x == FSENT:
            n = out[i + 1]
            t = "".join(chr(c) for c in out[i + 2:i + 2 + n])
            if not RUST_FLOAT.match(t):
                raise BadFloat(t)
            res.append(fbits(float(t)))
            i += 2 + n
        elif x == ISENT:
            res.append(fbits(float(out[i + 1])))
            i += 2
        else:
            res.append(x)
            i += 1
    return res


def canon(rd, chunks, invs):
    """flat canonical form used for the comparison"""
    out = [0, len(rd)] + list(rd) + [len(chunks)]
    for c in chunks:
        out += [len(c)] + list(c)
    out.append(len(invs))
    for a, t in invs:
        out += es(a) + es(t)
    return out


# --------------------------------------------------------------------------------------------- generator --
class Gen:
    def __init__(self, rng, probe_limitation=False, sizes=(1, 5)):
        self.r = rng
        self.n = 0
        self.sizes = sizes
        self.probe = probe_limitation

    # -- atoms
    def fresh_name(self):
        if self.n == 0:
            self.used = set()
        self.n += 1
        r = self.r
        if r.chance(1, 4):
            nm = r.choice(POOL)          # nodes legally NAMED like float / integer / boolean words
            if nm not in self.used:
                self.used.add(nm)
                return nm
        return r.choice(["N%d", "Node_%d", "a%d", "Zz%dQ", "n_%d_x"]) % self.n

    def ref(self, site=None):
        """a reference to some node (declared or not: the parser does not resolve references).  site: the type of the
        ImmOrPNode site the reference stands at ('i', 'f', 'b'), None elsewhere.  Half of the references are drawn from POOL;
        names the code is KNOWN to misread at that site are used by the probe generator only."""
        r = self.r
        if getattr(self, "probe_reserved", False) and site in ("i", "f", "b") and r.chance(1, 2):
            cands = [n for n in ["INF", "NaN", "Yes", "No", "true", "false"] + UNDERSCORE if code_reads(n, site) is not None]
            if cands:
                return r.choice(cands)
        if r.chance(1, 2):
            return r.choice([n for n in POOL if code_reads(n, site) is None])
        return r.choice(["R%d" % r.below(6), "Ref_%d" % r.below(4), "x", "Q9", "INFx", "Yesterday", "t_1"])

    def pn(self, site):
        n = self.ref(site)
        x = PN(n, code_reads(n, site))
        if x.lit is not None:
            self.reserved_made = getattr(self, "reserved_made", []) + [x]
        return x

    def site_of(self, f):
        return "f" if f == self.fl else "b" if f == self.bl else "h" if f == self.hl else "i"

    def opt(self, f, num=1, den=2):
        return f() if self.r.chance(num, den) else None

    def many(self, f, hi=3):
        return [f() for _ in range(self.r.choice([0, 0, 1, 1, 2, hi]))]

    def text(self):
        r = self.r
        return r.choice(["", "x", "Hello world", "a<b & c>d", "  padded  ", "line1\nline2", "é中\U0001F600", "0x10",
                         "Yes", "5", '"quoted" \'s', "-", "ToolTip", "]]>", "%d" % r.below(1000)])

    def ival(self):
        r = self.r
        return r.choice([0, 1, -1, 7, 255, 256, 65535, 1 << 31, (1 << 32) - 1, I64_MAX, I64_MIN, I64_MIN + 1,
                         -r.below(1 << 40), r.below(1 << 62), r.below(1000), -r.below(1000)])

    def il(self, lo=I64_MIN, hi=I64_MAX):
        r = self.r
        for _ in range(50):
            v = self.ival()
            if lo <= v <= hi:
                break
        else:
            v = max(lo, 0)
        if v >= 0 and r.chance(2, 5):
            return IL(v, "h", r.chance(1, 2), r.chance(1, 2))
        return IL(v)

    def ul(self):
        r = self.r
        if r.chance(1, 8):
            return IL(r.choice([U64_MAX, 1 << 63, U64_MAX - 1]), r.choice("dh"), r.chance(1, 2), r.chance(1, 2))
        return self.il(0, I64_MAX)

    def small(self, hi=63):
        r = self.r
        v = r.below(hi + 1)
        return IL(v, "h", r.chance(1, 2), r.chance(1, 2)) if r.chance(1, 4) else IL(v)

    def hl(self):
        r = self.r
        return HL(r.choice([0, 1, 0xFD3219, 0xABCDEF, U64_MAX, r.below(1 << 48)]), r.chance(1, 2))

    def bl(self):
        return BLit(self.r.chance(1, 2), self.r.chance(1, 2))

    def fl(self):
        r = self.r
        k = r.below(10)
        if k == 0:
            return FL("inf")
        if k == 1:
            return FL("ninf")
        if k == 2:
            return FL("text", "NaN")
        return FL("text", r.choice(["0", "1", "-1", "1.5", "-0.25", "1e3", "2.5E-2", "-0.0", "3.141592653589793", "100",
                                    "1e308", "4.9e-324", "+2.5", ".5", "5.", "123456789012345678", "-7.25e+2"]))

    def imm(self, f, ref=None):
        """an ImmOrPNode site: literal drawn by f, or a reference (two out of five)"""
        return self.pn(self.site_of(f)) if self.r.chance(2, 5) else Imm(f())

    # -- parts
    def attr(self, name=None):
        r = self.r
        return Attr(name or self.fresh_name(), self.opt(lambda: r.choice(NS), 1, 3), self.opt(lambda: r.choice(MP), 1, 3),
                    self.opt(self.bl, 1, 3))

    def ext(self):
        r = self.r
        return r.choice([("", "(@nil xml)"), ("abc", "[Text [97;98;99]]"),
                         ("<Foo>1</Foo><Bar/>", "[Elem [70;111;111] [] [Text [49]]; Elem [66;97;114] [] []]"),
                         ("<A><B>x</B></A>t", "[Elem [65] [] [Elem [66] [] [Text [120]]]; Text [116]]")])

    def ebase(self, invs=False, rich=None):
        r = self.r
        if rich is None:
            rich = r.chance(1, 2)
        d = 2 if rich else 6
        o = lambda f: self.opt(f, 1, d)
        return Eb(ext=o(self.ext), tooltip=o(self.text), description=o(self.text), display_name=o(self.text),
                  vis=o(lambda: r.choice(VIS)), docu_url=o(self.text), deprecated=o(self.bl), event=o(self.hl),
                  impl=o(self.ref), avail=o(self.ref), locked=o(self.ref), block=o(self.ref),
                  imposed=o(lambda: r.choice(ACC)), errors=self.many(self.ref) if rich else [], alias=o(self.ref),
                  cast=o(self.ref), invs=(self.many(self.ref) if invs and r.chance(1, 2) else []))

    def vk(self, lit):
        r = self.r
        k = r.below(5)
        if k <= 1:
            return Vk("value", lit())
        if k <= 3:
            return Vk("pvalue", self.many(self.ref), self.ref(), self.many(self.ref))
        return Vk("pindex", self.ref(), self.many(lambda: (self.il(), self.imm(lit)), 4), self.imm(lit))

    def mask(self):
        r = self.r
        if r.chance(1, 2):
            return Bitmask(bit=self.small())
        return Bitmask(lsb=self.small(), msb=self.small())

    def iswiss(self, name=None):
        r = self.r
        f = r.choice(FORMULAS)[0]
        return ISwiss(self.attr(name), self.ebase(invs=True), self.opt(self.bl),
                      self.many(lambda: (r.choice(["A", "B", "VAR_1"]), self.ref())),
                      self.many(lambda: (r.choice(["C", "K2"]), self.il())),
                      self.many(lambda: (r.choice(["E", "X1"]), r.choice(FORMULAS)[0])), f,
                      self.opt(self.text, 1, 3), self.opt(lambda: r.choice(IREP), 1, 3))

    def addr(self):
        r = self.r
        k = r.below(6)
        if k == 3 and getattr(self, "no_formula", False):
            k = 0
        if k <= 2:
            return Addr("addr", self.imm(self.il))
        if k == 3:
            return Addr("swiss", self.iswiss())
        return Addr("pindex", self.opt(lambda: self.imm(self.il)), self.ref())

    def rb(self):
        r = self.r
        return Rb(self.ebase(), self.opt(self.bl), self.many(self.addr), self.imm(lambda: self.il(0, 1 << 20)),
                  self.opt(lambda: r.choice(ACC)), r.choice(["Device", "Port_1"]), self.opt(lambda: r.choice(CACHE)),
                  self.opt(self.ul), self.many(self.ref))

    # -- nodes
    def node(self, kinds=None):
        r = self.r
        k = r.choice(kinds or KINDS)
        return getattr(self, "k_" + k)()

    def k_node(self):
        return Plain(self.attr(), self.ebase(invs=True))

    def k_category(self):
        return Category(self.attr(), self.ebase(invs=True), self.many(self.ref, 4))

    def k_integer(self):
        r = self.r
        oi = lambda: self.opt(lambda: self.imm(self.il))
        return Integer(self.attr(), self.ebase(invs=True), self.opt(self.bl), self.vk(self.il), oi(), oi(), oi(),
                       self.opt(self.text, 1, 3), self.opt(lambda: r.choice(IREP)), self.many(self.ref))

    def int_tail(self):
        r = self.r
        return (self.opt(lambda: r.choice(SIGN)), self.opt(lambda: r.choice(ENDIAN)), self.opt(self.text, 1, 3),
                self.opt(lambda: r.choice(IREP)), self.many(self.ref))

    def k_intreg(self):
        return IntReg(self.attr(), self.rb(), *self.int_tail())

    def k_masked(self):
        return MaskedIntReg(self.attr(), self.rb(), self.mask(), *self.int_tail())

    def k_struct(self):
        r = self.r
        rb = self.rb()
        entries = []
        for _ in range(r.choice([0, 1, 2, 2, 3, 4])):
            e = SEntry(self.attr(), self.ebase(invs=True), self.opt(lambda: r.choice(ACC)), self.opt(lambda: r.choice(CACHE)),
                       self.opt(self.ul), self.opt(self.bl), self.mask(), self.opt(lambda: r.choice(SIGN)),
                       self.opt(self.text, 1, 3), self.opt(lambda: r.choice(IREP)), self.many(self.ref))
            entries.append(e)
        s = StructReg(rb, self.opt(lambda: r.choice(ENDIAN)), entries)
        if not self.probe:
            # keep clear of the known limitation: an entry does not spell out a schema default that the
            # structure overrides (that combination is exercised by the dedicated probe family)
            for e in s.entries:
                if e.eb.vis == "Beginner" and rb.eb.vis not in (None, "Beginner"):
                    e.eb.vis = None
                if e.eb.imposed == "RW" and rb.eb.imposed not in (None, "RW"):
                    e.eb.imposed = None
                if e.access == "RO" and rb.access not in (None, "RO"):
                    e.access = None
                if e.cache == "WriteThrough" and rb.cache not in (None, "WriteThrough"):
                    e.cache = None
                if e.eb.deprecated is not None and not e.eb.deprecated.val and rb.eb.deprecated is not None and rb.eb.deprecated.val:
                    e.eb.deprecated = None
                if e.streamable is not None and not e.streamable.val and rb.streamable is not None and rb.streamable.val:
                    e.streamable = None
        return s

    def k_boolean(self):
        r = self.r
        v = self.imm(self.bl)
        return Boolean(self.attr(), self.ebase(invs=True), self.opt(self.bl), v, self.opt(self.il), self.opt(self.il),
                       self.many(self.ref))

    def k_command(self):
        return Command(self.attr(), self.ebase(invs=True), self.imm(self.il), self.imm(self.il), self.opt(self.ul))

    def k_enumeration(self):
        r = self.r
        entries = []
        for i in range(r.choice([0, 1, 2, 3, 5])):
            a = self.attr(r.choice(["On", "Off", "Mode%d" % i, "Entry_%d" % i, "X"]))
            entries.append(EnumEntry(a, self.ebase(invs=True, rich=False), self.il(), self.opt(self.fl, 1, 3),
                                     self.opt(self.bl, 1, 3)))
        return Enumeration(self.attr(), self.ebase(invs=True), self.opt(self.bl), entries, self.imm(self.il),
                           self.many(self.ref), self.opt(self.ul))

    def float_tail(self):
        r = self.r
        return (self.opt(self.text, 1, 3), self.opt(lambda: r.choice(FREP)), self.opt(lambda: r.choice(DNOT)),
                self.opt(lambda: self.il(-5, 400)))

    def k_float(self):
        of = lambda: self.opt(lambda: self.imm(self.fl))
        return Float(self.attr(), self.ebase(invs=True), self.opt(self.bl), self.vk(self.fl), of(), of(), of(),
                     *self.float_tail())

    def k_floatreg(self):
        r = self.r
        return FloatReg(self.attr(), self.rb(), self.opt(lambda: r.choice(ENDIAN)), *self.float_tail())

    def k_string(self):
        v = PN(self.ref()) if self.r.chance(1, 2) else Imm(self.text())
        return String(self.attr(), self.ebase(invs=True), self.opt(self.bl), v)

    def k_stringreg(self):
        return RegNode("StringReg", self.attr(), self.rb())

    def k_register(self):
        return RegNode("Register", self.attr(), self.rb())

    def k_iswiss(self):
        return self.iswiss()

    def k_port(self):
        return Port(self.attr(), self.ebase(invs=True), self.opt(lambda: self.imm(self.hl)), self.opt(self.bl),
                    self.opt(self.bl))

    def k_group(self):
        skip = ("group", "formula", "iswiss") if getattr(self, "no_formula", False) else ("group",)
        return Group([self.node([k for k in KINDS if k not in skip])
                      for _ in range(self.r.choice([0, 1, 2, 3]))])

    def k_formula(self):
        r = self.r
        tag = r.choice(["Converter", "IntConverter", "SwissKnife"])
        lit = self.il if tag == "IntConverter" else self.fl
        fs = [r.choice(FORMULAS)[0], r.choice(FORMULAS)[0]]
        rep = r.choice(IREP) if tag == "IntConverter" else r.choice(FREP)
        return FormulaNode(tag, self.attr(), self.ebase(invs=True), self.opt(self.bl),
                           self.many(lambda: (r.choice(["A", "B", "VAR_1"]), self.ref())),
                           self.many(lambda: (r.choice(["C", "K2"]), lit())),
                           self.many(lambda: (r.choice(["E", "X1"]), r.choice(FORMULAS)[0])), fs, self.ref(),
                           self.opt(self.text, 1, 3), self.opt(lambda: rep), self.opt(lambda: r.choice(DNOT)),
                           self.opt(lambda: self.il(-5, 400)),
                           self.opt(lambda: r.choice(["Increasing", "Decreasing", "Varying", "Automatic"])),
                           self.opt(self.bl))

    def doc(self, kinds=None):
        r = self.r
        self.n = 0
        nodes = [self.node(kinds) for _ in range(r.range(*self.sizes))]
        return Doc(nodes)


KINDS = ["node", "category", "integer", "intreg", "masked", "struct", "boolean", "command", "enumeration", "float",
         "floatreg", "string", "stringreg", "register", "iswiss", "port", "group", "formula"]
