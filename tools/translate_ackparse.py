#!/usr/bin/env python3
"""tools/translate_ackparse.py -- CODE translator for acknowledge / event packet DECODING (property C08):
device/src/u3v/protocol/ack.rs and event.rs -> coq/theories/gen/AckParseSrc.v, regenerated on every run.

What is translated (small recursive-descent parser for the subset of Rust these functions use, typed with inference for
`let x = cursor.read_bytes_le()?`, emitted as Gallina over lib/RustInt.v - debug-build integer semantics - and
model/CurOps.v - the cursor operations):

  * every struct / enum of the two files -> Records / Inductives; the trait ParseScd -> a record with the method `parse`,
    each `impl ParseScd for X` -> an instance; `scd_as<T: ParseScd>` -> a function taking the instance;
  * AckPacket::{parse, parse_prefix, scd_as, status, request_id, scd_kind}, AckCcd::parse and accessors, Status::{parse,
    parse_gencp_status, parse_usb_status, is_fatal, is_success}, ScdKind::parse, the five ParseScd::parse, and
    EventPacket::{parse, parse_prefix, request_id}, EventCcd::parse, EventScd::parse with its local fn read_and_seek
    (whatever these call is translated on demand).

Shapes:
    a `&mut Cursor<&[u8]>` parameter        the function takes the cursor and returns (value, cursor)
    cursor.read_bytes_le()?                 let? (x, cursor) := cur_read_le <size of the type of x> cursor   (type from the
                                            annotation or from how x is used later: struct field, comparison, push)
    cursor.seek(SeekFrom::Current(n))?      cur_seek_current n cursor
    &buf[a..b] / &buf[..b] / &buf[a..]      src_slice buf a b        (Panic outside the slice)
    a + b, a / b, a >> n, x as T            r_add / r_div / r_shr / r_cast   (Panic on overflow, shift amount, /0)
    a.checked_sub(b).ok_or_else(|| E)?      let? x := r_ok_or (r_checked_sub w a b) <class of E>
    E? , return Err(E), Err(E) in tail      Err <class>: leaves the function (and every caller: a Result that is not
                                            propagated by `?` or returned is a ShapeError)
    debug_assert!(c)                        if negb c then Panic else ..
    let mut v / v = e / v.push(e)           rebinding of the Gallina name; `if` / `match` with effects in their branches
                                            return the tuple of (value, variables they rebind)
    while V > 0 { .. }                      a Fixpoint over a fuel argument carrying the variables the body rebinds, called
                                            with fuel S (Z.to_nat V); out of fuel = Err E_FUEL (proofs/P_C08s.v: never)
The shape of impl/src/bytes_io.rs (read_bytes_le = read_exact of size_of::<T>() bytes + from_le_bytes) and of
u3v::Error (InvalidPacket, BufferIo(#[from] io::Error)) is pinned.

Anything outside the accepted shapes raises ShapeError (exit 3): the check reports the proof obligation as broken
instead of translating something else."""
import os
import re
import sys

VERIF = os.path.dirname(os.path.dirname(os.path.abspath(__file__)))
OUT = os.path.join(VERIF, "coq", "theories", "gen", "AckParseSrc.v")
BITS = {"u8": 8, "u16": 16, "u32": 32, "u64": 64, "usize": 64, "i32": 32, "i64": 64}
COQ_RESERVED = {"as", "at", "cofix", "else", "end", "exists", "exists2", "fix", "for", "forall", "fun", "if", "IF", "in",
                "let", "match", "mod", "Prop", "return", "Set", "then", "Type", "using", "where", "with", "by", "Z",
                "list", "nat", "bool", "Ok", "Err", "Panic", "bind", "zlen", "D", "T", "fst", "snd", "map", "app",
                "flat_map", "fold_left", "tt", "outcome", "unit", "rev", "length", "le_bytes", "of_le", "take", "drop",
                "cur", "fuel", "negb", "true", "false", "nil", "cons", "firstn", "skipn", "omap", "S", "O"}

# (file, owner, trait, name): translated first, in this order; their callees are translated on demand
WANT = [
    ("ack", "AckPacket", None, "parse"), ("ack", "AckPacket", None, "scd_as"), ("ack", "AckPacket", None, "status"),
    ("ack", "AckPacket", None, "request_id"), ("ack", "AckPacket", None, "scd_kind"),
    ("ack", "Status", None, "is_fatal"), ("ack", "Status", None, "is_success"),
    ("event", "EventPacket", None, "parse"), ("event", "EventPacket", None, "request_id"),
]
VIEWS = ["ReadMem", "WriteMem", "Pending", "ReadMemStacked", "WriteMemStacked"]
TRAIT = "ParseScd"


class ShapeError(Exception):
    pass


def strip_comments(s):
    s = re.sub(r"/\*.*?\*/", "", s, flags=re.S)
    return re.sub(r"//[^\n]*", "", s)


# ------------------------------------------------------------------------------------------------- tokens --
TOK = re.compile(r"""
    (?P<ws>\s+) |
    (?P<str>"(?:[^"\\]|\\.)*") |
    (?P<life>'[A-Za-z_][A-Za-z0-9_]*(?!')) |
    (?P<num>0x[0-9A-Fa-f_]+|0b[01_]+|\d[\d_]*(?:[iu](?:8|16|32|64|size))?) |
    (?P<id>[A-Za-z_][A-Za-z0-9_]*) |
    (?P<op>->|=>|==|!=|<=|>=|<<=|>>=|<<|>>|&&|\|\||\.\.=|\.\.|::|\+=|-=|\*=|/=|%=|\|=|&=|\^=|[(){}\[\]<>,;:.&|!+\-*/=?\#%^@$])
""", re.X)
NUM = re.compile(r"(0x[0-9A-Fa-f_]+?|0b[01_]+?|\d[\d_]*?)_?([iu](?:8|16|32|64|size))?$")


def tokenize(s):
    out, pos = [], 0
    while pos < len(s):
        m = TOK.match(s, pos)
        if not m:
            raise ShapeError("cannot tokenize %r" % s[pos:pos + 40])
        if m.lastgroup == "num":
            # hex literals swallow a suffix's letters only when they are hex digits: take the suffix apart by hand
            m2 = re.compile(r"(0x[0-9A-Fa-f_]+?|0b[01_]+|\d[\d_]*?)(_?[iu](?:8|16|32|64|size))?(?![A-Za-z0-9_])").match(s, pos)
            if not m2:
                raise ShapeError("numeric token not understood near %r" % s[pos:pos + 30])
            out.append(("num", m2.group(0)))
            pos = m2.end()
            continue
        pos = m.end()
        if m.lastgroup != "ws":
            out.append((m.lastgroup, m.group(0)))
    return out


def num_value(tok):
    m = NUM.match(tok)
    if not m:
        raise ShapeError("numeric literal %r" % tok)
    body = m.group(1).replace("_", "")
    if body.startswith("0x"):
        v = int(body[2:], 16)
    elif body.startswith("0b"):
        v = int(body[2:], 2)
    else:
        v = int(body, 10)
    return v, m.group(2)


class Toks:
    def __init__(self, toks, i=0, end=None):
        self.t, self.i, self.end = toks, i, len(toks) if end is None else end

    def eof(self):
        return self.i >= self.end

    def peek(self, k=0):
        return self.t[self.i + k][1] if self.i + k < self.end else None

    def kind(self, k=0):
        return self.t[self.i + k][0] if 0 <= self.i + k < self.end else None

    def eat(self, x=None):
        tok = self.peek()
        if tok is None or (x is not None and tok != x):
            raise ShapeError("expected %r, found %r near `%s`" % (x, tok, self.near()))
        self.i += 1
        return tok

    def near(self):
        return " ".join(t[1] for t in self.t[max(0, self.i - 8):min(self.end, self.i + 8)])

    def skip_balanced(self):
        op = self.eat()
        cl = {"(": ")", "[": "]", "{": "}"}[op]
        depth, start = 1, self.i
        while depth:
            tok = self.eat()
            if tok == op:
                depth += 1
            elif tok == cl:
                depth -= 1
        return start, self.i - 1

    def skip_angles(self):
        self.eat("<")
        depth, out = 1, []
        while depth:
            tok = self.eat()
            if tok == "<":
                depth += 1
            elif tok == ">":
                depth -= 1
            elif tok == ">>":
                depth -= 2
                if depth < 0:
                    raise ShapeError("unbalanced `>>` near `%s`" % self.near())
            if depth:
                out.append(tok)
        return out


DEPTH = {"<": 1, ">": -1, ">>": -2, "(": 1, ")": -1, "[": 1, "]": -1}


# --------------------------------------------------------------------------------------------------- items --
class Fn:
    def __init__(self, file, owner, trait, name):
        self.file, self.owner, self.trait, self.name = file, owner, trait, name
        self.generics, self.params, self.ret, self.body = [], [], None, None
        self.in_trait_decl = False
        self.parent = None          # enclosing function of a local fn

    @property
    def key(self):
        return (self.file, self.owner, self.trait, self.name)

    def label(self):
        o = self.owner or ""
        if self.parent is not None:
            return "%s / fn %s" % (self.parent.label(), self.name)
        if self.trait and self.owner:
            return "<%s as %s>::%s" % (self.owner, self.trait, self.name)
        return (o + "::" if o else "") + self.name


class Source:
    """the items of one file"""

    def __init__(self, file, text):
        self.file = file
        self.toks = tokenize(strip_comments(text))
        self.structs, self.enums, self.consts, self.fns = {}, {}, {}, {}
        self.order = []             # struct / enum names in source order
        self.trait_methods = {}
        self.impls = []
        self.parse_items(Toks(self.toks), None, None, False)

    def attrs_vis(self, t):
        attrs = []
        while True:
            if t.peek() == "#":
                t.eat("#")
                if t.peek() == "!":
                    t.eat("!")
                if t.peek() != "[":
                    raise ShapeError("attribute near `%s`" % t.near())
                s, e = t.skip_balanced()
                attrs.append("".join(x[1] for x in self.toks[s:e]))
            elif t.peek() == "pub":
                t.eat("pub")
                if t.peek() == "(":
                    t.skip_balanced()
            else:
                return attrs

    def parse_items(self, t, owner, trait, in_trait_decl):
        while not t.eof():
            attrs = self.attrs_vis(t)
            if t.eof():
                break
            kw = t.peek()
            if kw == "use" and owner is None and not in_trait_decl:
                while t.eat() != ";":
                    pass
            elif kw == "mod" and owner is None:
                if "cfg(test)" not in attrs:
                    raise ShapeError("%s.rs: a module that is not #[cfg(test)]" % self.file)
                t.eat("mod")
                t.eat()
                t.skip_balanced()
            elif kw == "struct" and owner is None:
                self.parse_struct(t)
            elif kw == "enum" and owner is None:
                self.parse_enum(t)
            elif kw == "impl" and owner is None:
                self.parse_impl(t)
            elif kw == "trait" and owner is None:
                self.parse_trait(t)
            elif kw == "const" and t.peek(1) != "fn":
                t.eat("const")
                name = t.eat()
                t.eat(":")
                ty = []
                while t.peek() != "=":
                    ty.append(t.eat())
                t.eat("=")
                s = t.i
                while t.peek() != ";":
                    t.eat()
                if (owner, name) in self.consts:
                    raise ShapeError("constant %s::%s defined twice" % (owner, name))
                self.consts[(owner, name)] = (ty, (s, t.i))
                t.eat(";")
            elif kw == "fn":
                self.parse_fn(t, owner, trait, in_trait_decl, None)
            else:
                raise ShapeError("%s.rs: item the translator does not know: `%s`" % (self.file, t.near()))

    def parse_struct(self, t):
        t.eat("struct")
        name = t.eat()
        if t.peek() == "<":
            g = t.skip_angles()
            if [x for x in g if x != "," and not x.startswith("'")]:
                raise ShapeError("struct %s has type parameters" % name)
        if t.peek() != "{":
            raise ShapeError("struct %s is not a struct with named fields" % name)
        s, e = t.skip_balanced()
        ft = Toks(self.toks, s, e)
        fields = []
        while not ft.eof():
            self.attrs_vis(ft)
            if ft.eof():
                break
            fname = ft.eat()
            ft.eat(":")
            ty, depth = [], 0
            while not ft.eof() and not (ft.peek() == "," and depth == 0):
                tok = ft.eat()
                depth += DEPTH.get(tok, 0)
                ty.append(tok)
            if not ft.eof():
                ft.eat(",")
            if fname in [f for f, _ in fields]:
                raise ShapeError("field %s.%s twice" % (name, fname))
            fields.append((fname, ty))
        if name in self.structs or name in self.enums:
            raise ShapeError("type %s defined twice" % name)
        self.structs[name] = fields
        self.order.append(name)

    def parse_enum(self, t):
        t.eat("enum")
        name = t.eat()
        if t.peek() != "{":
            raise ShapeError("enum %s has generics" % name)
        s, e = t.skip_balanced()
        et = Toks(self.toks, s, e)
        vs = []
        while not et.eof():
            self.attrs_vis(et)
            if et.eof():
                break
            v = et.eat()
            payload = None
            if et.peek() == "(":
                ps, pe = et.skip_balanced()
                payload = [x[1] for x in self.toks[ps:pe]]
                if "," in payload:
                    raise ShapeError("enum %s::%s has several fields" % (name, v))
            if not et.eof():
                if et.peek() != ",":
                    raise ShapeError("enum %s: variant syntax near `%s`" % (name, et.near()))
                et.eat(",")
            vs.append((v, payload))
        if name in self.structs or name in self.enums:
            raise ShapeError("type %s defined twice" % name)
        self.enums[name] = vs
        self.order.append(name)

    def parse_impl(self, t):
        t.eat("impl")
        gen = t.skip_angles() if t.peek() == "<" else []
        if [g for g in gen if g != "," and not g.startswith("'")]:
            raise ShapeError("impl with type parameters near `%s`" % t.near())
        head = []
        while t.peek() not in ("{", "where"):
            if t.peek() == "<":
                t.skip_angles()
            else:
                head.append(t.eat())
        if t.peek() == "where":
            raise ShapeError("impl with a where clause")
        trait = None
        if "for" in head:
            k = head.index("for")
            trait = "::".join(x for x in head[:k] if x != "::")
            head = head[k + 1:]
        if len(head) != 1:
            raise ShapeError("impl header near `%s`" % t.near())
        owner = head[0]
        s, e = t.skip_balanced()
        self.impls.append((owner, trait))
        self.parse_items(Toks(self.toks, s, e), owner, trait, False)

    def parse_trait(self, t):
        t.eat("trait")
        name = t.eat()
        while t.peek() != "{":
            t.eat()
        s, e = t.skip_balanced()
        self.trait_methods[name] = []
        self.parse_items(Toks(self.toks, s, e), None, name, True)

    def parse_fn(self, t, owner, trait, in_trait_decl, parent):
        t.eat("fn")
        f = Fn(self.file, owner, trait, t.eat())
        f.in_trait_decl, f.parent = in_trait_decl, parent
        if t.peek() == "<":
            f.generics = t.skip_angles()
        if t.peek() != "(":
            raise ShapeError("fn %s: parameter list" % f.name)
        s, e = t.skip_balanced()
        pt = Toks(self.toks, s, e)
        cur, depth = [], 0
        while not pt.eof():
            tok = pt.eat()
            if tok == "," and depth == 0:
                f.params.append(cur)
                cur = []
                continue
            depth += DEPTH.get(tok, 0)
            cur.append(tok)
        if cur:
            f.params.append(cur)
        if t.peek() == "->":
            t.eat("->")
            f.ret, depth = [], 0
            while not (depth == 0 and t.peek() in ("{", ";", "where")):
                tok = t.eat()
                depth += DEPTH.get(tok, 0)
                f.ret.append(tok)
        if t.peek() == "where":
            raise ShapeError("fn %s has a where clause" % f.label())
        if t.peek() == ";":
            t.eat(";")
        else:
            f.body = t.skip_balanced()
        if parent is not None:
            return f
        if in_trait_decl:
            self.trait_methods[trait].append(f)
        else:
            if f.key in self.fns:
                raise ShapeError("function %s defined twice" % f.label())
            self.fns[f.key] = f
        return f


# ------------------------------------------------------------------------------------------ expression AST --
class Parser:
    """statements and expressions of a function body (token range of a Source)"""

    def __init__(self, src, s, e, fn):
        self.src, self.t, self.fn = src, Toks(src.toks, s, e), fn
        self.local_fns = {}
        self.uses = []              # `use` paths seen in the body

    def ident(self):
        tok = self.t.eat()
        if self.t.kind(-1) != "id":
            raise ShapeError("identifier expected, found `%s` near `%s`" % (tok, self.t.near()))
        return tok

    def type_until(self, stops):
        ty, depth = [], 0
        while not (depth == 0 and self.t.peek() in stops):
            tok = self.t.eat()
            depth += DEPTH.get(tok, 0)
            ty.append(tok)
        return ty

    def block_body(self):
        """statements up to the closing brace / end of the range"""
        t, out = self.t, []
        while not t.eof() and t.peek() != "}":
            kw = t.peek()
            if kw == ";":
                t.eat(";")
                continue
            if kw == "use":
                t.eat("use")
                p = []
                while t.peek() != ";":
                    p.append(t.eat())
                t.eat(";")
                self.uses.append(p)
                continue
            if kw == "fn":
                f = self.src.parse_fn(t, None, None, False, self.fn)
                if f.name in self.local_fns:
                    raise ShapeError("local fn %s twice" % f.name)
                self.local_fns[f.name] = f
                continue
            if kw == "let":
                t.eat("let")
                mut = False
                if t.peek() == "mut":
                    t.eat("mut")
                    mut = True
                name = self.ident()
                ty = None
                if t.peek() == ":":
                    t.eat(":")
                    ty = self.type_until(("=",))
                t.eat("=")
                e = self.expr()
                t.eat(";")
                out.append(("let", name, mut, ty, e))
                continue
            if kw == "while":
                t.eat("while")
                c = self.expr(nostruct=True)
                t.eat("{")
                body = self.block_body()
                t.eat("}")
                out.append(("while", c, body))
                continue
            if kw in ("for", "loop", "break", "continue", "unsafe", "static", "const", "struct", "enum", "impl", "mod"):
                raise ShapeError("statement `%s` near `%s`" % (kw, t.near()))
            if kw == "debug_assert" and t.peek(1) == "!":
                t.eat()
                t.eat("!")
                t.eat("(")
                c = self.expr()
                t.eat(")")
                t.eat(";")
                out.append(("dassert", c))
                continue
            e = self.expr()
            if t.peek() == "=":
                t.eat("=")
                r = self.expr()
                t.eat(";")
                if e[0] != "path" or len(e[1]) != 1:
                    raise ShapeError("assignment to something other than a local near `%s`" % t.near())
                out.append(("assign", e[1][0], r))
                continue
            if t.peek() in ("+=", "-=", "*=", "/=", "%=", "|=", "&=", "^=", "<<=", ">>="):
                raise ShapeError("compound assignment near `%s`" % t.near())
            if t.peek() == ";":
                t.eat(";")
                out.append(("expr", e))
                continue
            if t.eof() or t.peek() == "}":
                out.append(("tail", e))
                break
            if e[0] in ("if", "match"):      # block-like expression statement without `;`
                out.append(("expr", e))
                continue
            raise ShapeError("statement near `%s`" % t.near())
        return out

    LEVELS = [["||"], ["&&"], ["==", "!=", "<", ">", "<=", ">="], ["|"], ["^"], ["&"], ["<<", ">>"], ["+", "-"],
              ["*", "/", "%"]]

    def expr(self, lvl=0, nostruct=False):
        if lvl == len(self.LEVELS):
            return self.cast(nostruct)
        e = self.expr(lvl + 1, nostruct)
        while self.t.peek() in self.LEVELS[lvl]:
            op = self.t.eat()
            r = self.expr(lvl + 1, nostruct)
            e = ("bin", op, e, r)
            if lvl == 2:
                if self.t.peek() in self.LEVELS[2]:
                    raise ShapeError("chained comparison near `%s`" % self.t.near())
                break
        return e

    def cast(self, nostruct):
        e = self.unary(nostruct)
        while self.t.peek() == "as":
            self.t.eat("as")
            ty = self.t.eat()
            if ty not in BITS:
                raise ShapeError("cast to `%s`" % ty)
            e = ("as", e, ty)
        return e

    def unary(self, nostruct):
        t = self.t
        if t.peek() == "&":
            t.eat("&")
            if t.peek() == "mut":
                t.eat("mut")
                return ("refmut", self.unary(nostruct))
            return ("ref", self.unary(nostruct))
        if t.peek() == "!":
            t.eat("!")
            return ("not", self.unary(nostruct))
        if t.peek() in ("-", "*", "&&"):
            raise ShapeError("unary `%s` near `%s`" % (t.peek(), t.near()))
        return self.postfix(nostruct)

    def args(self, close=")"):
        t = self.t
        out = []
        while t.peek() != close:
            out.append(self.expr())
            if t.peek() == ",":
                t.eat(",")
            elif t.peek() != close:
                raise ShapeError("argument list near `%s`" % t.near())
        t.eat(close)
        return out

    def postfix(self, nostruct):
        t = self.t
        e = self.atom(nostruct)
        while True:
            if t.peek() == ".":
                t.eat(".")
                name = self.ident()
                if t.peek() == "::":
                    raise ShapeError("turbofish on a method near `%s`" % t.near())
                if t.peek() == "(":
                    t.eat("(")
                    e = ("mcall", e, name, self.args())
                else:
                    e = ("field", e, name)
            elif t.peek() == "?":
                t.eat("?")
                e = ("try", e)
            elif t.peek() == "[":
                t.eat("[")
                lo = hi = None
                if t.peek() != "..":
                    lo = self.expr()
                if t.peek() != "..":
                    raise ShapeError("index that is not a range near `%s`" % t.near())
                t.eat("..")
                if t.peek() != "]":
                    hi = self.expr()
                t.eat("]")
                e = ("index", e, lo, hi)
            elif t.peek() == "(":
                raise ShapeError("call of an expression near `%s`" % t.near())
            else:
                return e

    def block_expr(self):
        self.t.eat("{")
        b = self.block_body()
        self.t.eat("}")
        return ("block", b)

    def pattern(self):
        """literal | _ | path | path(pattern)"""
        t = self.t
        if t.kind() == "num":
            v, sfx = num_value(t.eat())
            if t.peek() in ("..", "..="):
                raise ShapeError("range pattern near `%s`" % t.near())
            return ("plit", v, sfx)
        if t.peek() == "_":
            t.eat("_")
            return ("wild",)
        p = self.path()
        if t.peek() == "(":
            t.eat("(")
            inner = self.pattern()
            t.eat(")")
            return ("pctor", p, inner)
        if t.peek() == "{":
            raise ShapeError("struct pattern near `%s`" % t.near())
        return ("ppath", p)

    def atom(self, nostruct):
        t = self.t
        kind, tok = t.kind(), t.eat()
        if tok == "(":
            if t.peek() == ")":
                t.eat(")")
                return ("unit",)
            e = self.expr()
            t.eat(")")
            return ("paren", e)
        if tok == "{":
            t.i -= 1
            return self.block_expr()
        if kind == "num":
            v, sfx = num_value(tok)
            return ("lit", v, sfx)
        if kind == "str":
            return ("str", tok)
        if tok == "||":
            if t.peek() == "{":
                b = self.block_expr()
                if len(b[1]) != 1 or b[1][0][0] != "tail":
                    raise ShapeError("closure with a block of statements near `%s`" % t.near())
                return ("closure", b[1][0][1])
            return ("closure", self.expr())
        if tok == "|":
            raise ShapeError("closure with parameters near `%s`" % t.near())
        if tok == "if":
            if t.peek() == "let":
                raise ShapeError("if let")
            c = self.expr(nostruct=True)
            a = self.block_expr()
            b = None
            if t.peek() == "else":
                t.eat("else")
                if t.peek() == "if":
                    b = ("block", [("tail", self.atom(False))])
                else:
                    b = self.block_expr()
            return ("if", c, a, b)
        if tok == "match":
            s = self.expr(nostruct=True)
            t.eat("{")
            arms = []
            while t.peek() != "}":
                pats = [self.pattern()]
                while t.peek() == "|":
                    t.eat("|")
                    pats.append(self.pattern())
                if t.peek() == "if":
                    raise ShapeError("match guard near `%s`" % t.near())
                t.eat("=>")
                b = self.expr()
                if t.peek() == ",":
                    t.eat(",")
                elif t.peek() != "}" and b[0] != "block":
                    raise ShapeError("match arm near `%s`" % t.near())
                arms.append((pats, b))
            t.eat("}")
            return ("match", s, arms)
        if tok == "return":
            if t.peek() in (";", "}", ",", None):
                raise ShapeError("return without a value")
            return ("return", self.expr())
        if kind == "id":
            if tok in ("loop", "while", "unsafe", "move", "break", "mut", "let", "for", "continue", "fn", "ref"):
                raise ShapeError("`%s` in expression position near `%s`" % (tok, t.near()))
            t.i -= 1
            p = self.path()
            if t.peek() == "!":
                t.eat("!")
                if t.peek() not in ("(", "[", "{"):
                    raise ShapeError("macro call near `%s`" % t.near())
                close = {"(": ")", "[": "]", "{": "}"}[t.eat()]
                name = "::".join(p)
                if name == "matches":
                    s = self.expr()
                    t.eat(",")
                    pat = self.pattern()
                    if t.peek() in ("if", "|"):
                        raise ShapeError("matches! with a guard / or-pattern")
                    t.eat(close)
                    return ("matches", s, pat)
                return ("macro", name, self.args(close))
            if t.peek() == "(":
                t.eat("(")
                a = self.args()
                if p == ["Ok"] or p == ["Err"]:
                    if len(a) != 1:
                        raise ShapeError("%s with %d arguments" % (p[0], len(a)))
                    return (p[0].lower(), a[0])
                return ("call", p, a)
            if t.peek() == "{" and not nostruct and (p == ["Self"] or (len(p) == 1 and p[0][0].isupper())):
                t.eat("{")
                fs = []
                while t.peek() != "}":
                    if t.peek() == "..":
                        raise ShapeError("struct update syntax near `%s`" % t.near())
                    fname = self.ident()
                    if t.peek() == ":":
                        t.eat(":")
                        fs.append((fname, self.expr()))
                    else:
                        fs.append((fname, ("path", [fname])))
                    if t.peek() == ",":
                        t.eat(",")
                    elif t.peek() != "}":
                        raise ShapeError("struct literal near `%s`" % t.near())
                t.eat("}")
                return ("struct", p[0], fs)
            return ("path", p)
        raise ShapeError("unexpected `%s` near `%s`" % (tok, t.near()))

    def path(self):
        t = self.t
        if t.kind() != "id":
            raise ShapeError("path expected near `%s`" % t.near())
        p = [t.eat()]
        while t.peek() == "::":
            t.eat("::")
            if t.peek() == "<":
                raise ShapeError("turbofish near `%s`" % t.near())
            if t.kind() != "id":
                raise ShapeError("path near `%s`" % t.near())
            p.append(t.eat())
        return p


# ---------------------------------------------------------------------------------------------------- types --
class TVar:
    n = 0

    def __init__(self):
        TVar.n += 1
        self.id, self.ref = TVar.n, None


def INT(n):
    return ("int", n)


LIT, BOOL, UNIT, SLICE, CUR, DUR, NEVER, TPARAM, ASREF = ("lit",), ("bool",), ("unit",), ("slice",), ("cur",), ("dur",), \
    ("never",), ("tparam",), ("asref",)


def prune(t):
    while isinstance(t, TVar) and t.ref is not None:
        t = t.ref
    if isinstance(t, tuple) and t and t[0] in ("vec", "option"):
        return (t[0], prune(t[1]))
    if isinstance(t, tuple) and t and t[0] == "result":
        return ("result", prune(t[1]), t[2])
    return t


def show(ty):
    ty = prune(ty)
    if isinstance(ty, TVar):
        return "?%d" % ty.id
    k = ty[0]
    if k == "int":
        return ty[1]
    if k in ("struct", "enum"):
        return ty[1]
    if k in ("vec", "option"):
        return "%s<%s>" % (k, show(ty[1]))
    if k == "result":
        return "%s::Result<%s>" % (ty[2], show(ty[1]))
    return k


def unify(a, b, what):
    """make the two types equal (binding type variables); an untyped integer literal takes any integer type"""
    a, b = prune(a), prune(b)
    if a is b or a == b:
        return a
    if a == NEVER:
        return b
    if b == NEVER:
        return a
    if isinstance(a, TVar):
        if b == LIT:
            raise ShapeError("%s: the type of an integer literal is not determined" % what)
        a.ref = b
        return b
    if isinstance(b, TVar):
        return unify(b, a, what)
    if a == LIT and b[0] == "int":
        return b
    if b == LIT and a[0] == "int":
        return a
    if a[0] == b[0] and a[0] in ("vec", "option"):
        return (a[0], unify(a[1], b[1], what))
    if a[0] == b[0] == "result" and a[2] == b[2]:
        return ("result", unify(a[1], b[1], what), a[2])
    raise ShapeError("%s: %s where %s is expected" % (what, show(a), show(b)))


def width(ty, what="integer operation"):
    ty = prune(ty)
    if isinstance(ty, TVar):
        return "\x00W%d\x00" % ty.id
    if ty[0] != "int":
        raise ShapeError("%s at type %s" % (what, show(ty)))
    return str(BITS[ty[1]])


def nbytes(ty, what):
    ty = prune(ty)
    if isinstance(ty, TVar):
        return "\x00B%d\x00" % ty.id
    if ty[0] != "int":
        raise ShapeError("%s at type %s" % (what, show(ty)))
    return str(BITS[ty[1]] // 8)


def coq_type(ty):
    ty = prune(ty)
    if isinstance(ty, TVar):
        return "\x00T%d\x00" % ty.id
    k = ty[0]
    if k in ("int", "dur"):
        return "Z"
    if k == "bool":
        return "bool"
    if k == "unit":
        return "unit"
    if k in ("slice", "asref"):
        return "(list Z)"
    if k == "cur":
        return "cur"
    if k == "tparam":
        return "T"
    if k in ("struct", "enum"):
        return "src_" + ty[1]
    if k == "vec":
        return "(list %s)" % coq_type(ty[1])
    if k == "option":
        return "(option %s)" % coq_type(ty[1])
    raise ShapeError("no Gallina type for %s" % show(ty))


def cname(n):
    if re.fullmatch(r"t\d+_", n) or n.startswith("src_") or n.startswith("r_") or n.startswith("cur_"):
        raise ShapeError("identifier `%s` collides with the translator's names" % n)
    if n in COQ_RESERVED or not re.fullmatch(r"[a-z_][a-z0-9_]*", n) or n == "_":
        return n + "_v"
    return n


class Var:
    n = 0

    def __init__(self, coq, ty, mutable=False, inout=False):
        Var.n += 1
        self.idx, self.coq, self.ty, self.mutable, self.inout = Var.n, coq, ty, mutable, inout


class Sig:
    def __init__(self, coq, params, ret, kind, outcome, generic):
        # params: [(name, type, inout)]; kind: None | 'u3v' | 'io' (Result); outcome: the Gallina function returns an outcome
        self.coq, self.params, self.ret, self.kind, self.outcome, self.generic = coq, params, ret, kind, outcome, generic

    @property
    def inouts(self):
        return [p for p in self.params if p[2]]


def render(binds, final):
    """the let-chain; `let? x := T in Ok x` is T"""
    binds = list(binds)
    if binds and binds[-1][0] == "bind" and final == "Ok " + binds[-1][1]:
        final = binds.pop()[2]
    out = final
    for b in reversed(binds):
        if b[0] == "let":
            out = "let %s := %s in\n%s" % (b[1], b[2], out)
        elif b[0] == "bind":
            out = "let? %s := %s in\n%s" % (b[1], b[2], out)
        elif b[0] == "guard":
            out = "if %s then %s else\n%s" % (b[1], b[2], out)
        else:
            raise AssertionError(b)
    return out


def indent(s, n=2):
    return "\n".join(" " * n + l for l in s.split("\n"))


def tup(items):
    if not items:
        return "tt"
    return items[0] if len(items) == 1 else "(" + ", ".join(items) + ")"


def atomic(term):
    """the term, parenthesised unless it is an identifier / record / already enclosed in matching parentheses"""
    if re.fullmatch(r"[A-Za-z0-9_.'\x00]+", term) or term.startswith("{|"):
        return term
    if term.startswith("(") and term.endswith(")"):
        depth = 0
        for i, ch in enumerate(term):
            depth += {"(": 1, ")": -1}.get(ch, 0)
            if depth == 0 and i < len(term) - 1:
                break
        else:
            return term
    return "(" + term + ")"


class Chain:
    def __init__(self):
        self.binds, self.exit = [], None


# ------------------------------------------------------------------------------------------------- compiler --
class Compiler:
    def __init__(self, sources):
        self.sources = sources                  # file -> Source
        self.types = {}                         # type name -> (file, 'struct' | 'enum')
        for file, src in sources.items():
            for n in src.order:
                if n in self.types:
                    raise ShapeError("type %s defined in both files" % n)
                self.types[n] = (file, "struct" if n in src.structs else "enum")
        self.out, self.names, self.sigs, self.in_progress = [], [], {}, set()
        self.consts = {}
        self.n = 0
        self.tvars = {}
        self.local_fns = {}                     # (parent key, name) -> Fn
        self.instances = []
        ack = sources["ack"]
        if TRAIT not in ack.trait_methods or [m.name for m in ack.trait_methods[TRAIT]] != ["parse"]:
            raise ShapeError("trait %s with the single method `parse` not found" % TRAIT)
        have = sorted(o for o, tr in ack.impls if tr == TRAIT)
        if have != sorted(VIEWS):
            raise ShapeError("%s is implemented for %r, the translator expects exactly %r" % (TRAIT, have, sorted(VIEWS)))
        for o in VIEWS:
            extra = [k[3] for k in ack.fns if k[1] == o and k[2] == TRAIT and k[3] != "parse"]
            if extra or ("ack", o, TRAIT, "parse") not in ack.fns:
                raise ShapeError("impl %s for %s: methods" % (TRAIT, o))
        for file, src in sources.items():
            for o, tr in src.impls:
                if tr is not None and tr != TRAIT:
                    raise ShapeError("%s.rs: impl of the trait %s for %s" % (file, tr, o))
                if o not in self.types:
                    raise ShapeError("%s.rs: impl for the unknown type %s" % (file, o))

    def fresh(self):
        self.n += 1
        return "t%d_" % self.n

    def tvar(self):
        v = TVar()
        self.tvars[v.id] = v
        return v

    # ---- types ------------------------------------------------------------------------------------------------
    def named(self, n):
        if n in self.types:
            return (self.types[n][1], n)
        return None

    def ptype(self, s, self_ty, generic):
        """type from its text without blanks and lifetimes"""
        while s.startswith("&"):
            s = s[1:]
        if s == "()":
            return UNIT
        if s == "[u8]":
            return SLICE
        if s in ("Cursor<&[u8]>", "io::Cursor<&[u8]>"):
            return CUR
        if s == "(implAsRef<[u8]>+?Sized)":
            return ASREF
        if s in BITS:
            return INT(s)
        if s == "bool":
            return BOOL
        if s in ("time::Duration", "Duration"):
            return DUR
        if s == "Self":
            if self_ty is None:
                raise ShapeError("`Self` outside an impl")
            return self_ty
        if s == "T" and generic:
            return TPARAM
        m = re.fullmatch(r"(Vec|Option|Result|io::Result)<(.*)>", s)
        if m:
            inner = self.ptype(m.group(2), self_ty, generic)
            if m.group(1) == "Vec":
                return ("vec", inner)
            if m.group(1) == "Option":
                return ("option", inner)
            return ("result", inner, "io" if m.group(1) == "io::Result" else "u3v")
        t = self.named(s)
        if t:
            return t
        raise ShapeError("type `%s`" % s)

    def parse_type(self, toks, self_ty, generic=False):
        t = [x for x in toks if not x.startswith("'")]
        while t and t[0] in ("&", "mut"):
            t = t[1:]
        return self.ptype("".join(t).replace("<>", ""), self_ty, generic)

    def fields(self, sname):
        file = self.types[sname][0]
        return [(f, self.parse_type(ty, None)) for f, ty in self.sources[file].structs[sname]]

    def variants(self, ename):
        file = self.types[ename][0]
        return [(v, None if p is None else self.parse_type(p, None)) for v, p in self.sources[file].enums[ename]]

    def const(self, file, owner, name):
        key = (file, owner, name)
        if key not in self.consts:
            src = self.sources[file]
            ty_toks, (s, e) = src.consts[(owner, name)]
            ty = self.parse_type(ty_toks, None)
            toks = src.toks[s:e]
            if len(toks) != 1 or toks[0][0] != "num" or ty[0] != "int":
                raise ShapeError("constant %s::%s is not an integer literal" % (owner, name))
            v, sfx = num_value(toks[0][1])
            if (sfx and sfx != ty[1]) or not 0 <= v < 2 ** BITS[ty[1]]:
                raise ShapeError("constant %s::%s does not fit its type" % (owner, name))
            coq = "src_%s_%s" % (owner, name)
            self.out.append("Definition %s : Z := %d." % (coq, v))
            self.names.append(coq)
            self.consts[key] = (coq, ty)
        return self.consts[key]

    # ---- functions ----------------------------------------------------------------------------------------------
    def coq_name(self, f):
        if f.parent is not None:
            return "%s_%s" % (self.coq_name(f.parent), f.name)
        if f.trait:
            return "src_%s_as_%s_%s" % (f.owner, f.trait, f.name)
        if f.owner is None:
            return "src_fn_%s" % f.name
        return "src_%s_%s" % (f.owner, f.name)

    def sig(self, f):
        key = f.key if f.parent is None else (f.parent.key, f.name)
        if key in self.sigs:
            return self.sigs[key]
        if key in self.in_progress:
            raise ShapeError("recursion through %s" % f.label())
        self.in_progress.add(key)
        s = FnCompiler(self, f).run()
        self.in_progress.discard(key)
        self.sigs[key] = s
        return s

    def lookup(self, file, owner, name):
        f = self.sources[file].fns.get((file, owner, None, name))
        if f is None and owner in self.types and self.types[owner][0] != file:
            f = self.sources[self.types[owner][0]].fns.get((self.types[owner][0], owner, None, name))
        return f

    def finalize(self, text):
        def sub(m):
            v = prune(self.tvars[int(m.group(2))])
            if isinstance(v, TVar):
                raise ShapeError("a type could not be inferred (type variable ?%s)" % m.group(2))
            if m.group(1) == "T":
                return coq_type(v)
            if v[0] != "int":
                raise ShapeError("integer operation at type %s" % show(v))
            return str(BITS[v[1]] if m.group(1) == "W" else BITS[v[1]] // 8)
        prev = None
        while prev != text:
            prev, text = text, re.sub("\x00([WBT])(\\d+)\x00", sub, text)
        return text


class FnCompiler:
    def __init__(self, comp, f):
        self.c, self.f = comp, f
        self.src = comp.sources[f.file]
        self.env, self.chain, self.frames = {}, Chain(), []
        self.kind, self.ret, self.generic = None, None, False
        self.pending, self.nloops, self.plain_depth = [], 0, 0
        self.variants_in_scope = {}
        self.parser = None
        self.coq = comp.coq_name(f)

    # ---- bookkeeping ----
    def emit(self, kind, pat, term):
        if self.chain.exit is not None:
            raise ShapeError("%s: unreachable code" % self.f.label())
        self.chain.binds.append((kind, pat, term))

    def exit(self, term):
        if self.chain.exit is not None:
            raise ShapeError("%s: unreachable code" % self.f.label())
        self.chain.exit = term

    def rebind(self, var):
        for fr in self.frames:
            fr.setdefault(var)          # insertion-ordered: variables in the order the code first rebinds them

    def err(self, msg):
        return ShapeError("%s: %s" % (self.f.label(), msg))

    def check_kind(self, k, res):
        if res is None:
            raise self.err("a Result that is neither propagated with `?` nor returned")
        if self.kind is None:
            raise self.err("`?` / Err in a function that does not return a Result")
        if k == self.kind or (res == "try" and k == "io" and self.kind == "u3v"):
            return
        raise self.err("an %s error in a function returning %s::Result" % (k, self.kind))

    # ---- header ----
    def self_type(self):
        f = self.f
        if f.in_trait_decl:
            return TPARAM
        if f.parent is not None or f.owner is None:
            return None
        t = self.c.named(f.owner)
        if t is None:
            raise self.err("impl of an unknown type")
        return t

    def header(self):
        f = self.f
        g = [x for x in f.generics if x != "," and not x.startswith("'")]
        if g:
            if [x for x in g if x not in ("<", ">")] != ["T", ":", TRAIT]:
                raise self.err("generic parameters %r" % (f.generics,))
            self.generic = True
        sty = self.self_type()
        params = []
        for i, p in enumerate(f.params):
            q = [x for x in p if not x.startswith("'")]
            if q in (["self"], ["&", "self"]):
                if i != 0 or sty is None:
                    raise self.err("receiver")
                params.append(("self", sty, False))
                continue
            if "self" in q or q[0] == "mut" or len(q) < 3 or q[1] != ":":
                raise self.err("parameter `%s`" % " ".join(p))
            ty = self.c.parse_type(q[2:], sty, self.generic)
            inout = q[2:4] == ["&", "mut"]
            if inout and ty != CUR:
                raise self.err("`&mut` parameter that is not a cursor")
            if ty == CUR and not inout:
                raise self.err("cursor parameter that is not `&mut`")
            params.append((q[0], ty, inout))
        ret = UNIT if f.ret is None else self.c.parse_type(f.ret, sty, self.generic)
        if ret[0] == "result":
            self.kind, ret = ret[2], ret[1]
        self.ret = ret
        return params

    # ---- driver ----
    def run(self):
        f = self.f
        params = self.header()
        if f.body is None:
            raise self.err("no body")
        for name, ty, inout in params:
            self.env[name] = Var(cname(name), ty, mutable=inout, inout=inout)
        self.parser = Parser(self.src, f.body[0], f.body[1], f)
        body = self.parser.block_body()
        if not self.parser.t.eof():
            raise self.err("trailing tokens in the body")
        for name, lf in self.parser.local_fns.items():
            self.c.local_fns[(f.key if f.parent is None else (f.parent.key, f.name), name)] = lf
        for u in self.parser.uses:
            self.use(u)
        term, ty = self.stmts(body, self.ret, "tail" if self.kind else None)
        if self.chain.exit is None:
            unify(ty, self.ret, "%s: value of the body" % f.label())
        inouts = [self.env[p[0]] for p in params if p[2]]
        outcome = self.kind is not None or self.chain.exit is not None or \
            any(b[0] in ("bind", "guard") for b in self.chain.binds)
        if self.chain.exit is not None:
            final = self.chain.exit
        else:
            val = tup([term] + [v.coq for v in inouts])
            final = "Ok " + atomic(val) if outcome else val
        text = render(self.chain.binds, final)
        rty = coq_type(self.ret)
        if inouts:
            rty = "(" + " * ".join([rty] + ["cur"] * len(inouts)) + ")"
        if outcome:
            rty = "outcome " + rty
        ps = "".join(" (%s : %s)" % (cname(n), coq_type(t)) for n, t, _ in params)
        if self.generic:
            ps = " {T : Type} (D : src_%s T)" % TRAIT + ps
        defn = "(* %s.rs: %s *)\nDefinition %s%s : %s :=\n%s." % (f.file, f.label(), self.coq, ps, rty, indent(text))
        for t in self.pending + [defn]:
            self.c.out.append(self.c.finalize(t))
        self.c.names.append(self.coq)
        return Sig(self.coq, params, self.ret, self.kind, outcome, self.generic)

    def use(self, p):
        if p[0] == "std":
            if "".join(p) not in ("std::io::Seek",):
                raise self.err("`use %s` in a function body" % "".join(p))
            return
        en = p[0]
        if self.c.types.get(en, (None, None))[1] != "enum" or p[1:3] != ["::", "{"] or p[-1] != "}":
            raise self.err("`use %s` in a function body" % "".join(p))
        vs = [v for v, _ in self.c.variants(en)]
        for x in p[3:-1]:
            if x == ",":
                continue
            if x not in vs:
                raise self.err("`use` of the unknown variant %s::%s" % (en, x))
            self.variants_in_scope[x] = en

    # ---- statements ----
    EFFECT = ("try", "call", "mcall", "if", "match", "index", "bin")

    def stmts(self, body, want, res):
        for st in body:
            if self.chain.exit is not None:
                raise self.err("unreachable code")
            k = st[0]
            if k == "let":
                _, name, mut, ty, e = st
                wt = None if ty is None else self.c.parse_type(ty, self.self_type(), self.generic)
                coq = cname(name)
                if name in self.env and (self.plain_depth > 0 or self.env[name].mutable):
                    raise self.err("`let %s` shadows a variable" % name)
                inner = e
                while inner[0] in ("paren", "ref"):
                    inner = inner[1]
                v, t = self.value(e, wt, None, coq if inner[0] in self.EFFECT else None)
                if t == NEVER or v is None:
                    raise self.err("`let %s` of an expression that does not return" % name)
                if wt is not None:
                    t = unify(t, wt, "%s: let %s" % (self.f.label(), name))
                if prune(t) == LIT:
                    raise self.err("the type of `let %s = <literal>` is not determined" % name)
                if v != coq:
                    self.emit("let", coq, v)
                self.env[name] = Var(coq, t, mutable=mut)
            elif k == "assign":
                _, name, e = st
                var = self.env.get(name)
                if var is None or not var.mutable or var.inout or prune(var.ty) == CUR:
                    raise self.err("assignment to `%s`" % name)
                v, t = self.value(e, var.ty, None, var.coq)
                if t == NEVER or v is None:
                    raise self.err("assignment of an expression that does not return")
                unify(t, var.ty, "%s: assignment to %s" % (self.f.label(), name))
                if v != var.coq:
                    self.emit("let", var.coq, v)
                self.rebind(var)
            elif k == "expr":
                e = st[1]
                if e[0] == "return":
                    self.value(e, None, None)
                else:
                    v, t = self.value(e, None, None)
                    if prune(t)[0] == "result" if not isinstance(prune(t), TVar) else False:
                        raise self.err("a Result is dropped")
            elif k == "dassert":
                c, t = self.value(st[1], BOOL, None)
                unify(t, BOOL, "%s: debug_assert!" % self.f.label())
                self.emit("guard", "negb " + atomic(c), "Panic")
            elif k == "while":
                self.while_(st[1], st[2])
            elif k == "tail":
                return self.value(st[1], want, res)
            else:
                raise self.err("statement kind %s" % k)
        return ("tt", UNIT)

    def sub(self, thunk):
        """run thunk in its own chain / scope -> (chain, result of thunk, variables of the enclosing scope it rebinds)"""
        saved_env, outer, depth = dict(self.env), self.chain, self.plain_depth
        self.chain, frame, self.plain_depth = Chain(), {}, 0
        self.frames.append(frame)
        try:
            r = thunk()
        finally:
            self.frames.pop()
            chain, self.chain, self.env, self.plain_depth = self.chain, outer, saved_env, depth
        live = set(saved_env.values())
        return chain, r, [v for v in frame if v in live]

    def while_(self, cond, body):
        if not (cond[0] == "bin" and cond[1] == ">" and cond[2][0] == "path" and len(cond[2][1]) == 1
                and cond[3] == ("lit", 0, None)):
            raise self.err("a `while` loop whose condition is not `<local> > 0`")
        bound = self.env.get(cond[2][1][0])
        bt = None if bound is None else prune(bound.ty)
        if bound is None or not bound.mutable or isinstance(bt, TVar) or bt[0] != "int" or bt[1][0] != "u":
            raise self.err("the bound of a `while` loop must be a mutable unsigned local")
        chain, _, lvars = self.sub(lambda: self.stmts(body, UNIT, None))
        if chain.exit is not None:
            raise self.err("a `while` body that always leaves the function")
        if bound not in lvars:
            raise self.err("the `while` body does not change the bound of the loop")
        self.nloops += 1
        name = "%s_loop%d" % (self.coq, self.nloops)
        ls = [v.coq for v in lvars]
        probe = render(chain.binds, "X") + " " + bound.coq
        pos = {}
        for v in set(self.env.values()):
            m = re.search(r"(?<![A-Za-z0-9_'])%s(?![A-Za-z0-9_'])" % re.escape(v.coq), probe)
            if m and v not in lvars:
                pos[v] = m.start()
        frees = sorted(pos, key=lambda v: pos[v])       # in the order the loop first mentions them
        fs = [v.coq for v in frees]
        call = " ".join([name, "fuel"] + fs + ls)
        inner = render(chain.binds, call)
        rty = "(" + " * ".join(coq_type(v.ty) for v in lvars) + ")" if len(lvars) > 1 else coq_type(lvars[0].ty)
        ps = "".join(" (%s : %s)" % (v.coq, coq_type(v.ty)) for v in frees + lvars)
        text = ("(* %s.rs: %s, the loop `while %s > 0` *)\nFixpoint %s (fuel : nat)%s {struct fuel} : outcome %s :=\n"
                "  if negb (%s >? 0) then Ok %s else\n  match fuel with\n  | O => Err E_FUEL\n  | S fuel =>\n%s\n  end."
                % (self.f.file, self.f.label(), cond[2][1][0], name, ps, rty, bound.coq, atomic(tup(ls)), indent(inner, 4)))
        self.pending.append(text)
        self.emit("bind", tup(ls), " ".join([name, "(S (Z.to_nat %s))" % bound.coq] + fs + ls))
        for v in lvars:
            self.rebind(v)

    # ---- branching ----
    def branch(self, arms, want, res, hint):
        """arms: [(condition term | None for the last, thunk)]"""
        results, rty = [], NEVER
        for cond, thunk in arms:
            chain, (term, t), mvars = self.sub(thunk)
            if chain.exit is None:
                rty = unify(rty, t, "%s: branches" % self.f.label())
            results.append((cond, chain, term, mvars))
        if want is not None and rty != NEVER:
            rty = unify(rty, want, "%s: value of the branches" % self.f.label())
        if arms[-1][0] is not None:
            raise self.err("branches without a final else / `_` arm")
        if all(not ch.binds and ch.exit is None and not mv for _, ch, _, mv in results):
            code = results[-1][2]
            for cond, _, term, _ in reversed(results[:-1]):
                code = "if %s then %s else %s" % (cond, term, code)
            return "(" + code + ")", rty
        mvars = []
        for r_ in results:
            mvars += [v for v in r_[3] if v not in mvars]
        if len(results) == 2 and not mvars:
            (c0, ch0, t0, _), (_, ch1, t1, _) = results
            if ch0.exit is not None and not ch0.binds and not ch1.binds and ch1.exit is None:
                self.emit("guard", c0, ch0.exit)
                return t1, rty
            if ch1.exit is not None and not ch1.binds and not ch0.binds and ch0.exit is None:
                self.emit("guard", "negb " + atomic(c0), ch1.exit)
                return t0, rty
        has_val = rty != NEVER and prune(rty) != UNIT
        code = None
        for cond, ch, term, _ in reversed(results):
            final = ch.exit if ch.exit is not None else "Ok " + atomic(tup(([term] if has_val else []) + [v.coq for v in mvars]))
            body = render(ch.binds, final)
            code = body if code is None else "if %s then\n%s\nelse\n%s" % (cond, indent("(" + body + ")"), indent("(" + code + ")"))
        if all(ch.exit is not None for _, ch, _, _ in results):
            self.exit("(" + code + ")")
            return None, NEVER
        name = (hint or self.c.fresh()) if has_val else None
        pat = tup(([name] if has_val else []) + [v.coq for v in mvars])
        self.emit("bind", "_" if pat == "tt" else pat, "(" + code + ")")
        for v in mvars:
            self.rebind(v)
        return (name if has_val else "tt"), rty

    # ---- expressions ----
    def pure(self, e, want, what):
        """an operand that must not have effects of its own (short-circuit operators)"""
        chain, (v, t), mv = self.sub(lambda: self.value(e, want, None))
        if chain.binds or chain.exit is not None or mv:
            raise self.err("%s with effects" % what)
        return v, t

    def int_type(self, t, what, unsigned=True):
        t = prune(t)
        if isinstance(t, TVar):
            return t
        if t[0] != "int" or (unsigned and t[1][0] != "u"):
            raise self.err("%s at type %s" % (what, show(t)))
        return t

    def value(self, e, want=None, res=None, hint=None):
        """-> (pure Gallina term | None when the expression leaves the function, type).  res: None, or 'try' / 'tail' when
        the expression is a Result whose Ok payload is wanted (an Err leaves the function)."""
        k = e[0]
        if k == "paren":
            return self.value(e[1], want, res, hint)
        if k == "ref":
            return self.value(e[1], want, res, hint)
        if k == "refmut":
            raise self.err("`&mut` outside an argument position")
        if k == "block":
            if len(e[1]) == 1 and e[1][0][0] == "tail":
                return self.value(e[1][0][1], want, res, hint)
            saved = dict(self.env)
            self.plain_depth += 1
            r = self.stmts(e[1], want, res)
            self.plain_depth -= 1
            self.env = saved
            return r
        if k == "try":
            if res is not None:
                raise self.err("`?` on a Result of Results")
            return self.value(e[1], want, "try", hint)
        if k == "ok":
            if res is None:
                raise self.err("Ok(..) that is neither propagated nor returned")
            return self.value(e[1], want, None, hint)
        if k == "err":
            kind, cls = self.error_class(e[1])
            self.check_kind(kind, res)
            self.exit("Err " + cls)
            return None, NEVER
        if k == "return":
            if e[1][0] != "err":
                raise self.err("`return` of something other than Err(..)")
            return self.value(e[1], None, "tail")
        if k == "if":
            c, t = self.value(e[1], BOOL, None)
            unify(t, BOOL, "%s: condition" % self.f.label())
            arms = [(c, lambda: self.value(e[2], want, res))]
            if e[3] is None:
                if res is not None:
                    raise self.err("`if` without else as a Result")
                arms.append((None, lambda: ("tt", UNIT)))
            else:
                arms.append((None, lambda: self.value(e[3], want, res)))
            return self.branch(arms, want, res, hint)
        if k == "match":
            return self.match(e, want, res, hint)
        if res is not None and k not in ("call", "mcall"):
            raise self.err("expression of kind `%s` where a Result is expected" % k)
        if k == "call":
            return self.call(e, want, res, hint)
        if k == "mcall":
            return self.mcall(e, want, res, hint)
        if k == "lit":
            if e[2]:
                if e[2] not in BITS or not 0 <= e[1] < 2 ** (BITS[e[2]] - (1 if e[2][0] == "i" else 0)):
                    raise self.err("literal %d%s" % (e[1], e[2]))
                return str(e[1]), INT(e[2])
            w = None if want is None else prune(want)
            if w is not None and not isinstance(w, TVar) and w[0] == "int":
                if not 0 <= e[1] < 2 ** (BITS[w[1]] - (1 if w[1][0] == "i" else 0)):
                    raise self.err("literal %d does not fit %s" % (e[1], w[1]))
                return str(e[1]), w
            return str(e[1]), LIT
        if k == "unit":
            return "tt", UNIT
        if k == "path":
            return self.path(e[1])
        if k == "as":
            v, t = self.value(e[1], None, None)
            t = prune(t)
            if t == LIT:
                if BITS[e[2]] and e[2][0] == "u":
                    return v, INT(e[2])
                raise self.err("cast of a literal to %s" % e[2])
            if isinstance(t, TVar) or t[0] != "int":
                raise self.err("cast of a value of type %s" % show(t))
            if t[1] == e[2]:
                return v, t
            if t[1][0] != "u" or e[2][0] != "u":
                raise self.err("cast between %s and %s" % (t[1], e[2]))
            return "(r_cast %d %s)" % (BITS[e[2]], atomic(v)), INT(e[2])
        if k == "not":
            v, t = self.value(e[1], BOOL, None)
            unify(t, BOOL, "%s: operand of `!`" % self.f.label())
            return "(negb %s)" % atomic(v), BOOL
        if k == "bin":
            return self.binop(e, want, hint)
        if k == "field":
            v, t = self.value(e[1], None, None)
            t = prune(t)
            if isinstance(t, TVar) or t[0] != "struct":
                raise self.err("field `%s` of %s" % (e[2], show(t)))
            for fname, fty in self.c.fields(t[1]):
                if fname == e[2]:
                    return "(%s_%s %s)" % (t[1], fname, atomic(v)), fty
            raise self.err("%s has no field `%s`" % (t[1], e[2]))
        if k == "index":
            v, t = self.value(e[1], None, None)
            if prune(t) != SLICE:
                raise self.err("range index of %s" % show(t))
            lo, hi = "0", "(zlen %s)" % atomic(v)
            if e[2] is not None:
                lo, lt = self.value(e[2], INT("usize"), None)
                unify(lt, INT("usize"), "%s: slice index" % self.f.label())
            if e[3] is not None:
                hi, ht = self.value(e[3], INT("usize"), None)
                unify(ht, INT("usize"), "%s: slice index" % self.f.label())
            x = hint or self.c.fresh()
            self.emit("bind", x, "src_slice %s %s %s" % (atomic(v), atomic(lo), atomic(hi)))
            return x, SLICE
        if k == "struct":
            return self.struct_lit(e)
        if k == "matches":
            v, t = self.value(e[1], None, None)
            return "(match %s with %s => true | _ => false end)" % (v, self.coq_pattern(e[2], prune(t))), BOOL
        if k == "macro":
            if e[1] == "vec" and not e[2]:
                tv = self.c.tvar()
                return "(@nil %s)" % coq_type(tv), ("vec", tv)
            raise self.err("macro %s!" % e[1])
        raise self.err("expression kind `%s`" % k)

    def coq_pattern(self, pat, ty):
        if pat[0] == "wild":
            return "_"
        if isinstance(ty, TVar) or ty[0] != "enum":
            raise self.err("pattern against %s" % show(ty))
        p = pat[1]
        if len(p) == 1 and p[0] in self.variants_in_scope:
            p = [self.variants_in_scope[p[0]], p[0]]
        if len(p) != 2 or p[0] != ty[1]:
            raise self.err("pattern %s against %s" % ("::".join(pat[1]), ty[1]))
        for v, payload in self.c.variants(ty[1]):
            if v == p[1]:
                if pat[0] == "ppath" and payload is None:
                    return "%s_%s" % (ty[1], v)
                if pat[0] == "pctor" and payload is not None:
                    return "%s_%s %s" % (ty[1], v, atomic(self.coq_pattern(pat[2], prune(payload))))
        raise self.err("pattern %s" % "::".join(pat[1]))

    def path(self, p):
        if len(p) == 1:
            if p[0] in self.env:
                v = self.env[p[0]]
                return v.coq, v.ty
            if p[0] in self.variants_in_scope:
                p = [self.variants_in_scope[p[0]], p[0]]
            else:
                raise self.err("unknown name `%s`" % p[0])
        if len(p) == 2:
            owner = self.f.owner if p[0] == "Self" else p[0]
            if owner in self.c.types and self.c.types[owner][1] == "enum":
                for v, payload in self.c.variants(owner):
                    if v == p[1] and payload is None:
                        return "%s_%s" % (owner, v), ("enum", owner)
            for file in ([self.f.file] + [x for x in self.c.sources if x != self.f.file]):
                if (owner, p[1]) in self.c.sources[file].consts and (file == self.f.file or owner in self.c.types and self.c.types[owner][0] == file):
                    return self.c.const(file, owner, p[1])
        raise self.err("path `%s`" % "::".join(p))

    def binop(self, e, want, hint=None):
        op, what = e[1], "%s: operands of `%s`" % (self.f.label(), e[1])
        if op in ("||", "&&"):
            a, ta = self.value(e[2], BOOL, None)
            b, tb = self.pure(e[3], BOOL, "right operand of `%s`" % op)
            unify(ta, BOOL, what)
            unify(tb, BOOL, what)
            return "(%s %s %s)" % (atomic(a), op, atomic(b)), BOOL
        if op in ("<<", ">>"):
            a, ta = self.value(e[2], want, None)
            b, tb = self.value(e[3], None, None)
            ta = self.int_type(ta, "shift")
            if prune(tb) != LIT:
                self.int_type(tb, "shift amount", unsigned=False)
            x = hint or self.c.fresh()
            self.emit("bind", x, "%s %s %s %s" % ("r_shl" if op == "<<" else "r_shr", width(ta), atomic(a), atomic(b)))
            return x, ta
        a, ta = self.value(e[2], None, None)
        b, tb = self.value(e[3], ta if prune(ta) != LIT else None, None)
        if prune(ta) == LIT and prune(tb) == LIT:
            raise self.err("`%s` of two untyped literals" % op)
        t = self.int_type(unify(ta, tb, what), "`%s`" % op)
        if op in ("==", "!=", "<", ">", "<=", ">="):
            c = {"==": "%s =? %s", "!=": "negb (%s =? %s)", "<": "%s <? %s", ">": "%s >? %s", "<=": "%s <=? %s",
                 ">=": "%s >=? %s"}[op] % (atomic(a), atomic(b))
            return "(" + c + ")", BOOL
        if op in ("&", "|", "^"):
            return "(Z.l%s %s %s)" % ({"&": "and", "|": "or", "^": "xor"}[op], atomic(a), atomic(b)), t
        if op in ("+", "-", "*"):
            x = hint or self.c.fresh()
            self.emit("bind", x, "%s %s %s %s" % ({"+": "r_add", "-": "r_sub", "*": "r_mul"}[op], width(t), atomic(a), atomic(b)))
            return x, t
        if op in ("/", "%"):
            x = hint or self.c.fresh()
            self.emit("bind", x, "%s %s %s" % ("r_div" if op == "/" else "r_rem", atomic(a), atomic(b)))
            return x, t
        raise self.err("operator `%s`" % op)

    def opaque(self, e):
        """the message of an error"""
        if e[0] == "mcall" and e[2] == "into" and not e[3]:
            e = e[1]
        if e[0] == "str":
            return
        if e[0] == "macro" and e[1] == "format" and e[2] and e[2][0][0] == "str":
            for a in e[2][1:]:
                if not (a[0] == "path" and len(a[1]) == 1 and a[1][0] in self.env):
                    raise self.err("format! argument that is not a local")
            return
        raise self.err("error message of kind `%s`" % e[0])

    def error_class(self, e):
        while e[0] == "paren" or (e[0] == "block" and len(e[1]) == 1 and e[1][0][0] == "tail"):
            e = e[1] if e[0] == "paren" else e[1][0][1]
        if e[0] == "call" and e[1] == ["Error", "InvalidPacket"] and len(e[2]) == 1:
            self.opaque(e[2][0])
            return "u3v", "E_INVALID_PACKET"
        if e[0] == "call" and e[1] == ["io", "Error", "new"] and len(e[2]) == 2 and e[2][0][0] == "path" and \
                e[2][0][1][:2] == ["io", "ErrorKind"] and len(e[2][0][1]) == 3 and e[2][1][0] == "str":
            return "io", "E_BUFFER_IO"
        raise self.err("error constructor")

    def struct_lit(self, e):
        name = self.f.owner if e[1] == "Self" else e[1]
        if self.c.types.get(name, (None, None))[1] != "struct":
            raise self.err("struct literal of `%s`" % e[1])
        fields = self.c.fields(name)
        if sorted(f for f, _ in e[2]) != sorted(f for f, _ in fields):
            raise self.err("struct literal of %s: fields" % name)
        given = dict(e[2])
        vals = {}
        for fname, _ in e[2]:                     # evaluation in the order written
            fty = dict(fields)[fname]
            v, t = self.value(given[fname], fty, None)
            unify(t, fty, "%s: field %s.%s" % (self.f.label(), name, fname))
            vals[fname] = v
        return "{| " + "; ".join("%s_%s := %s" % (name, f, vals[f]) for f, _ in fields) + " |}", ("struct", name)

    def match(self, e, want, res, hint):
        s, st = self.value(e[1], None, None)
        st = prune(st)
        if isinstance(st, TVar) or st[0] != "int" or st[1][0] != "u":
            raise self.err("match on a value of type %s" % show(st))
        if not re.fullmatch(r"[a-z_][A-Za-z0-9_]*", s):
            m = self.c.fresh()
            self.emit("let", m, s)
            s = m
        arms, seen = [], set()
        for i, (pats, body) in enumerate(e[2]):
            if any(p[0] == "wild" for p in pats):
                if len(pats) != 1 or i != len(e[2]) - 1:
                    raise self.err("`_` arm that is not the last one")
                arms.append((None, (lambda b: lambda: self.value(b, want, res))(body)))
                continue
            conds = []
            for p in pats:
                if p[0] != "plit" or (p[2] and p[2] != st[1]) or not 0 <= p[1] < 2 ** BITS[st[1]]:
                    raise self.err("pattern in a match on %s" % st[1])
                if p[1] in seen:
                    raise self.err("unreachable match arm %d" % p[1])
                seen.add(p[1])
                conds.append("(%s =? %d)" % (s, p[1]))
            arms.append((conds[0] if len(conds) == 1 else "(" + " || ".join(conds) + ")",
                         (lambda b: lambda: self.value(b, want, res))(body)))
        if not arms or arms[-1][0] is not None:
            raise self.err("match without a final `_` arm")
        return self.branch(arms, want, res, hint)

    # ---- calls ----
    def local_var(self, e, what):
        while e[0] in ("paren", "refmut"):
            e = e[1]
        if e[0] == "path" and len(e[1]) == 1 and e[1][0] in self.env:
            return self.env[e[1][0]]
        raise self.err("%s must be a local variable" % what)

    def apply(self, s, pre, arg_exprs, res, hint, dict_term=None):
        params = s.params[len(pre):]
        if len(params) != len(arg_exprs):
            raise self.err("arity of %s" % s.coq)
        terms, outs = [atomic(v) for v, _ in pre], []
        for (pn, pty, inout), a in zip(params, arg_exprs):
            if inout:
                var = self.local_var(a, "a `&mut` cursor argument")
                if prune(var.ty) != CUR or not var.mutable:
                    raise self.err("argument `%s` of %s is not a mutable cursor" % (pn, s.coq))
                terms.append(var.coq)
                outs.append(var)
            else:
                if a[0] == "refmut":
                    raise self.err("`&mut` argument for the parameter `%s` of %s" % (pn, s.coq))
                v, t = self.value(a, pty, None)
                unify(t, pty, "%s: argument `%s` of %s" % (self.f.label(), pn, s.coq))
                terms.append(atomic(v))
        if len(set(outs)) != len(outs):
            raise self.err("the same cursor passed twice")
        term = " ".join([s.coq] + ([dict_term] if dict_term else []) + terms)
        if s.kind is not None:
            self.check_kind(s.kind, res)
        elif res is not None:
            raise self.err("`?` on %s, which does not return a Result" % s.coq)
        if s.outcome or outs:
            unit = prune(s.ret) == UNIT
            name = "_" if (unit and outs) else (hint or self.c.fresh())
            pat = tup([name] + [v.coq for v in outs])
            self.emit("bind" if s.outcome else "let", pat if s.outcome or not outs else "'" + pat, term)
            for v in outs:
                self.rebind(v)
            return ("tt" if unit else name), s.ret
        return "(" + term + ")", s.ret

    def call(self, e, want, res, hint):
        p, args = e[1], e[2]
        name = "::".join(p)
        if name in ("Cursor::new", "io::Cursor::new") and len(args) == 1:
            v, t = self.value(args[0], None, None)
            if prune(t) != SLICE:
                raise self.err("Cursor::new of %s" % show(t))
            if res is not None:
                raise self.err("`?` on Cursor::new")
            return "(cur_new %s)" % atomic(v), CUR
        if name == "Vec::with_capacity" and len(args) == 1 and res is None:
            v, t = self.value(args[0], INT("usize"), None)
            unify(t, INT("usize"), "%s: Vec::with_capacity" % self.f.label())
            tv = self.c.tvar()
            return "(@src_with_capacity %s %s)" % (coq_type(tv), atomic(v)), ("vec", tv)
        if name in ("time::Duration::from_millis", "Duration::from_millis") and len(args) == 1 and res is None:
            v, t = self.value(args[0], INT("u64"), None)
            unify(t, INT("u64"), "%s: Duration::from_millis" % self.f.label())
            return v, DUR
        if len(p) == 2 and p[0] == "T" and self.generic:
            ms = [m for m in self.c.sources["ack"].trait_methods[TRAIT] if m.name == p[1]]
            if not ms:
                raise self.err("%s has no method %s" % (TRAIT, p[1]))
            hc = FnCompiler(self.c, ms[0])
            hc.generic = True
            params = hc.header()
            s = Sig("%s_%s" % (TRAIT, p[1]), params, hc.ret, hc.kind, True, False)
            return self.apply(s, [], args, res, hint, "D")
        if len(p) == 2:
            owner = self.f.owner if p[0] == "Self" else p[0]
            if owner in self.c.types and self.c.types[owner][1] == "enum":
                for v, payload in self.c.variants(owner):
                    if v == p[1] and payload is not None and len(args) == 1 and res is None:
                        a, t = self.value(args[0], payload, None)
                        unify(t, payload, "%s: payload of %s" % (self.f.label(), name))
                        return "(%s_%s %s)" % (owner, v, atomic(a)), ("enum", owner)
            f = self.c.lookup(self.f.file, owner, p[1])
            if f is not None:
                s = self.c.sig(f)
                if s.params and s.params[0][0] == "self":
                    raise self.err("method %s called as a function" % name)
                return self.apply(s, [], args, res, hint)
        if len(p) == 1:
            g = self.f
            while g is not None:
                key = (g.key if g.parent is None else (g.parent.key, g.name), p[0])
                if key in self.c.local_fns:
                    return self.apply(self.c.sig(self.c.local_fns[key]), [], args, res, hint)
                g = g.parent
            f = self.c.sources[self.f.file].fns.get((self.f.file, None, None, p[0]))
            if f is not None:
                return self.apply(self.c.sig(f), [], args, res, hint)
        raise self.err("call of `%s`" % name)

    LOSSLESS = {("u8", "u16"), ("u8", "u32"), ("u8", "u64"), ("u16", "u32"), ("u16", "u64"), ("u32", "u64"),
                ("u8", "i32"), ("u16", "i32"), ("u8", "i64"), ("u16", "i64"), ("u32", "i64"), ("u8", "usize"), ("u16", "usize")}

    def mcall(self, e, want, res, hint):
        recv, name, args = e[1], e[2], e[3]
        if name == "ok_or_else":
            if len(args) != 1 or args[0][0] != "closure":
                raise self.err("ok_or_else without a parameterless closure")
            v, t = self.value(recv, None, None)
            t = prune(t)
            if isinstance(t, TVar) or t[0] != "option":
                raise self.err("ok_or_else on %s" % show(t))
            kind, cls = self.error_class(args[0][1])
            self.check_kind(kind, res)
            x = hint or self.c.fresh()
            self.emit("bind", x, "r_ok_or %s %s" % (atomic(v), cls))
            return x, t[1]
        if name == "into" and not args:
            if res is not None:
                raise self.err("`?` on .into()")
            v, t = self.value(recv, None, None)
            t, w = prune(t), None if want is None else prune(want)
            if w is None or isinstance(w, TVar) or isinstance(t, TVar) or t[0] != "int" or w[0] != "int":
                raise self.err(".into() whose source / target type is not known")
            if t != w and (t[1], w[1]) not in self.LOSSLESS:
                raise self.err(".into() from %s to %s" % (t[1], w[1]))
            return v, w
        rvar = None
        r0 = recv
        while r0[0] in ("paren", "ref", "refmut"):
            r0 = r0[1]
        if r0[0] == "path" and len(r0[1]) == 1 and r0[1][0] in self.env:
            rvar = self.env[r0[1][0]]
        v, t = self.value(recv, None, None)
        t = prune(t)
        if isinstance(t, TVar):
            raise self.err("method `%s` on a value whose type is not known yet" % name)
        if t == CUR:
            if rvar is None:
                raise self.err("cursor method on something that is not a local")
            if name == "read_bytes_le" and not args:
                self.check_kind("io", res)
                if not rvar.mutable:
                    raise self.err("read through a cursor that is not mutable")
                ty = self.c.tvar() if want is None else want
                x = hint or self.c.fresh()
                self.emit("bind", tup([x, rvar.coq]), "cur_read_le %s %s" % (nbytes(ty, "read_bytes_le"), rvar.coq))
                self.rebind(rvar)
                return x, ty
            if name == "seek" and len(args) == 1:
                a = args[0]
                if not (a[0] == "call" and a[1] in (["io", "SeekFrom", "Current"], ["SeekFrom", "Current"]) and len(a[2]) == 1):
                    raise self.err("seek that is not SeekFrom::Current(..)")
                self.check_kind("io", res)
                if not rvar.mutable:
                    raise self.err("seek of a cursor that is not mutable")
                off, ot = self.value(a[2][0], INT("i64"), None)
                unify(ot, INT("i64"), "%s: SeekFrom::Current" % self.f.label())
                x = hint or self.c.fresh()
                self.emit("bind", tup([x, rvar.coq]), "cur_seek_current %s %s" % (atomic(off), rvar.coq))
                self.rebind(rvar)
                return x, INT("u64")
            if res is not None:
                raise self.err("`?` on cursor.%s" % name)
            if name == "get_ref" and not args:
                return "(cur_buf %s)" % rvar.coq, SLICE
            if name == "position" and not args:
                return "(cur_pos %s)" % rvar.coq, INT("u64")
            raise self.err("cursor method `%s`" % name)
        if t[0] in ("struct", "enum"):
            f = self.c.lookup(self.c.types[t[1]][0], t[1], name)
            if f is None:
                raise self.err("%s has no method `%s`" % (t[1], name))
            s = self.c.sig(f)
            if not s.params or s.params[0][0] != "self":
                raise self.err("%s::%s has no receiver" % (t[1], name))
            return self.apply(s, [(v, t)], args, res, hint)
        if res is not None:
            raise self.err("`?` on .%s()" % name)
        if t in (SLICE, ASREF):
            if name == "len" and not args:
                return "(zlen %s)" % atomic(v), INT("usize")
            if name == "as_ref" and not args and t == ASREF:
                return v, SLICE
            raise self.err("method `%s` of a slice" % name)
        if t[0] == "vec":
            if name == "push" and len(args) == 1:
                if rvar is None or not rvar.mutable:
                    raise self.err("push on something that is not a mutable local")
                a, at = self.value(args[0], t[1], None)
                unify(at, t[1], "%s: push" % self.f.label())
                self.emit("let", rvar.coq, "%s ++ [%s]" % (rvar.coq, a))
                self.rebind(rvar)
                return "tt", UNIT
            if name == "len" and not args:
                return "(zlen %s)" % atomic(v), INT("usize")
            raise self.err("method `%s` of a Vec" % name)
        if t[0] == "int" and t[1][0] == "u":
            if name == "checked_sub" and len(args) == 1:
                b, bt = self.value(args[0], t, None)
                unify(bt, t, "%s: checked_sub" % self.f.label())
                return "(r_checked_sub %s %s %s)" % (width(t), atomic(v), atomic(b)), ("option", t)
            if name == "trailing_zeros" and not args:
                return "(r_trailing_zeros %s %s)" % (width(t), atomic(v)), INT("u32")
        raise self.err("method `%s` on %s" % (name, show(t)))


# ---------------------------------------------------------------------------------------------------- pins --
def pins(repo):
    """the facts about other files the translation relies on"""
    p = os.path.join(repo, "impl", "src", "bytes_io.rs")
    s = re.sub(r"\s+", "", strip_comments(open(p).read()))
    a = "fnread_bytes_le<T>(&mutself)->io::Result<T>whereT:BytesConvertible,{T::read_bytes_le(self)}"
    b = ("fnread_bytes_le<R>(buf:&mutR)->io::Result<Self>whereR:io::Read,{letmuttmp=[0;std::mem::size_of::<$ty>()];"
         "buf.read_exact(&muttmp)?;Ok(<$ty>::from_le_bytes(tmp))}")
    c = "impl<R>ReadBytesforRwhereR:io::Read,{"
    if a not in s or b not in s or c not in s or s.count("fnread_bytes_le") != 4:
        raise ShapeError("impl/src/bytes_io.rs: read_bytes_le is no longer read_exact of size_of::<T>() bytes + from_le_bytes")
    m = re.search(r"impl_bytes_convertible!\{([a-z0-9,]*)\}", s)
    if not m or not {"u8", "u16", "u32", "u64"} <= set(m.group(1).split(",")):
        raise ShapeError("impl/src/bytes_io.rs: BytesConvertible is not implemented for u8/u16/u32/u64 by the macro")
    p = os.path.join(repo, "device", "src", "u3v", "mod.rs")
    s = re.sub(r"\s+", "", strip_comments(open(p).read()))
    if "InvalidPacket(Cow<'static,str>)," not in s or "BufferIo(#[from]std::io::Error)," not in s or \
            "pubtypeResult<T>=std::result::Result<T,Error>;" not in s:
        raise ShapeError("device/src/u3v/mod.rs: Error::InvalidPacket / Error::BufferIo(#[from] io::Error) / Result")


# ---------------------------------------------------------------------------------------------------- emit --
def emit_types(comp):
    out, done, busy = [], set(), set()

    def deps(ty, acc):
        ty = prune(ty)
        if ty[0] in ("struct", "enum"):
            acc.append(ty[1])
        elif ty[0] in ("vec", "option"):
            deps(ty[1], acc)

    def visit(n):
        if n in done:
            return
        if n in busy:
            raise ShapeError("recursive type %s" % n)
        busy.add(n)
        if comp.types[n][1] == "struct":
            fs = comp.fields(n)
            d = []
            for _, t in fs:
                deps(t, d)
            for x in d:
                visit(x)
            if not fs:
                raise ShapeError("struct %s has no fields" % n)
            out.append("Record src_%s := { %s }." % (n, "; ".join("%s_%s : %s" % (n, f, coq_type(t)) for f, t in fs)))
        else:
            vs = comp.variants(n)
            d = []
            for _, t in vs:
                if t is not None:
                    deps(t, d)
            for x in d:
                visit(x)
            out.append("Inductive src_%s := %s." % (n, " | ".join(
                "%s_%s" % (n, v) + ("" if t is None else " (a : %s)" % coq_type(t)) for v, t in vs)))
        busy.discard(n)
        done.add(n)

    for file in ("ack", "event"):
        for n in comp.sources[file].order:
            visit(n)
    return out


HEADER = """(* GENERATED by tools/translate_ackparse.py from device/src/u3v/protocol/ack.rs and event.rs (every struct and enum,
   the trait ParseScd and its five implementations, AckPacket::parse / scd_as and what they call, EventPacket::parse and
   what it calls) - do not edit.  Cursor operations: model/CurOps.v; integer arithmetic: the debug-build semantics of
   lib/RustInt.v; a function with a `&mut Cursor` parameter returns the cursor next to its value; a `while` loop is a
   Fixpoint over a fuel argument (called with S (Z.to_nat <bound>)); `time::Duration` is its number of milliseconds. *)
From Cam Require Import Outcome RustInt Bytes CurOps.
"""


def generate(repo):
    pins(repo)
    base = os.path.join(repo, "device", "src", "u3v", "protocol")
    sources = {f: Source(f, open(os.path.join(base, f + ".rs")).read()) for f in ("ack", "event")}
    TVar.n = 0
    Var.n = 0
    comp = Compiler(sources)
    types = emit_types(comp)
    trait = "Record src_%s (T : Type) := { %s_parse : (list Z) -> src_AckCcd -> outcome T }.\nArguments %s_parse {T} _ _ _." \
        % (TRAIT, TRAIT, TRAIT)
    m = sources["ack"].trait_methods[TRAIT][0]
    hc = FnCompiler(comp, m)
    hc.generic = True
    ps = hc.header()
    if [(t, io) for _, t, io in ps] != [(SLICE, False), (("struct", "AckCcd"), False)] or hc.kind != "u3v" or hc.ret != TPARAM:
        raise ShapeError("%s::parse is not fn(&[u8], &AckCcd) -> Result<Self>" % TRAIT)
    for file, owner, tr, name in WANT:
        f = sources[file].fns.get((file, owner, tr, name))
        if f is None:
            raise ShapeError("function %s::%s not found in %s.rs" % (owner, name, file))
        comp.sig(f)
    insts = []
    for o in VIEWS:
        s = comp.sig(sources["ack"].fns[("ack", o, TRAIT, "parse")])
        if not s.outcome or s.kind != "u3v" or s.ret != ("struct", o) or s.inouts:
            raise ShapeError("<%s as %s>::parse does not have the type the trait record needs" % (o, TRAIT))
        n = "src_%s_impl_%s" % (o, TRAIT)
        insts.append("Definition %s : src_%s src_%s :=\n  {| %s_parse := %s |}." % (n, TRAIT, o, TRAIT, s.coq))
        comp.names.append(n)
    text = HEADER + "\n" + "\n".join(types) + "\n" + trait + "\n\n" + "\n\n".join(comp.out + insts) + "\n\n" + \
        "#[global] Hint Unfold %s : ackparse.\n" % " ".join(n for n in comp.names)
    if "\x00" in text:
        raise ShapeError("unresolved type variable in the output")
    return text


def regenerate(repo=None):
    repo = repo or os.environ.get("VERIF_REPO", "/repo")
    text = generate(repo)
    old = open(OUT).read() if os.path.exists(OUT) else None
    if old != text:
        tmp = OUT + ".tmp%d" % os.getpid()
        open(tmp, "w").write(text)
        os.replace(tmp, OUT)
    return OUT


def main():
    try:
        regenerate(sys.argv[1] if len(sys.argv) > 1 else None)
    except ShapeError as e:
        print("ShapeError: %s" % e)
        sys.exit(3)
    print(OUT)


if __name__ == "__main__":
    main()
