"""C19 — GenTL C API keeps its state machine, buffer protocol and port safety.

Implementation side: libcameleon_gentl.so built from <REPO>'s current tree, driven out of process by
tools/gentl_child.py (one forked child per call sequence, cwd <REPO>/gentl).
Model side: coq/theories/model/GenTL.v evaluated by coqc/vm_compute on the same sequences.
Predicate: the GenTL standard's rules written in plain Python (state machine, last error, buffer
protocol with guard bytes, port access against the register table declared by the XML that the
producer itself serves through its ports)."""
import json
import os
import re
import sys
import xml.etree.ElementTree as ET

import vplib
from vplib import Case, Check, Lock, MachineryError, Rng, sh

U64 = 1 << 64
SYS, IFC = "S", "I"            # symbolic handle references used by the generator
IF_ID = "639290f8-043c-436d-b8d1-cb916e2928e9"   # only used to build requests; compared with the XML below

E_NOT_INIT, E_NOT_IMPL, E_IN_USE, E_ACCESS, E_HANDLE, E_ID = -1002, -1003, -1004, -1005, -1006, -1007
E_PARAM, E_NOT_AVAIL, E_ADDR, E_SMALL, E_INDEX = -1009, -1014, -1015, -1016, -1017
FILL = 0xA5


# ------------------------------------------------------------------ translator --
class ShapeError(Exception):
    pass


def _strip_comments(s):
    return re.sub(r"//[^\n]*", "", s)


def translate_module(path, common, devmod):
    """Expands const GENAPI_XML = formatcp!(r#"..."#, key = expr, ..) of a genapi.rs from the
    #[register(..)] attributes and the constants in the same file.  -> (xml text, registers)"""
    raw = open(path).read()
    m = re.search(r'const GENAPI_XML: &str = formatcp!\(\s*r#"(.*?)"#,(.*?)\n\);', raw, flags=re.S)
    if not m:
        raise ShapeError("%s: formatcp!(r#\"..\"#, ..) not found" % path)
    template, args = m.group(1), m.group(2)
    src = _strip_comments(raw[:m.start()])
    consts = dict(common)
    for mm in re.finditer(r'const (\w+): &str = "([^"]*)";', src):
        consts[mm.group(1)] = mm.group(2)
    for mm in re.finditer(r'const (\w+): (?:u64|u32|usize) = (\d+);', src):
        consts[mm.group(1)] = mm.group(2)
    for mm in re.finditer(r'const (\w+): &str = (\w+);', src):
        if mm.group(2) not in consts:
            raise ShapeError("alias %s of unknown constant" % mm.group(1))
        consts[mm.group(1)] = consts[mm.group(2)]
    tl = {"CameraLink": "CL", "CameraLinkHS": "CLHS", "CoaXPress": "CXP", "GigEVision": "GEV",
          "USB3Vision": "U3V", "Mixed": "Mixed"}
    for mm in re.finditer(r'const (\w+): port::TlType = port::TlType::(\w+);', src):
        consts[mm.group(1) + ".as_str()"] = tl[mm.group(2)]
    em = re.search(r'#\[register_map\(base\s*=\s*0,\s*endianness\s*=\s*LE\)\]\s*pub\(super\) enum GenApiReg \{(.*?)\n\}',
                   src, flags=re.S)
    if not em:
        raise ShapeError("%s: register_map GenApiReg not found" % path)
    regs, addr = [], 0
    for mm in re.finditer(r'#\[register\(len = (\d+), access = (\w+), ty = ([^\]]*?)\)\]\s*(\w+),', em.group(1)):
        ln, acc, ty, name = int(mm.group(1)), mm.group(2), mm.group(3).strip(), mm.group(4)
        regs.append((name, addr, ln, acc, ty))
        consts[name + "::ADDRESS"] = str(addr)
        consts[name + "::LENGTH"] = str(ln)
        consts[name + "::ACCESS_RIGHT.as_str()"] = acc
        bf = re.match(r'BitField<\w+, LSB = (\d+), MSB = (\d+)>', ty)
        if bf:
            consts[name + "::LSB"], consts[name + "::MSB"] = bf.group(1), bf.group(2)
        addr += ln
    if len(regs) != em.group(1).count("#[register("):
        raise ShapeError("%s: unexpected #[register(..)] attribute shape" % path)
    for k, (val, text) in devmod.items():
        consts["device::DeviceAccessStatus::%s.as_str()" % k] = text
        consts["device::DeviceAccessStatus::%s as i32" % k] = str(val)
    subst = dict(consts)
    for a in args.split(",\n"):
        a = a.strip().rstrip(",").strip()
        if not a:
            continue
        k, _, e = a.partition("=")
        k, e = k.strip(), e.strip()
        if e not in consts:
            raise ShapeError("%s: cannot evaluate formatcp! argument %s = %s" % (path, k, e))
        subst[k] = consts[e]

    def rep(mm):
        if mm.group(1) not in subst:
            raise ShapeError("%s: unknown placeholder {%s}" % (path, mm.group(1)))
        return subst[mm.group(1)]
    xml = re.sub(r"\{(\w+)\}", rep, template)
    return xml, regs, addr


def translate(repo):
    g = os.path.join(repo, "gentl", "src", "imp")
    common = {}
    for mm in re.finditer(r'const (\w+): (?:u64|u32) = (\d+);', open(os.path.join(g, "genapi_common.rs")).read()):
        common[mm.group(1)] = mm.group(2)
    dsrc = open(os.path.join(g, "device", "mod.rs")).read()
    em = re.search(r'enum DeviceAccessStatus \{(.*?)\n\}', dsrc, flags=re.S)
    if not em:
        raise ShapeError("DeviceAccessStatus not found")
    vals = dict((a, int(b)) for a, b in re.findall(r'(\w+) = (\d+),', _strip_comments(em.group(1))))
    texts = dict(re.findall(r'Self::(\w+) => "(\w+)"', dsrc[em.end():em.end() + 1200]))
    devmod = {k: (v, texts[k]) for k, v in vals.items()}
    sx, sregs, send = translate_module(os.path.join(g, "system", "genapi.rs"), common, devmod)
    ix, iregs, iend = translate_module(os.path.join(g, "interface", "u3v_genapi.rs"), common, devmod)
    path = os.path.realpath(os.path.join(repo, "gentl", "src", "imp", "system", "mod.rs"))
    return {"path": path.encode(), "sys_xml": sx.encode(), "if_xml": ix.encode(),
            "sys_regs": sregs, "if_regs": iregs, "sys_xml_addr": send, "if_xml_addr": iend}


def zl(bs):
    return "[" + ";".join(str(b) for b in bs) + "]"


def env_prelude(tr):
    return ("Definition E : env := {| e_path := %s;\n e_sys_xml := %s;\n e_if_xml := %s |}.\n"
            % (zl(tr["path"]), zl(tr["sys_xml"]), zl(tr["if_xml"])))


# ------------------------------------------------------------------ cases ------
def z(x):
    return "(%d)" % x if x < 0 else "%d" % x


def dst(cap):
    return "DNull" if cap < 0 else "(DBuf %d)" % cap


def hexl(h):
    return zl(bytes.fromhex(h))


def gallina_call(c):
    n, a = c[0], c[1:]
    if n in ("GCInitLib", "GCCloseLib", "CGCGetInfo", "TLOpen"):
        return n
    if n == "GCGetLastError":
        return "(GCGetLastError %s)" % dst(a[0])
    if n in ("TLClose", "IFClose", "TLGetNumInterfaces", "IFGetNumDevices", "GCGetNumPortURLs",
             "TLUpdateInterfaceList", "IFUpdateDeviceList", "IFGetParentTL"):
        return "(%s %s)" % (n, z(a[0]))
    if n in ("TLGetInfo", "IFGetInfo", "GCGetPortInfo", "TLGetInterfaceID", "IFGetDeviceID"):
        return "(%s %s %s %s)" % (n, z(a[0]), z(a[1]), dst(a[2]))
    if n == "GCGetPortURL":
        return "(GCGetPortURL %s %s)" % (z(a[0]), dst(a[1]))
    if n == "GCGetPortURLInfo":
        return "(GCGetPortURLInfo %s %s %s %s)" % (z(a[0]), z(a[1]), z(a[2]), dst(a[3]))
    if n in ("TLGetInterfaceInfo", "IFGetDeviceInfo"):
        return "(%s %s %s %s %s)" % (n, z(a[0]), hexl(a[1]), z(a[2]), dst(a[3]))
    if n == "TLOpenInterface":
        return "(TLOpenInterface %s %s)" % (z(a[0]), hexl(a[1]))
    if n == "IFOpenDevice":
        return "(IFOpenDevice %s %s %s)" % (z(a[0]), hexl(a[1]), z(a[2]))
    if n == "GCReadPort":
        return "(GCReadPort %s %d %d)" % (z(a[0]), a[1], a[2])
    if n == "GCWritePort":
        return "(GCWritePort %s %d %s %d)" % (z(a[0]), a[1], hexl(a[2]), a[3])
    if n == "GCReadPortStacked":
        return "(GCReadPortStacked %s [%s])" % (z(a[0]), ";".join("(%d,%d)" % (x, y) for x, y in a[1]))
    if n == "GCWritePortStacked":
        return "(GCWritePortStacked %s [%s])" % (z(a[0]), ";".join("(%d,%s)" % (x, hexl(y)) for x, y in a[1]))
    raise ValueError(n)


def flat_calls(line_calls):
    """child line (with thread blocks) -> [(tid, call)]"""
    out, tid = [], 0
    for c in line_calls:
        if c[0] == "thread":
            tid += 1
            out += [(tid, cc) for cc in c[1]]
        else:
            out.append((0, c))
    return out


def make_case(line_calls, fam="seq", meta=None):
    line = json.dumps(line_calls, separators=(",", ":"))
    fc = flat_calls(line_calls)
    term = "run E [%s]" % "; ".join("(%d%%nat, %s)" % (t, gallina_call(c)) for t, c in fc)
    m = {"calls": fc, "fam": fam}
    if meta:
        m.update(meta)
    return Case("c19", [], meta=m, term=term, rline=line)


def split_results(fc, out):
    """impl/model output -> per call [code, outs...] (None for calls after a crash), crashed marker"""
    res, i, died = [], 0, None
    if out is None:
        return [None] * len(fc), "no output"
    for _ in fc:
        if i >= len(out):
            res.append(None)
            continue
        n = out[i]
        if n in (-9, -8, -6):
            died = n
            res.append(None)
            i = len(out)
            continue
        res.append(out[i + 1:i + 1 + n])
        i += 1 + n
    if i < len(out) and out[i] in (-9, -8, -6):
        died = out[i]
    return res, died


# ------------------------------------------------------------------ predicate --
INFO_CALLS = ("TLGetInfo", "IFGetInfo", "GCGetPortInfo", "GCGetPortURLInfo", "TLGetInterfaceInfo", "IFGetDeviceInfo")
STR_CALLS = ("GCGetPortURL", "TLGetInterfaceID", "IFGetDeviceID")
T_STRING, T_INT32, T_UINT32, T_UINT64, T_BOOL8 = 1, 5, 6, 8, 11
# INFO_DATATYPE of every command, from the GenTL standard's tables (6.4.4)
STD_TYPES = {
    "TLGetInfo": {0: T_STRING, 1: T_STRING, 2: T_STRING, 3: T_STRING, 4: T_STRING, 5: T_STRING, 6: T_STRING,
                  7: T_STRING, 8: T_INT32, 9: T_UINT32, 10: T_UINT32},
    "IFGetInfo": {0: T_STRING, 1: T_STRING, 2: T_STRING},
    "TLGetInterfaceInfo": {0: T_STRING, 1: T_STRING, 2: T_STRING},
    "GCGetPortInfo": {0: T_STRING, 1: T_STRING, 2: T_STRING, 3: T_STRING, 4: T_STRING, 5: T_BOOL8, 6: T_BOOL8,
                      7: T_BOOL8, 8: T_BOOL8, 9: T_BOOL8, 10: T_BOOL8, 11: T_STRING, 12: T_STRING},
    "GCGetPortURLInfo": {0: T_STRING, 1: T_INT32, 2: T_INT32, 3: T_INT32, 4: T_INT32, 5: T_INT32, 7: T_UINT64,
                         8: T_UINT64, 9: T_INT32},
}
FIXED_SIZE = {T_INT32: 4, T_UINT32: 4, T_UINT64: 8, T_BOOL8: 1}


def info_key(c):
    """(query identity without the buffer, cap, command)"""
    n = c[0]
    if n in ("TLGetInfo", "IFGetInfo", "GCGetPortInfo"):
        return (n, c[1], c[2]), c[3], c[2]
    if n == "GCGetPortURLInfo":
        return (n, c[1], c[2], c[3]), c[4], c[3]
    if n in ("TLGetInterfaceInfo", "IFGetDeviceInfo"):
        return (n, c[1], c[2], c[3]), c[4], c[3]
    if n == "GCGetPortURL":
        return (n, c[1]), c[2], None
    if n in ("TLGetInterfaceID", "IFGetDeviceID"):
        return (n, c[1], c[2]), c[3], None
    return None, None, None


class Spec:
    """The property, as rules of the GenTL standard, evaluated on what the library returned."""

    def __init__(self, facts):
        self.facts = facts or {}

    def check(self, fc, results, died):
        if died == -6:
            return None           # driver failure is reported as machinery, not as a violation
        if died is not None:
            k = next((i for i, r in enumerate(results) if r is None), len(fc) - 1)
            return "the process %s in call %d %r: the API must return an error code, never crash" % (
                "died" if died == -9 else "hung", k, fc[k][1][:4])
        init, sys_open, if_open = False, False, False
        kinds, live = [], []      # per handle slot
        last = {}                 # thread -> code of the last failing call
        # bytes the spec can predict per module: address -> value, None = unknown
        known = {"S": dict(self.facts.get("sys_bytes", {})), "I": dict(self.facts.get("if_bytes", {}))}
        answers = {}              # info query -> (need, value bytes)
        for i, ((t, c), r) in enumerate(zip(fc, results)):
            n = c[0]
            if r is None:
                return "call %d has no result" % i
            if r == [-7]:
                continue          # not made (handle not usable)
            code, outs = r[0], r[1:]
            why = None
            h = c[1] if n not in ("GCInitLib", "GCCloseLib", "CGCGetInfo", "GCGetLastError", "TLOpen") else None
            hk = None
            if h is not None and h >= 0:
                hk = kinds[h] if h < len(kinds) else None
            if not init and n != "GCInitLib":
                if code != E_NOT_INIT:
                    why = "library not initialised: expected GC_ERR_NOT_INITIALIZED, got %d" % code
            elif n == "GCInitLib":
                exp = E_IN_USE if init else 0
                if code != exp:
                    why = "GCInitLib: expected %d, got %d" % (exp, code)
                if code == 0:
                    init = True
            elif n == "GCCloseLib":
                if code != 0:
                    why = "GCCloseLib on an initialised library: expected SUCCESS, got %d" % code
                else:
                    init = False
            elif n == "GCGetLastError":
                if code == 0:
                    exp = last.get(t, 0)
                    if outs[0] != exp:
                        why = "GCGetLastError reports %d, the last failing call on the thread returned %d" % (outs[0], exp)
                    elif outs[1] != 1:
                        why = "GCGetLastError text is not a NUL-terminated string of the reported size"
                elif code != E_SMALL or c[1] < 0:
                    why = "GCGetLastError failed with %d" % code
                elif outs[1] != 1:
                    why = "GCGetLastError wrote into a too small buffer"
            elif h == -1:
                if code != E_HANDLE:
                    why = "NULL handle: expected GC_ERR_INVALID_HANDLE, got %d" % code
            elif n == "TLOpen":
                exp = E_IN_USE if sys_open else 0
                if code != exp:
                    why = "TLOpen with the system module %s: expected %d, got %d" % (
                        "open" if sys_open else "closed", exp, code)
                if code == 0:
                    sys_open = True
                    if outs[0] != len(kinds):
                        why = "TLOpen returned no handle"
                    kinds.append("S")
                    live.append(True)
            elif n.startswith("TL") and hk != "S" or n.startswith("IF") and hk != "I":
                if code != E_HANDLE:
                    why = "%s on a handle of another module: expected GC_ERR_INVALID_HANDLE, got %d" % (n, code)
            elif n == "TLClose":
                if code != 0:
                    why = "TLClose of the open system module: expected SUCCESS, got %d" % code
                else:
                    sys_open, if_open = False, False
                    live[h] = False
            elif n == "TLOpenInterface":
                ident = bytes.fromhex(c[2]).decode("latin1")
                exp = E_ID if ident != self.facts.get("if_id", IF_ID) else E_IN_USE if if_open else 0
                if code != exp:
                    why = "TLOpenInterface(%r) with the interface %s: expected %d, got %d" % (
                        ident, "open" if if_open else "closed", exp, code)
                if code == 0:
                    if_open = True
                    kinds.append("I")
                    live.append(True)
            elif n == "IFClose":
                if code != 0:
                    why = "IFClose: expected SUCCESS, got %d" % code
                else:
                    if_open = False
                    live[h] = False
            elif n in INFO_CALLS or n in STR_CALLS:
                why = self.info_rule(c, code, outs, hk, if_open, answers)
            elif n in ("GCReadPort", "GCWritePort", "GCReadPortStacked", "GCWritePortStacked"):
                why = self.port_rule(c, code, outs, hk, if_open, known)
            elif n in ("TLGetNumInterfaces", "GCGetNumPortURLs", "IFGetNumDevices"):
                exp = 0 if n == "IFGetNumDevices" else 1
                if hk == "I" and not if_open and n == "GCGetNumPortURLs":
                    if code != E_NOT_INIT:
                        why = "%s on a closed interface: expected NOT_INITIALIZED, got %d" % (n, code)
                elif code != 0 or outs[0] != exp:
                    why = "%s: expected SUCCESS/%d, got %d/%d" % (n, exp, code, outs[0])
            elif n == "IFGetParentTL":
                if code != 0 or outs[0] != 1:
                    why = "IFGetParentTL does not return the handle the interface was opened with"
            elif n == "TLUpdateInterfaceList":
                if code != 0 or outs[0] != 0:
                    why = "TLUpdateInterfaceList: expected SUCCESS, unchanged"
            elif n in ("IFUpdateDeviceList", "CGCGetInfo", "IFOpenDevice"):
                if code == 0:
                    why = "%s cannot succeed without hardware / implementation" % n
            if code != 0:
                last[t] = code
                if h is not None and n in ("TLOpen", "TLOpenInterface") and outs and outs[0] != -1:
                    why = why or "%s failed but wrote a handle" % n
            if why:
                return "call %d %s: %s" % (i, json.dumps(c)[:120], why)
        return None

    # -- buffer protocol --------------------------------------------------------
    def info_rule(self, c, code, outs, hk, if_open, answers):
        n = c[0]
        key, cap, cmd = info_key(c)
        typed = n in INFO_CALLS
        if typed:
            ty, size, buf, guard = outs[0], outs[1], outs[2:-1], outs[-1]
        else:
            ty, size, buf, guard = T_STRING, outs[0], outs[1:-1], outs[-1]
        if guard != 1:
            return "bytes after the caller's buffer were overwritten"
        if len(buf) != max(cap, 0):
            return "driver: buffer image has the wrong length"
        if code != 0:
            if any(b != FILL for b in buf):
                return "a failing query (%d) wrote into the caller's buffer" % code
            if typed and ty != -77:
                return "a failing query (%d) wrote the type" % code
            if size != max(cap, 0):
                return "a failing query (%d) changed *piSize" % code
        if hk == "I" and not if_open and n.startswith("GC"):
            return None if code == E_NOT_INIT else "port query on a closed interface: expected NOT_INITIALIZED, got %d" % code
        if n in ("IFGetDeviceID", "IFGetDeviceInfo"):
            return None if code in (E_INDEX, E_ID) else "no device exists: expected INVALID_INDEX / INVALID_ID, got %d" % code
        if n == "TLGetInterfaceID" and c[2] != 0:
            return None if code == E_INDEX else "interface index %d: expected INVALID_INDEX, got %d" % (c[2], code)
        if n == "GCGetPortURLInfo" and c[2] != 0:
            return None if code == E_INDEX else "URL index %d: expected INVALID_INDEX, got %d" % (c[2], code)
        if n == "TLGetInterfaceInfo" and bytes.fromhex(c[2]).decode("latin1") != self.facts.get("if_id", IF_ID):
            return None if code == E_ID else "unknown interface id: expected INVALID_ID, got %d" % code
        if typed:
            std = STD_TYPES[n].get(cmd)
            if std is None:
                if n == "GCGetPortURLInfo" and cmd in (6, 10):
                    return None if code in (E_NOT_AVAIL, E_PARAM, E_NOT_IMPL) else \
                        "URL info %d is not available for a register-map URL, got %d" % (cmd, code)
                return None if code in (E_PARAM, E_NOT_IMPL, E_NOT_AVAIL) else \
                    "unknown info command %d: expected INVALID_PARAMETER, got %d" % (cmd, code)
        else:
            std = T_STRING
        # a defined command on a usable handle
        if code not in (0, E_SMALL):
            return "info query failed with %d" % code
        ans = answers.get(key)
        if code == E_SMALL:
            if cap < 0:
                return "BUFFER_TOO_SMALL for a NULL buffer (size query)"
            if ans and cap >= ans[0]:
                return "BUFFER_TOO_SMALL although %d bytes suffice (buffer %d)" % (ans[0], cap)
            if std in FIXED_SIZE and cap >= FIXED_SIZE[std]:
                return "BUFFER_TOO_SMALL for a %d byte value in a %d byte buffer" % (FIXED_SIZE[std], cap)
            return None
        # success
        if typed and ty != std:
            return "INFO_DATATYPE %d, the standard says %d" % (ty, std)
        need = size
        if std in FIXED_SIZE and need != FIXED_SIZE[std]:
            return "size %d for datatype %d" % (need, std)
        if ans and ans[0] != need:
            return "required size changed between calls: %d then %d" % (ans[0], need)
        if cap < 0:
            answers.setdefault(key, (need, None))
            return None
        if cap < need:
            return "SUCCESS with a buffer of %d bytes for a value of %d bytes" % (cap, need)
        val = buf[:need]
        if any(b != FILL for b in buf[need:]):
            return "bytes beyond the reported size were written"
        if std == T_STRING and (need < 1 or val[-1] != 0 or 0 in val[:-1]):
            return "string value is not exactly NUL-terminated at the reported size"
        if ans and ans[1] is not None and ans[1] != val:
            return "value differs between buffer sizes"
        answers[key] = (need, val)
        exp = self.facts.get("info", {}).get(json.dumps([n, hk, cmd] if typed else [n, hk]))
        if exp is not None and list(exp) != val:
            return "value %r disagrees with the XML / environment (%r)" % (bytes(val), bytes(exp))
        return None

    # -- ports ------------------------------------------------------------------
    def regs(self, hk):
        return self.facts.get("sys_table" if hk == "S" else "if_table")

    def classify(self, hk, a, n, write):
        """what the register table (from the served XML) says about [a, a+n):
        'ok' / 'denied' / 'invalid' / None (table unknown)"""
        tab = self.regs(hk)
        if tab is None:
            return None
        end = max(x + l for x, l, _ in tab)
        if a + n > end or a + n >= U64:
            return "invalid"
        for b in range(a, a + n):
            acc = next((m for x, l, m in tab if x <= b < x + l), None)
            if acc is None or (write and "W" not in acc) or (not write and "R" not in acc):
                return "denied"
        return "ok"

    def one_access(self, hk, if_open, known, a, n, write, code, data):
        if hk is None:
            return None if code == E_HANDLE else "expected INVALID_HANDLE, got %d" % code
        if hk == "I" and not if_open:
            return None if code == E_NOT_INIT else "port of a closed interface: expected NOT_INITIALIZED, got %d" % code
        allowed = (0, E_ADDR, E_ACCESS) + ((E_INDEX, E_NOT_IMPL) if write else ())
        if code not in allowed:
            return "port access returned %d" % code
        cl = self.classify(hk, a, n, write)
        mem = known[hk]
        if n == 0:
            return None      # any of the allowed codes: the standard leaves the empty access open
        if cl == "invalid" and code != E_ADDR:
            return "[%d, %d+%d) leaves the register map: expected INVALID_ADDRESS, got %d" % (a, a, n, code)
        if cl == "denied" and code != E_ACCESS:
            return "[%d, %d+%d) touches a register without %s access: expected ACCESS_DENIED, got %d" % (
                a, a, n, "write" if write else "read", code)
        if cl == "ok" and code in (E_ADDR, E_ACCESS):
            return "[%d, %d+%d) is %s per the XML but the port answered %d" % (a, a, n, "writable" if write else "readable", code)
        if write:
            if code == 0:
                for i in range(n):
                    mem[a + i] = data[i] if i < len(data) else 0
            elif code in (E_INDEX, E_NOT_IMPL) and n <= 65536:
                for i in range(n):
                    mem[a + i] = None        # the standard does not say whether the bytes were stored
        elif code == 0:
            for i in range(n):
                exp = mem.get(a + i)
                if exp is not None and data[i] != exp:
                    return "byte at %d reads %d, the register map holds %d" % (a + i, data[i], exp)
        return None

    def port_rule(self, c, code, outs, hk, if_open, known):
        n = c[0]
        if n == "GCReadPort":
            a, size = c[2], c[3]
            real = size if size <= 65536 else 64
            so, buf, guard = outs[0], outs[1:1 + real], outs[-1]
            if guard != 1:
                return "bytes after the read buffer were overwritten"
            if code != 0 and (any(b != FILL for b in buf) or so != size):
                return "a failing read (%d) wrote into the buffer or changed *piSize" % code
            if code == 0 and so != size:
                return "read of %d bytes reports %d" % (size, so)
            return self.one_access(hk, if_open, known, a, size, False, code, buf)
        if n == "GCWritePort":
            a, data, extra = c[2], list(bytes.fromhex(c[3])), c[4]
            size = len(data) + extra
            if outs[0] != size:
                return "write of %d bytes reports %d" % (size, outs[0])
            return self.one_access(hk, if_open, known, a, size, True, code, data)
        if n == "GCReadPortStacked":
            ents = c[2]
            cnt, rest = outs[0], outs[1:]
            pos, failed = 0, code != 0
            if (not failed and cnt != len(ents)) or cnt > len(ents):
                return "stacked read: %d of %d entries reported with code %d" % (cnt, len(ents), code)
            if hk is None or (hk == "I" and not if_open):
                return self.one_access(hk, if_open, known, 0, 1, False, code, [])
            for j, (a, size) in enumerate(ents):
                real = size if size <= 65536 else 64
                buf, guard = rest[pos:pos + real], rest[pos + real]
                pos += real + 1
                if guard != 1:
                    return "stacked read: overrun after entry %d" % j
                if j < cnt:
                    w = self.one_access(hk, if_open, known, a, size, False, 0, buf)
                elif j == cnt:
                    w = self.one_access(hk, if_open, known, a, size, False, code, buf)
                    if any(b != FILL for b in buf):
                        w = w or "stacked read: failing entry wrote into its buffer"
                else:
                    w = "stacked read: entry after the failing one was written" if any(b != FILL for b in buf) else None
                if w:
                    return "entry %d: %s" % (j, w)
            return None
        if n == "GCWritePortStacked":
            ents = c[2]
            cnt = outs[0]
            if (code == 0 and cnt != len(ents)) or cnt > len(ents):
                return "stacked write: %d of %d entries reported with code %d" % (cnt, len(ents), code)
            if hk is None or (hk == "I" and not if_open):
                return self.one_access(hk, if_open, known, 0, 1, True, code, [])
            for j, (a, dh) in enumerate(ents):
                d = list(bytes.fromhex(dh))
                if j < cnt:
                    w = self.one_access(hk, if_open, known, a, len(d), True, 0, d)
                elif j == cnt:
                    w = self.one_access(hk, if_open, known, a, len(d), True, code, d)
                else:
                    break
                if w:
                    return "entry %d: %s" % (j, w)
            return None
        return None


# ------------------------------------------------------------------ generator --
class Gen:
    """Builds sequences with symbolic handles resolved by the standard's own state machine."""

    def __init__(self):
        self.reset()

    def reset(self):
        self.init, self.sys_open, self.if_open = False, False, False
        self.slots = []     # [kind, live]
        self.calls = []

    def ref(self, sym):
        if sym == "N":
            return -1
        for i in range(len(self.slots) - 1, -1, -1):
            if self.slots[i][0] == sym and self.slots[i][1]:
                return i
        return -1

    def add(self, name, *args):
        """args may contain the symbols 'S', 'I', 'N' in handle position"""
        a = list(args)
        hs = None
        if name not in ("GCInitLib", "GCCloseLib", "CGCGetInfo", "GCGetLastError", "TLOpen"):
            hs = a[0]
            a[0] = self.ref(a[0]) if isinstance(a[0], str) else a[0]
        c = [name] + a
        self.calls.append(c)
        if name == "GCInitLib":
            self.init = True
        elif not self.init:
            pass
        elif name == "GCCloseLib":
            self.init = False
        elif name == "TLOpen" and not self.sys_open:
            self.sys_open = True
            self.slots.append(["S", True])
        elif name == "TLClose" and a[0] >= 0 and self.slots[a[0]][0] == "S":
            self.sys_open, self.if_open = False, False
            self.slots[a[0]][1] = False
        elif name == "TLOpenInterface" and a[0] >= 0 and self.slots[a[0]][0] == "S" \
                and bytes.fromhex(a[1]).decode("latin1") == IF_ID and not self.if_open:
            self.if_open = True
            self.slots.append(["I", True])
        elif name == "IFClose" and a[0] >= 0 and self.slots[a[0]][0] == "I":
            self.if_open = False
            self.slots[a[0]][1] = False
        return self

    def take(self):
        c = self.calls
        self.reset()
        return c


IDH = IF_ID.encode().hex()
BADID = b"no-such-interface".hex()

# the alphabet of the exhaustive enumeration: (name, args with symbolic handles)
ALPHABET = [
    ("GCInitLib",), ("GCCloseLib",), ("TLOpen",), ("TLClose", SYS), ("TLOpenInterface", SYS, IDH),
    ("IFClose", IFC), ("GCGetLastError", 1024), ("TLGetInfo", SYS, 0, 64), ("GCGetPortInfo", IFC, 0, 64),
    ("GCReadPort", SYS, 1028, 4), ("GCWritePort", SYS, 1028, "00000000", 0), ("GCReadPort", IFC, 4, 4),
    ("GCWritePort", IFC, 4, "00000000", 0), ("TLClose", IFC), ("IFClose", "N"), ("GCGetPortURL", SYS, 16),
]


def seq_from(ops, prefix=()):
    g = Gen()
    for o in list(prefix) + list(ops):
        g.add(*o)
    return g.take()


def gen_sequences(ck, rng):
    cases = []
    A = ALPHABET
    # all sequences of length 1..3 over the alphabet, and all of length 3 after GCInitLib; TLOpen
    import itertools
    for L in (1, 2, 3):
        for ops in itertools.product(A, repeat=L):
            cases.append(make_case(seq_from(ops), "exhaustive"))
    small = [A[i] for i in (0, 1, 2, 3, 4, 5, 6, 9, 11, 12)]
    for ops in itertools.product(A, repeat=3):
        cases.append(make_case(seq_from(ops, prefix=[("GCInitLib",), ("TLOpen",)]), "exhaustive"))
    if ck.tier != "quick":
        for ops in itertools.product(A, repeat=3):
            cases.append(make_case(seq_from(ops, prefix=[("GCInitLib",)]), "exhaustive"))
    for ops in itertools.product(small, repeat=3 if ck.tier == "quick" else 4):
        cases.append(make_case(seq_from(ops, prefix=[("GCInitLib",), ("TLOpen",), ("TLOpenInterface", SYS, IDH)]),
                               "exhaustive"))
    # random longer sequences over a richer alphabet, with a second thread now and then
    nrand = 1500 if ck.tier == "quick" else 8000
    for _ in range(nrand):
        g = Gen()
        if rng.chance(5, 6):
            g.add("GCInitLib")
        line, L = [], rng.range(4, 14)
        for _ in range(L):
            op = random_op(rng)
            if rng.chance(1, 12):
                # a block on a fresh thread: its own last error
                start = len(g.calls)
                for _ in range(rng.range(1, 3)):
                    g.add(*random_op(rng))
                g.add("GCGetLastError", 1024)
                blk = g.calls[start:]
                del g.calls[start:]
                g.calls.append(["thread", blk])
            else:
                g.add(*op)
        cases.append(make_case(g.take(), "random"))
    return cases


def random_op(rng):
    hsym = rng.choice([SYS, SYS, SYS, IFC, IFC, "N"])
    k = rng.below(24)
    if k == 0:
        return ("GCInitLib",)
    if k == 1:
        return ("GCCloseLib",) if rng.chance(1, 3) else ("GCGetLastError", rng.choice([-1, 0, 1024]))
    if k == 2:
        return ("TLOpen",)
    if k == 3:
        return ("TLClose", hsym)
    if k in (4, 5):
        return ("TLOpenInterface", hsym, IDH if rng.chance(5, 6) else BADID)
    if k == 6:
        return ("IFClose", hsym)
    if k == 7:
        return ("GCGetLastError", rng.choice([-1, 0, 1024, 1024]))
    if k == 8:
        return ("TLGetInfo", hsym, rng.choice(list(range(0, 12)) + [-1, 1000]), rng.choice([-1, 0, 1, 4, 8, 38, 64, 256]))
    if k == 9:
        return ("GCGetPortInfo", hsym, rng.choice(list(range(0, 14)) + [-1, 1000]), rng.choice([-1, 0, 1, 2, 26, 64]))
    if k == 10:
        return ("GCGetPortURLInfo", hsym, rng.choice([0, 0, 0, 1]), rng.choice(list(range(0, 12)) + [1000]),
                rng.choice([-1, 0, 3, 4, 8, 128]))
    if k == 11:
        return ("GCGetPortURL", hsym, rng.choice([-1, 0, 50, 128]))
    if k == 12:
        return ("IFGetInfo", hsym, rng.choice([0, 1, 2, 3]), rng.choice([-1, 0, 4, 21, 37, 64]))
    if k == 13:
        return rng.choice([("TLGetNumInterfaces", hsym), ("IFGetNumDevices", hsym), ("GCGetNumPortURLs", hsym),
                           ("TLUpdateInterfaceList", hsym), ("IFUpdateDeviceList", hsym), ("IFGetParentTL", hsym),
                           ("CGCGetInfo",)])
    if k == 14:
        return rng.choice([("TLGetInterfaceID", hsym, rng.choice([0, 0, 1, 7]), rng.choice([-1, 0, 36, 37, 64])),
                           ("TLGetInterfaceInfo", hsym, IDH if rng.chance(3, 4) else BADID, rng.choice([0, 1, 2, 3]),
                            rng.choice([-1, 0, 4, 37, 64])),
                           ("IFGetDeviceID", hsym, rng.below(2), rng.choice([-1, 16])),
                           ("IFGetDeviceInfo", hsym, BADID, 0, rng.choice([-1, 16])),
                           ("IFOpenDevice", hsym, BADID, 1)])
    a, n = random_range(rng, hsym)
    if k in (15, 16, 17):
        return ("GCReadPort", hsym, a, n)
    if k in (18, 19, 20):
        if n > 64:
            return ("GCWritePort", hsym, a, "", n)
        return ("GCWritePort", hsym, a, rng.bytes(n).hex() if rng.chance(1, 2) else bytes(n).hex(), 0)
    if k == 21:
        ents = []
        for _ in range(rng.range(0, 3)):
            x, y = random_range(rng, hsym)
            ents.append([x, min(y, 1024)])
        return ("GCReadPortStacked", hsym, ents)
    if k == 22:
        ents = []
        for _ in range(rng.range(0, 3)):
            x, y = random_range(rng, hsym)
            ents.append([x, rng.bytes(min(y, 8)).hex()])
        return ("GCWritePortStacked", hsym, ents)
    return ("GCReadPort", hsym, a, n)


def random_range(rng, hsym):
    marks = SYS_MARKS if hsym != IFC else IF_MARKS
    a = rng.choice(marks) + rng.range(-2, 2)
    if rng.chance(1, 10):
        a = rng.choice([(1 << 32), (1 << 63), U64 - 1, U64 - 4, rng.below(U64)])
    a = min(max(a, 0), U64 - 1)
    n = rng.choice([0, 1, 2, 3, 4, 4, 4, 5, 8, 8, 64, 1024, 1 << 32])
    return a, n


SYS_MARKS = [0, 1024, 1028, 1032, 1036, 1100, 1108, 1112, 1116, 1120]
IF_MARKS = [0, 4, 8, 12, 76, 204, 332, 336]


def gen_port_grid(ck, tr, facts):
    """(address, size) boundary grid on both ports: reads, writes, on a fresh producer each"""
    cases = []
    sizes = [0, 1, 4, 8, 1024, 1 << 32]
    for hk, regs, xa, xl in (("S", tr["sys_regs"], facts["sys_xml_at"][0], facts["sys_xml_at"][1]),
                             ("I", tr["if_regs"], facts["if_xml_at"][0], facts["if_xml_at"][1])):
        end = xa + xl
        marks = {0, end, 1 << 32, 1 << 63, U64 - 1}
        for _, a, l, _, _ in regs:
            marks |= {a, a + l}
        addrs = set()
        for m in marks:
            addrs |= {m - 1, m, m + 1}
        for n in (1, 4, 8, 1024):
            addrs |= {end - n, end - n + 1, U64 - n, U64 - n - 1}
        addrs = sorted(a for a in addrs if 0 <= a < U64)
        pre = [("GCInitLib",), ("TLOpen",)] + ([("TLOpenInterface", SYS, IDH)] if hk == "I" else [])
        sym = SYS if hk == "S" else IFC
        for a in addrs:
            ops = [("GCReadPort", sym, a, n) for n in sizes]
            cases.append(make_case(seq_from(ops, prefix=pre), "port-grid"))
            for n in sizes:
                # each write on a fresh producer, followed by reads of the neighbourhood
                w = ("GCWritePort", sym, a, bytes((0x11 * (i + 1)) & 255 for i in range(n)).hex(), 0) if n <= 1024 \
                    else ("GCWritePort", sym, a, "", n)
                lo = max(0, a - 2)
                ops = [w, ("GCReadPort", sym, lo, 8), ("GCGetLastError", 1024), ("GCWritePort", sym, a, "", 0),
                       ("GCReadPort", sym, a if a < end else 0, 4)]
                cases.append(make_case(seq_from(ops, prefix=pre), "port-grid"))
        # zero-valued writes to every register (selectors accept 0)
        for _, a, l, _, _ in regs:
            ops = [("GCWritePort", sym, a, bytes(l).hex() if l <= 8 else bytes(4).hex(), 0), ("GCReadPort", sym, a, min(l, 8)),
                   ("GCWritePortStacked", sym, [[a, "00000000"], [a + 4, "01000000"]]),
                   ("GCReadPortStacked", sym, [[a, 4], [a + l, 4], [0, 4]])]
            cases.append(make_case(seq_from(ops, prefix=pre), "port-grid"))
        # boundary values in every writable register (selectors: 0 is the only valid index here)
        for _, a, l, acc, _ in regs:
            if "W" not in acc:
                continue
            for val in (0, 1, 2, 255, 256, (1 << 31), (1 << 32) - 1):
                d = bytes((val >> (8 * i)) & 255 for i in range(l)).hex()
                ops = [("GCWritePort", sym, a, d, 0), ("GCGetLastError", 1024), ("GCReadPort", sym, a, l),
                       ("GCWritePort", sym, a, bytes(l).hex(), 0), ("GCReadPort", sym, a, l),
                       ("GCWritePortStacked", sym, [[a, d], [a, bytes(l).hex()]]), ("GCReadPort", sym, a, l)]
                cases.append(make_case(seq_from(ops, prefix=pre), "port-grid"))
        # whole-map reads
        ops = [("GCReadPort", sym, 0, end), ("GCReadPort", sym, 0, end + 1), ("GCReadPort", sym, xa, xl),
               ("GCReadPort", sym, regs[1][1] if hk == "I" else 0, end - (regs[1][1] if hk == "I" else 0))]
        cases.append(make_case(seq_from(ops, prefix=pre), "port-grid"))
    return cases


INFO_QUERIES = (
    [("TLGetInfo", SYS, c) for c in list(range(0, 13)) + [-1, 1000]] +
    [("IFGetInfo", IFC, c) for c in (0, 1, 2, 3, -1)] +
    [("TLGetInterfaceInfo", SYS, IDH, c) for c in (0, 1, 2, 3)] +
    [("TLGetInterfaceInfo", SYS, BADID, 0)] +
    [("GCGetPortInfo", h, c) for h in (SYS, IFC) for c in list(range(0, 14)) + [-1, 999, 1000]] +
    [("GCGetPortURLInfo", h, 0, c) for h in (SYS, IFC) for c in list(range(0, 12)) + [1000]] +
    [("GCGetPortURLInfo", SYS, 1, 0)] +
    [("GCGetPortURL", SYS), ("GCGetPortURL", IFC), ("TLGetInterfaceID", SYS, 0), ("TLGetInterfaceID", SYS, 1),
     ("IFGetDeviceID", IFC, 0), ("IFGetDeviceInfo", IFC, BADID, 0)])
PRE_ALL = [("GCInitLib",), ("TLOpen",), ("TLOpenInterface", SYS, IDH)]


def gen_info_sweep(needs):
    """every info query x buffer sizes NULL, 0..need+1 in one sequence each (need from a size query)"""
    cases = []
    for q, need in zip(INFO_QUERIES, needs):
        caps = [-1] + list(range(0, (need if need is not None else 2) + 2)) + [-1]
        ops = [q + (cap,) for cap in caps]
        cases.append(make_case(seq_from(ops, prefix=PRE_ALL), "info-sweep"))
        # the same on a closed interface / before init
        cases.append(make_case(seq_from([q + (-1,), q + (8,)], prefix=PRE_ALL + [("IFClose", IFC)]), "info-sweep"))
    return cases


# ------------------------------------------------------------------ running -----
def build_so(ck):
    tdir = os.path.join(vplib.CACHE, "target-gentl")
    os.makedirs(tdir, exist_ok=True)
    with Lock("cargo"):
        rc, out = sh(["timeout", "1500", "cargo", "build", "--offline", "-q", "-p", "cameleon-gentl",
                      "--manifest-path", os.path.join(vplib.REPO, "Cargo.toml")],
                     cwd=vplib.REPO, timeout=1600, env={"CARGO_TARGET_DIR": tdir})
    so = os.path.join(tdir, "debug", "libcameleon_gentl.so")
    if rc != 0 or not os.path.exists(so):
        return None, out
    return so, out


CHILD = os.path.join(vplib.VERIF, "tools", "gentl_child.py")


def run_child(ck, so, cases, jobs=None):
    env = {"GENTL_SO": so, "GENTL_CWD": os.path.join(vplib.REPO, "gentl")}
    lines = [c.line for c in cases]
    jobs = jobs or min(vplib.NPROC, max(1, len(lines) // 150 + 1))
    res = ck.run_impl(CHILD, lines, jobs=jobs, env=env, timeout=170 if ck.tier == "quick" else 1100)
    for c, r in zip(cases, res):
        if r is None or r in ([3], [4]) or (r and r[-1] == -6):
            raise MachineryError("the GenTL driver failed on %s: %r" % (c.line[:300], r))
    return res


def learn_facts(ck, so, tr):
    """Phase 1 on the implementation: required sizes of all info queries, the XML served through each
    port (located by the URL info), and from it the register tables the predicate uses."""
    facts = {"if_id": IF_ID}
    probes = [make_case(seq_from([q + (-1,)], prefix=PRE_ALL), "probe") for q in INFO_QUERIES]
    res = run_child(ck, so, probes, jobs=4)
    needs = []
    for c, q, r in zip(probes, INFO_QUERIES, res):
        rs, died = split_results(c.meta["calls"], r)
        last = rs[-1]
        if died or last is None or last[0] != 0:
            needs.append(None)
        else:
            needs.append(last[2] if q[0] in INFO_CALLS else last[1])
    vals = {}
    vprobes = [(q, n) for q, n in zip(INFO_QUERIES, needs) if n is not None and n <= 4096]
    vres = run_child(ck, so, [make_case(seq_from([q + (n,)], prefix=PRE_ALL), "probe") for q, n in vprobes], jobs=4)
    for (q, n), r in zip(vprobes, vres):
        rs, died = split_results([(0, None)] * 4, r)
        last = rs[-1]
        if not died and last and last[0] == 0:
            off = 3 if q[0] in INFO_CALLS else 2
            vals[json.dumps(q)] = last[off:off + n]
    facts["values"] = vals
    # XML location per port from GCGetPortURLInfo 7 / 8 with an 8 byte buffer
    def u64(bs):
        return sum(b << (8 * i) for i, b in enumerate(bs[:8]))
    loc = {}
    for hk, sym in (("S", SYS), ("I", IFC)):
        c = make_case(seq_from([("GCGetPortURLInfo", sym, 0, 7, 8), ("GCGetPortURLInfo", sym, 0, 8, 8)], prefix=PRE_ALL), "probe")
        rs, died = split_results(c.meta["calls"], run_child(ck, so, [c], jobs=1)[0])
        if died or rs[-1] is None or rs[-1][0] != 0 or rs[-2][0] != 0:
            return needs, None, "GCGetPortURLInfo does not give the XML location of port %s" % hk
        loc[hk] = (u64(rs[-2][3:11]), u64(rs[-1][3:11]))
    facts["sys_xml_at"], facts["if_xml_at"] = loc["S"], loc["I"]
    info = {}
    for hk, sym in (("S", SYS), ("I", IFC)):
        xa, xl = loc[hk]
        if xl > 65536:
            return needs, None, "XML of port %s is implausibly large" % hk
        c = make_case(seq_from([("GCReadPort", sym, xa, xl)], prefix=PRE_ALL), "probe")
        rs, died = split_results(c.meta["calls"], run_child(ck, so, [c], jobs=1)[0])
        if died or rs[-1] is None or rs[-1][0] != 0:
            return needs, None, "the XML of port %s cannot be read through the port at the address/size of its URL info" % hk
        xml = bytes(rs[-1][2:2 + xl])
        facts.setdefault("xml", {})[hk] = xml
        try:
            root = ET.fromstring(xml.decode("utf-8"))
        except Exception as e:
            return needs, None, "the XML served by port %s does not parse: %s" % (hk, e)
        ns = re.match(r"\{.*\}", root.tag)
        ns = ns.group(0) if ns else ""
        table, mem = [], {}
        for el in root:
            ad, ln, am = el.find(ns + "Address"), el.find(ns + "Length"), el.find(ns + "AccessMode")
            if ad is not None and ln is not None and am is not None:
                table.append((int(ad.text, 0), int(ln.text, 0), am.text.strip()))
        table.append((xa, xl, "RO"))
        table = sorted(set(table))
        for i in range(xl):
            mem[xa + i] = xml[i]
        facts["sys_table" if hk == "S" else "if_table"] = table
        ports = [el.get("Name") for el in root if el.tag == ns + "Port"]
        at = root.attrib
        ver = "%s.%s.%s" % (at.get("MajorVersion"), at.get("MinorVersion"), at.get("SubMinorVersion"))
        def s(x):
            return list(x.encode()) + [0]
        def i32(x):
            return [(x >> (8 * i)) & 255 for i in range(4)]
        info[json.dumps(["GCGetPortInfo", hk, 1])] = s(at.get("VendorName"))
        info[json.dumps(["GCGetPortInfo", hk, 2])] = s(at.get("ModelName"))
        info[json.dumps(["GCGetPortInfo", hk, 11])] = s(ver)
        if len(ports) == 1:
            info[json.dumps(["GCGetPortInfo", hk, 12])] = s(ports[0])
        info[json.dumps(["GCGetPortInfo", hk, 4])] = s("TLSystem" if hk == "S" else "TLInterface")
        info[json.dumps(["GCGetPortInfo", hk, 5])] = [1]      # register nodes say LittleEndian
        info[json.dumps(["GCGetPortInfo", hk, 6])] = [0]
        info[json.dumps(["GCGetPortURLInfo", hk, 1])] = i32(int(at.get("SchemaMajorVersion")))
        info[json.dumps(["GCGetPortURLInfo", hk, 2])] = i32(int(at.get("SchemaMinorVersion")))
        info[json.dumps(["GCGetPortURLInfo", hk, 3])] = i32(int(at.get("MajorVersion")))
        info[json.dumps(["GCGetPortURLInfo", hk, 4])] = i32(int(at.get("MinorVersion")))
        info[json.dumps(["GCGetPortURLInfo", hk, 5])] = i32(int(at.get("SubMinorVersion")))
        info[json.dumps(["GCGetPortURLInfo", hk, 9])] = i32(0)
        url = "local:%s_%s_%s.xml;%X;%X?SchemaVersion=%s.%s.%s" % (
            at.get("VendorName"), at.get("ModelName"), ver, xa, xl, at.get("SchemaMajorVersion"),
            at.get("SchemaMinorVersion"), at.get("SchemaSubMinorVersion"))
        info[json.dumps(["GCGetPortURLInfo", hk, 0])] = s(url)
        info[json.dumps(["GCGetPortURL", hk])] = s(url)
        if hk == "S":
            info[json.dumps(["TLGetInfo", hk, 1])] = s(at.get("VendorName"))
            info[json.dumps(["TLGetInfo", hk, 2])] = s(at.get("ModelName"))
            info[json.dumps(["TLGetInfo", hk, 3])] = s(ver)
            info[json.dumps(["TLGetInfo", hk, 7])] = s(at.get("ToolTip"))
            info[json.dumps(["TLGetInfo", hk, 0])] = s(at.get("ProductGuid"))
            info[json.dumps(["GCGetPortInfo", hk, 0])] = s(at.get("ProductGuid"))
            info[json.dumps(["TLGetInfo", hk, 8])] = i32(0)
            path = tr["path"].decode()
            info[json.dumps(["TLGetInfo", hk, 6])] = s(path)
            info[json.dumps(["TLGetInfo", hk, 5])] = s(os.path.basename(path))
            info[json.dumps(["TLGetInterfaceID", hk])] = s(IF_ID)
            for i, b in enumerate(path.encode().ljust(1024, b"\0")[:1024]):
                mem[i] = b                      # TLPath register
        else:
            if at.get("ProductGuid") != IF_ID:
                return needs, None, "interface XML ProductGuid differs from the interface id"
            info[json.dumps(["GCGetPortInfo", hk, 0])] = s(IF_ID)
            info[json.dumps(["IFGetInfo", hk, 0])] = s(IF_ID)
            info[json.dumps(["IFGetInfo", hk, 2])] = s("U3V")
            info[json.dumps(["GCGetPortInfo", hk, 3])] = s("U3V")
        facts["sys_bytes" if hk == "S" else "if_bytes"] = mem
    info[json.dumps(["TLGetInterfaceInfo", "S", 0])] = list(IF_ID.encode()) + [0]
    info[json.dumps(["TLGetInterfaceInfo", "S", 2])] = list(b"U3V\0")
    facts["info"] = info
    return needs, facts, None


def genapi_crosscheck(ck, so, facts):
    """The XML served through each port is parsed by the repository's own GenApi implementation
    (rust/h_genapi) over an image of the register map read through the same port; the node values must
    agree with the info queries of the C API.  -> list of disagreements"""
    binary, log = ck.cargo_build("h_genapi")
    if binary is None:
        ck.notes.append("rust/h_genapi does not build; GenApi cross-check of the served XML skipped")
        return []
    bad = []
    vals = facts.get("values", {})

    def sval(q):
        v = vals.get(json.dumps(q))
        return None if v is None else bytes(v[:-1]).decode("latin1")

    def ival(q):
        v = vals.get(json.dumps(q))
        return None if v is None else sum(b << (8 * i) for i, b in enumerate(v))
    plan = {
        "S": [("sv:TLID", sval(("TLGetInfo", SYS, 0))), ("sv:TLVendorName", sval(("TLGetInfo", SYS, 1))),
              ("sv:TLModelName", sval(("TLGetInfo", SYS, 2))), ("sv:TLVersion", sval(("TLGetInfo", SYS, 3))),
              ("sv:TLPath", sval(("TLGetInfo", SYS, 6))), ("v:GenTLVersionMajor", ival(("TLGetInfo", SYS, 9))),
              ("v:GenTLVersionMinor", ival(("TLGetInfo", SYS, 10))), ("sv:InterfaceID", sval(("TLGetInterfaceID", SYS, 0))),
              ("v:InterfaceSelector", 0), ("ce:TLType", sval(("TLGetInfo", SYS, 4)))],
        "I": [("sv:InterfaceID", sval(("IFGetInfo", IFC, 0))), ("v:DeviceSelector", 0),
              ("ce:InterfaceType", sval(("IFGetInfo", IFC, 2)))],
    }
    for hk, sym in (("S", SYS), ("I", IFC)):
        xa, xl = facts["sys_xml_at" if hk == "S" else "if_xml_at"]
        tab = facts["sys_table" if hk == "S" else "if_table"]
        lo = min(a for a, l, m in tab if "R" in m)
        c = make_case(seq_from([("GCReadPort", sym, lo, xa + xl - lo)], prefix=PRE_ALL), "probe")
        rs, died = split_results(c.meta["calls"], run_child(ck, so, [c], jobs=1)[0])
        if died or rs[-1] is None or rs[-1][0] != 0:
            bad.append("port %s: the readable part of the map [%d, %d) cannot be read in one access" % (hk, lo, xa + xl))
            continue
        image = bytes(lo) + bytes(rs[-1][2:2 + xa + xl - lo])
        regs = [(a, l) for a, l, m in tab if (a, l) != (xa, xl)]
        ops = [o for o, _ in plan[hk]]
        line = "g 1 x%s 0 x%s %s" % (facts["xml"][hk].hex(), image.hex(), " ".join(ops))
        out = ck.run_impl(binary, [line], jobs=1)[0]
        if out is None or out[:2] == [1, 99] or out == [2]:
            bad.append("port %s: cameleon-genapi cannot build a node store from the served XML (%r)" % (hk, out and out[:4]))
            continue
        pos = 0
        for op, want in plan[hk]:
            n = out[pos]
            r = out[pos + 1:pos + 1 + n]
            pos += 1 + n
            if want is None:
                continue
            if r[0] != 0:
                bad.append("port %s: GenApi node op %s fails (%r)" % (hk, op, r[:3]))
                continue
            if op.startswith("sv:") or op.startswith("ce:"):
                got = bytes(r[2:2 + r[1]]).decode("latin1") if len(r) > 1 else ""
                if op.startswith("ce:") and got.startswith("$"):
                    got = got[1:].rsplit("_", 1)[0]      # the store names an entry $<Name>_<index>
            else:
                got = r[1]
            if got != want:
                bad.append("port %s: node %s = %r, the C API reports %r" % (hk, op[3:] if op[2] == ":" else op[2:], got, want))
    return bad


def nontrivial(c, out):
    # a sequence in which at least one call succeeded after initialisation beyond GCInitLib
    if out is None:
        return False
    rs, died = split_results(c.meta["calls"], out)
    ok = sum(1 for (t, cc), r in zip(c.meta["calls"], rs) if r and r[0] == 0 and cc[0] != "GCInitLib")
    return ok >= 1


def main():
    ck = Check("C19")
    ck.rule = ("call sequences over the exported system/interface/port functions of libcameleon_gentl.so, each in its "
               "own child process: exhaustive over a 16-call alphabet (handles resolved symbolically: live system / "
               "live interface / NULL / handle of the other module) to length 3 from the unloaded state and to length "
               "3 more behind GCInitLib;TLOpen (10-call alphabet behind GCInitLib;TLOpen;TLOpenInterface), seeded random sequences of 4-14 calls with second-thread blocks, "
               "every info command x buffer NULL,0..need+1 with 16 guard bytes, (address,size) grid on both ports "
               "(register boundaries +-1, end of map +-1, 2^32, 2^63, 2^64-1 x sizes 0,1,4,8,1024,2^32) for reads "
               "and writes with read-back; model = Gallina GenTL.run via vm_compute; non-trivial = a call other "
               "than GCInitLib succeeded")
    ck.trusted += ["tools/gentl_child.py (ctypes driver, fork per sequence), tools/c19.py (generator, translator of "
                   "the formatcp! XML templates, predicate)",
                   "dangling handles (use after TLClose/IFClose) are undefined behaviour in the C API and are not "
                   "exercised; NULL out-pointers are not passed"]
    # vplib.Check.coqchk asks for the library "Cam.C19"; the logical name is Cam.props.C19, so the
    # thorough tier runs coqchk here with the right name instead
    os.environ["VERIF_COQCHK"] = "0"
    proved = ck.prove()
    if proved and ck.tier == "thorough":
        rc, out = sh(["timeout", "1500", "coqchk", "-silent", "-o", "-Q", "theories", "Cam", "Cam.props.C19"],
                     cwd=vplib.COQ, timeout=1600)
        m = re.search(r"\* Axioms:\s*(.*?)(?:\n\s*\*|\Z)", out, flags=re.S)
        axioms = [a.strip() for a in (m.group(1).split("\n") if m else []) if a.strip() and a.strip() != "<none>"]
        ck.dist["coqchk_rc"], ck.dist["coqchk_axioms"] = rc, axioms
        if rc != 0 or axioms:
            ck.proof_broken("coqchk failed or reports axioms:\n" + out[-3000:])
    ck.phase("prove")
    so, log = build_so(ck)
    ck.phase("cargo")
    if so is None:
        path = ck.write_replay({"kind": "build", "property": "C19", "unchecked": "correspondence via libcameleon_gentl.so",
                                "log": log[-6000:]})
        ck.violations.append((path, True, "cameleon-gentl does not build: correspondence cannot be established"))
        ck.finish()
    try:
        tr = translate(vplib.REPO)
    except (ShapeError, OSError, KeyError) as e:
        path = ck.write_replay({"kind": "translate", "property": "C19", "unchecked": "register maps / XML templates of gentl",
                                "why": str(e)})
        ck.violations.append((path, True, "gentl register-map sources no longer have the expected shape: %s" % e))
        ck.finish()
    prelude = env_prelude(tr)
    needs, facts, why = learn_facts(ck, so, tr)
    spec = Spec(facts)

    def predicate(c, out):
        rs, died = split_results(c.meta["calls"], out)
        return spec.check(c.meta["calls"], rs, died)

    if ck.replay:
        r = json.load(open(ck.replay))
        if r.get("kind") != "case":
            print(json.dumps(r, indent=1)[:4000])
            sys.exit(0)
        c = make_case(json.loads(r["case"]), r.get("family", "replay"))
        impl = run_child(ck, so, [c], jobs=1)
        model = ck.run_model_terms(["GenTL"], [c.term], prelude=prelude)
        print("case     :", c.line[:3000])
        print("impl     :", vplib._clip(impl[0], 300))
        print("model    :", vplib._clip(model[0], 300))
        print("predicate:", predicate(c, impl[0]) or "holds")
        ck.compare([c], impl, model, predicate, nontrivial)
        ck.finish()
    if facts is None:
        path = ck.write_replay({"kind": "xml", "property": "C19", "why": why})
        ck.violations.append((path, False, why))
        facts = {}
    rng = Rng(ck.seed)
    cases = gen_sequences(ck, rng)
    cases += gen_info_sweep(needs)
    if facts:
        cases += gen_port_grid(ck, tr, facts)
    ck.phase("generate")
    impl = run_child(ck, so, cases)
    ck.phase("impl")
    model = ck.run_model_terms(["GenTL"], [c.term for c in cases], prelude=prelude, per_eval=100)
    ck.phase("model")
    fams = {}
    for i, c in enumerate(cases):
        fams.setdefault(c.meta["fam"], []).append(i)
    order = ["exhaustive", "port-grid", "info-sweep", "random"]
    for fam in sorted(fams, key=lambda f: order.index(f) if f in order else 99):
        idx = fams[fam]
        ck.compare([cases[i] for i in idx], [impl[i] for i in idx], [model[i] for i in idx], predicate, nontrivial,
                   family=fam, correspondence="GenTL.run vs libcameleon_gentl.so")
    # translator vs served XML: the text regenerated from the sources must be what the ports serve
    if facts:
        for hk, key in (("S", "sys_xml"), ("I", "if_xml")):
            xa, xl = facts["sys_xml_at" if hk == "S" else "if_xml_at"]
            served = bytes(facts["sys_bytes" if hk == "S" else "if_bytes"][xa + i] for i in range(xl))
            if served != tr[key]:
                path = ck.write_replay({"kind": "xml-text", "property": "C19", "port": hk,
                                        "unchecked": "translator output vs XML served through the port"})
                ck.violations.append((path, True, "XML regenerated from the sources differs from the XML the port serves"))
        for w in genapi_crosscheck(ck, so, facts):
            path = ck.write_replay({"kind": "xml-genapi", "property": "C19", "why": w})
            ck.violations.append((path, False, w))
        ck.evaluations += 13
        ck.phase("genapi")
    ck.dist["info_queries"] = len(INFO_QUERIES)
    ck.finish()
