#!/usr/bin/env python3
"""tools/translate_decoders.py -- CODE translator for the bit-level decoders of cameleon/src/u3v/register_map.rs
(properties C13 and C14).  Regenerates coq/theories/gen/DecodersSrc.v on every run; proofs/P_C13s.v and proofs/P_C14s.v
prove the translated functions equal to the hand-written models (model/RegMap.v [decode], [bit_set], [cfg_*],
[reg_address]; model/XmlFetch.v [version_of], [file_type], [compression_type]) for ALL values of the parameter types.

What is translated (typed mini-Rust parser + Gallina emitter of tools/minirust.py, DEBUG-build semantics of
lib/RustInt.v: a shift panics when the amount is not below the width of the shifted type, `1 << exp` has the type its
context demands, `as` binds tighter than `<<`, an integer literal takes the type of its context):

  getters that decode a register word     src_<fn> (word : Z) : outcome ..      + src_<fn>_map, src_<fn>_reg
      Abrm::gencp_version  Sbrm::u3v_version  ManifestEntry::genicam_file_version
      Sirm::payload_size_alignment  Sirm::is_stream_enable
    The body must start with `let X: u32 = self.read_register(device, <mod>::<REG>)?;` - that prologue is checked, the
    register constant it names is emitted as the RegTables.v constant <mod>_<REG> (src_<fn>_reg) together with the map
    of the impl block the function lives in (src_<fn>_map); X becomes the parameter; the REST of the body is translated.
  GenICamFileInfo::{file_type, compression_type, schema_version}      src_file_type / src_compression_type /
      src_schema_version (self0 : Z); self.0 is the u32 of `pub struct GenICamFileInfo(u32);`
  the macros is_bit_set! set_bit! unset_bit! (one rule over two `expr` fragments; the BODY is parsed and expanded, not
      assumed) and every method of DeviceConfiguration / DeviceCapability / U3VCapablitiy (all `pub struct X(u64);`):
      src_cfg_<fn> / src_devcap_<fn> / src_u3vcap_<fn> (self0 : Z); a `&mut self` method yields the new value of self.0
  fn register_address(base, offset)        src_register_address; and which read_register helper of the five impl
      blocks goes through it (src_adds_base : regmap -> bool; the two helper shapes are checked literally)
  impl ParseBytes for u3v::BusSpeed        src_bus_speed (raw : Z), after `let raw = u32::parse_bytes(bytes)?;`

Variants are numbered as the models and harnesses do: GenICamFileType DeviceXml 0, BufferXml 1; CompressionType
Uncompressed 0, Zip 1; BusSpeed Low 0 .. SuperSpeedPlus 4 (the enum declarations are checked).
ControlError::InvalidDevice(<message>) is `Err CE_INVALID_DEVICE` (spec/U3VTables.v); messages are opaque.
semver::Version::new(a, b, c) is the triple (a, b, c).

Anything outside the accepted subset raises ShapeError: the check reports the proof obligations
`C13_*_from_source` / `C14_*_from_source` as broken instead of translating something else."""
import os, re, sys

HERE = os.path.dirname(os.path.abspath(__file__))
sys.path.insert(0, HERE)
import minirust                                                             # noqa: E402
from minirust import ShapeError, Parser, Gen, tokenize, strip_comments, block_after, norm_ws, wrap, coq_type   # noqa: E402

OUT = os.path.join(os.path.dirname(HERE), "coq", "theories", "gen", "DecodersSrc.v")

ENUM_DECLS = {   # enum -> (file relative to the repository, variants in declaration order = their numbers)
    "GenICamFileType": ("cameleon/src/u3v/register_map.rs", ["DeviceXml", "BufferXml"]),
    "CompressionType": ("cameleon/src/genapi/mod.rs", ["Uncompressed", "Zip"]),
    "BusSpeed": ("device/src/u3v/device_info.rs", ["LowSpeed", "FullSpeed", "HighSpeed", "SuperSpeed", "SuperSpeedPlus"]),
}
ERRS = {"ControlError::InvalidDevice": "CE_INVALID_DEVICE"}
MAPS = {"Abrm": ("ABRM", "abrm"), "Sbrm": ("SBRM", "sbrm"), "Sirm": ("SIRM", "sirm"),
        "ManifestTable": ("MTAB", None), "ManifestEntry": ("MENT", "manifest_entry")}
GETTERS = [("Abrm", "gencp_version"), ("Sbrm", "u3v_version"), ("ManifestEntry", "genicam_file_version"),
           ("Sirm", "payload_size_alignment"), ("Sirm", "is_stream_enable")]
FILE_INFO = ["file_type", "compression_type", "schema_version"]
BIT_STRUCTS = [("DeviceConfiguration", "cfg"), ("DeviceCapability", "devcap"), ("U3VCapablitiy", "u3vcap")]
MACROS = ["is_bit_set", "set_bit", "unset_bit"]


def enum_table(repo):
    enums = {}
    for en, (rel, variants) in ENUM_DECLS.items():
        src = strip_comments(open(os.path.join(repo, rel)).read())
        ms = list(re.finditer(r"pub enum %s \{" % en, src))
        if len(ms) != 1:
            raise ShapeError("%d declarations of enum %s in %s" % (len(ms), en, rel))
        body, _ = block_after(src, ms[0].end() - 1)
        found = [x.strip() for x in body.split(",") if x.strip()]
        if found != variants:
            raise ShapeError("enum %s is %s, not %s" % (en, found, variants))
        enums[en] = {"%s::%s" % (en, v): i for i, v in enumerate(variants)}
    return enums


def one_impl(src, head):
    ms = [m for m in re.finditer(r"(?m)^%s \{" % re.escape(head), src)]
    if len(ms) != 1:
        raise ShapeError("%d blocks `%s`" % (len(ms), head))
    return block_after(src, ms[0].end() - 1)[0]


def functions(body):
    """{name: (normalised header between `fn` and the body's brace, body text)} of the fns directly inside an impl"""
    out, pos = {}, 0
    while True:
        m = re.compile(r"\bfn\s+(\w+)").search(body, pos)
        if not m:
            return out
        brace = body.index("{", m.end())
        header = re.sub(r"\s+", "", body[m.start():brace])
        header = header.replace(",)", ")").replace(",>", ">")
        text, end = block_after(body, brace)
        if m.group(1) in out:
            raise ShapeError("two functions named %s" % m.group(1))
        out[m.group(1)] = (header, text)
        pos = end


def ret_type(r, enums):
    if r == "semver::Version":
        return ("tuple", ["u64", "u64", "u64"])
    if r in minirust.INT or r == "bool" or r in enums:
        return r
    raise ShapeError("return type %r" % r)


def parse_body(text, enums):
    p = Parser(tokenize(text), enums)
    blk = p.block()
    if not p.done():
        raise ShapeError("trailing tokens: %r" % p.peek())
    return blk


def compile_fn(text, env, ret, result, enums, macros, what):
    try:
        blk = parse_body(text, enums)
        g = Gen(ret, result, enums=enums, errs=ERRS, macros=macros)
        code, ty = g.block(blk, env, ret)
    except ShapeError as e:
        raise ShapeError("%s: %s" % (what, e))
    return code, ty


def translate(repo):
    path = os.path.join(repo, "cameleon", "src", "u3v", "register_map.rs")
    src = strip_comments(open(path).read())
    enums = enum_table(repo)
    # how the register tables and the enums are named in this file
    if not re.search(r"use cameleon_device::u3v::\{\s*self,\s*register_map::\{abrm, manifest_entry, sbrm, sirm\},\s*\};", src):
        raise ShapeError("the `use cameleon_device::u3v::{self, register_map::{abrm, manifest_entry, sbrm, sirm}}` line changed")
    if not re.search(r"use crate::\{[^}]*\bgenapi::CompressionType\b[^}]*\bControlError\b[^}]*\};", src):
        raise ShapeError("CompressionType / ControlError are not imported from the crate root as expected")
    macros = {n: minirust.parse_macro_rules(src, n) for n in MACROS}
    for n, (params, _) in macros.items():
        if len(params) != 2:
            raise ShapeError("macro %s! has %d parameters" % (n, len(params)))
    defs, notes = [], []

    # ---- getters decoding one register word ---------------------------------------------------------------------
    impls = {n: functions(one_impl(src, "impl " + n)) for n in MAPS}
    for impl, fn in GETTERS:
        if fn not in impls[impl]:
            raise ShapeError("%s::%s not found" % (impl, fn))
        header, text = impls[impl][fn]
        m = re.fullmatch(r"fn%s<Ctrl:DeviceControl\+\?Sized>\(&self,device:&mutCtrl\)->ControlResult<([\w:]+)>" % fn, header)
        if not m:
            raise ShapeError("%s::%s: signature %r" % (impl, fn, header))
        ret = ret_type(m.group(1), enums)
        pm = re.match(r"\s*let (\w+): u32 =\s*self\s*\.read_register\(device, (\w+)::(\w+)\)\?;", text)
        if not pm:
            raise ShapeError("%s::%s does not start with `let X: u32 = self.read_register(device, <mod>::<REG>)?;`" % (impl, fn))
        var, mod, reg = pm.group(1), pm.group(2), pm.group(3)
        if mod != MAPS[impl][1]:
            raise ShapeError("%s::%s reads a register of the table `%s`" % (impl, fn, mod))
        rest = text[pm.end():]
        if re.search(r"\bdevice\b|\bself\b", re.sub(r'"(?:[^"\\]|\\.)*"', '""', rest)):
            raise ShapeError("%s::%s uses self / device after the register read" % (impl, fn))
        code, ty = compile_fn(rest, {var: (Gen.var(var), "u32")}, ret, True, enums, macros, "%s::%s" % (impl, fn))
        if ty != ret:
            raise ShapeError("%s::%s: body has type %r, declared %r" % (impl, fn, ty, ret))
        defs.append(("const", "src_%s_map" % fn, "regmap", MAPS[impl][0]))
        defs.append(("const", "src_%s_reg" % fn, "Z * Z", "%s_%s" % (mod, reg)))
        defs.append(("fn", "src_" + fn, [Gen.var(var)], coq_type(ret), code))
        notes.append("%s::%s reads %s::%s" % (impl, fn, mod, reg))

    # ---- GenICamFileInfo(u32) ----------------------------------------------------------------------------------
    if not re.search(r"pub struct GenICamFileInfo\(u32\);", src):
        raise ShapeError("GenICamFileInfo is not a tuple struct over u32")
    if not re.search(r"impl ParseBytes for GenICamFileInfo \{\s*fn parse_bytes\(bytes: &\[u8\]\) -> ControlResult<Self> \{\s*"
                     r"Ok\(Self\(u32::parse_bytes\(bytes\)\?\)\)\s*\}\s*\}", src):
        raise ShapeError("ParseBytes for GenICamFileInfo is not Ok(Self(u32::parse_bytes(bytes)?))")
    fi = functions(one_impl(src, "impl GenICamFileInfo"))
    for fn in FILE_INFO:
        if fn not in fi:
            raise ShapeError("GenICamFileInfo::%s not found" % fn)
        header, text = fi[fn]
        m = re.fullmatch(r"fn%s\(&self\)->(ControlResult<([\w:]+)>|[\w:]+)" % fn, header)
        if not m:
            raise ShapeError("GenICamFileInfo::%s: signature %r" % (fn, header))
        result = m.group(2) is not None
        ret = ret_type(m.group(2) or m.group(1), enums)
        code, ty = compile_fn(text, {"self.0": ("self0", "u32")}, ret, result, enums, macros, "GenICamFileInfo::" + fn)
        if ty != ret:
            raise ShapeError("GenICamFileInfo::%s: body has type %r, declared %r" % (fn, ty, ret))
        defs.append(("fn", "src_" + fn, ["self0"], coq_type(ret), code))

    # ---- the bit macros and their users ------------------------------------------------------------------------
    for struct, prefix in BIT_STRUCTS:
        if not re.search(r"pub struct %s\(u64\);" % struct, src):
            raise ShapeError("%s is not a tuple struct over u64" % struct)
        if not re.search(r"impl ParseBytes for %s \{\s*fn parse_bytes\(bytes: &\[u8\]\) -> ControlResult<Self> \{\s*"
                         r"Ok\(Self\(u64::parse_bytes\(bytes\)\?\)\)\s*\}\s*\}" % struct, src):
            raise ShapeError("ParseBytes for %s is not Ok(Self(u64::parse_bytes(bytes)?))" % struct)
        fs = functions(one_impl(src, "impl " + struct))
        if not fs:
            raise ShapeError("impl %s has no functions" % struct)
        for fn, (header, text) in fs.items():
            what = "%s::%s" % (struct, fn)
            m = re.fullmatch(r"fn%s\((self|&self|&mutself)\)(?:->(\w+))?" % fn, header)
            if not m:
                raise ShapeError("%s: signature %r" % (what, header))
            env = {"self.0": ("self0", "u64")}
            if m.group(1) == "&mutself":
                if m.group(2):
                    raise ShapeError("%s: a &mut self method with a value" % what)
                code, ty = compile_fn(text, env, None, False, enums, macros, what)
                if ty != ("assigned", "self.0", "u64"):
                    raise ShapeError("%s: the body is not one compound assignment to self.0" % what)
                rty = "u64"
            else:
                if not m.group(2):
                    raise ShapeError("%s: no value" % what)
                rty = ret_type(m.group(2), enums)
                code, ty = compile_fn(text, env, rty, False, enums, macros, what)
                if ty != rty:
                    raise ShapeError("%s: body has type %r, declared %r" % (what, ty, rty))
            defs.append(("fn", "src_%s_%s" % (prefix, fn), ["self0"], coq_type(rty), code))

    # ---- register_address and who calls it ---------------------------------------------------------------------
    ms = list(re.finditer(r"(?m)^fn register_address\(", src))
    if len(ms) != 1:
        raise ShapeError("%d free functions register_address" % len(ms))
    brace = src.index("{", ms[0].end())
    header = re.sub(r"\s+", "", src[ms[0].start():brace])
    m = re.fullmatch(r"fnregister_address\((\w+):u64,(\w+):u64\)->ControlResult<u64>", header)
    if not m or m.group(1) == m.group(2):
        raise ShapeError("register_address: signature %r" % header)
    text, _ = block_after(src, brace)
    env = {m.group(1): (Gen.var(m.group(1)), "u64"), m.group(2): (Gen.var(m.group(2)), "u64")}
    code, ty = compile_fn(text, env, "u64", True, enums, macros, "register_address")
    if ty != "u64":
        raise ShapeError("register_address: body has type %r" % (ty,))
    defs.append(("fn", "src_register_address", [Gen.var(m.group(1)), Gen.var(m.group(2))], "Z", code))
    adds = {}
    for impl, (cmap, _) in MAPS.items():
        if "read_register" not in impls[impl]:
            raise ShapeError("%s::read_register not found" % impl)
        header, text = impls[impl]["read_register"]
        if not re.fullmatch(r"fnread_register<T,Ctrl(:DeviceControl\+\?Sized)?>\(&self,device:&mutCtrl,register:\(u64,u16\)\)"
                            r"->ControlResult<T>whereT:ParseBytes(,Ctrl:DeviceControl\+\?Sized)?,?", header):
            raise ShapeError("%s::read_register: signature %r" % (impl, header))
        t = norm_ws(text)
        sm = re.search(r"pub struct %s \{([^}]*)\}" % impl, src)
        if not sm:
            raise ShapeError("struct %s not found" % impl)
        u64_fields = re.findall(r"(\w+): u64", sm.group(1))
        if t == "read_register(device, register.0, register.1)":
            adds[cmap] = False
        else:
            bm = re.fullmatch(r"let \((\w+), (\w+)\) = register; let (\w+) = register_address\(self\.(\w+), (\w+)\)\?; "
                              r"read_register\(device, (\w+), (\w+)\)", t)
            if not bm or bm.group(5) != bm.group(1) or bm.group(6) != bm.group(3) or bm.group(7) != bm.group(2) \
                    or len({bm.group(1), bm.group(2), bm.group(3)}) != 3 or u64_fields != [bm.group(4)]:
                raise ShapeError("%s::read_register has neither of the two accepted bodies" % impl)
            adds[cmap] = True
    defs.append(("match", "src_adds_base", "regmap", "bool", [(k, "true" if v else "false") for k, v in adds.items()]))

    # ---- ParseBytes for u3v::BusSpeed --------------------------------------------------------------------------
    bs = functions(one_impl(src, "impl ParseBytes for u3v::BusSpeed"))
    if list(bs) != ["parse_bytes"] or bs["parse_bytes"][0] != "fnparse_bytes(bytes:&[u8])->ControlResult<Self>":
        raise ShapeError("ParseBytes for u3v::BusSpeed: signature")
    text = bs["parse_bytes"][1]
    um = re.match(r"\s*use u3v::BusSpeed::\{([\w, \n]+)\};\s*let (\w+) = u32::parse_bytes\(bytes\)\?;", text)
    if not um:
        raise ShapeError("ParseBytes for u3v::BusSpeed does not start with the `use` of the variants and "
                         "`let X = u32::parse_bytes(bytes)?;`")
    imported = [x.strip() for x in um.group(1).split(",") if x.strip()]
    if sorted(imported) != sorted(ENUM_DECLS["BusSpeed"][1]):
        raise ShapeError("the variants imported by ParseBytes for u3v::BusSpeed are %s" % imported)
    enums_b = dict(enums)
    enums_b["BusSpeed"] = {v: i for i, v in enumerate(ENUM_DECLS["BusSpeed"][1])}
    var = um.group(2)
    rest = text[um.end():]
    if re.search(r"\bbytes\b", rest):
        raise ShapeError("ParseBytes for u3v::BusSpeed uses `bytes` after parsing the word")
    code, ty = compile_fn(rest, {var: (Gen.var(var), "u32")}, "BusSpeed", True, enums_b, macros, "ParseBytes for u3v::BusSpeed")
    if ty != "BusSpeed":
        raise ShapeError("ParseBytes for u3v::BusSpeed: body has type %r" % (ty,))
    defs.append(("fn", "src_bus_speed", [Gen.var(var)], "Z", code))
    return {"defs": defs, "path": path, "notes": notes}


def render(t):
    o = ["(* GENERATED by tools/translate_decoders.py from cameleon/src/u3v/register_map.rs - do not edit.",
         "   Debug-build semantics of lib/RustInt.v.  A getter's parameter is the u32 register word it has read",
         "   (src_<fn>_map / src_<fn>_reg: the impl block it lives in and the table constant it reads); self0 is self.0.",
         "   DeviceXml 0, BufferXml 1; Uncompressed 0, Zip 1; LowSpeed 0 .. SuperSpeedPlus 4; semver::Version = triple."]
    o += ["   " + n for n in t["notes"]]
    o[-1] += " *)"
    o += ["From Cam Require Import Outcome RustInt U3VTables RegTables.", ""]
    for d in t["defs"]:
        if d[0] == "const":
            o.append("Definition %s : %s := %s." % (d[1], d[2], d[3]))
        elif d[0] == "match":
            o.append("Definition %s (m : %s) : %s :=" % (d[1], d[2], d[3]))
            o.append("  match m with " + " | ".join("%s => %s" % kv for kv in d[4]) + " end.")
            o.append("")
        else:
            o.append(wrap("Definition %s (%s : Z) : outcome %s :=" % (d[1], " ".join(d[2]), d[3])))
            o.append(wrap("  " + d[4] + "."))
            o.append("")
    return "\n".join(o)


def regenerate(repo=None):
    repo = repo or os.environ.get("VERIF_REPO", "/repo")
    t = translate(repo)
    text = render(t)
    old = open(OUT).read() if os.path.exists(OUT) else None
    if old != text:
        with open(OUT, "w") as f:
            f.write(text)
    return t


if __name__ == "__main__":
    try:
        t = regenerate(sys.argv[1] if len(sys.argv) > 1 else None)
    except ShapeError as e:
        print("ShapeError:", e)
        sys.exit(1)
    print(open(OUT).read())
