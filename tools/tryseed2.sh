#!/bin/sh
# usage: tools/tryseed2.sh <patch.diff> <name> <Cxx> [more Cxx...]
# Applies a seeded change to a private sandbox copy of /repo (never to /repo), runs the quick checks of the
# given properties from a relocated copy of /verif, prints their verdict lines, removes the sandbox.
P="$(realpath "$1")"; N="$2"; shift; shift
D=$(/verif/tools/mksandbox.sh "$N") || exit 3
if ! git -C "$D/repo" apply "$P"; then echo "RESULT $N patch-does-not-apply"; rm -rf "$D"; exit 3; fi
cd "$D/verif"
for c in "$@"; do
  VERIF_REPO="$D/repo" timeout 1500 ./check "$c" quick > "$D/out_$c.txt" 2>&1
  rc=$?
  grep -E "VIOLATION|KNOWN-FINDING|MACHINERY" "$D/out_$c.txt" | head -4
  grep -E "^\s+\[$c\]" "$D/out_$c.txt" | head -3
  tail -1 "$D/out_$c.txt"
  echo "RESULT $N $c rc=$rc"
done
rm -rf "$D"
