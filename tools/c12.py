"""C12 — streaming delivers intact frames in order, never stalls, and stops promptly
(also the implementation-side tie of the payload-assembly part of C11).

The real StreamHandle / StreamingLoop::run of /repo/cameleon run over the scripted bulk-in
endpoint of rust/shim with a receiver thread and a controller; every operation at which the
threads interact is recorded in one totally ordered trace (rust/achan).  The model side
(model/StreamLoop.v) replays each recorded trace through `step` and must accept it and predict
every item the receiver got; the predicate below evaluates the property on the implementation's
output alone, from the U3V stream layout."""
import json
import os
import sys

from u3vworld import std_world, SIRM
from vplib import Case, Check, Rng, xhex, zlist, zlit, _clip, REPO, NPROC

MASK32 = 0xFFFFFFFF
MONO8 = 0x01080001
PF_CODES = [0x01080001, 0x01100003, 0x02180014, 0x0210001F, 0x01080009]


def le(v, n):
    return bytes((v >> (8 * i)) & 255 for i in range(n))


def be(v, n):
    return bytes((v >> (8 * (n - 1 - i))) & 255 for i in range(n))


def hash_bytes(bs):
    h = 0
    for b in bs:
        h = (h * 31 + b) & MASK32
    return h


# ---------------------------------------------------------------- U3V stream packets --

PT_IMAGE, PT_EXT, PT_CHUNK = 0x0001, 0x4001, 0x4000


def leader(bid, ptype=PT_IMAGE, ts=7, pf=MONO8, w=4, h=2, xo=0, yo=0, xpad=0, size=None, magic=0x4C563355):
    spec = le(ts, 8) if ptype == PT_CHUNK else (
        le(ts, 8) + le(pf, 4) + le(w, 4) + le(h, 4) + le(xo, 4) + le(yo, 4) + le(xpad, 2) + le(0, 2))
    size = 20 + len(spec) if size is None else size
    return le(magic, 4) + le(0, 2) + le(size, 2) + le(bid, 8) + le(0, 2) + le(ptype, 2) + spec


def trailer(bid, valid, status=0, ptype=PT_IMAGE, h=2, layout=0, size=None, magic=0x54563355):
    spec = le(h, 4) if ptype == PT_IMAGE else (le(h, 4) + le(layout, 4) if ptype == PT_EXT else le(layout, 4))
    size = 28 + len(spec) if size is None else size
    return le(magic, 4) + le(0, 2) + le(size, 2) + le(bid, 8) + le(status, 2) + le(0, 2) + le(valid, 8) + spec


def chunk_payload(parts):
    """[(data, id)] -> chunk data block: data, id (4, BE), length (4, BE), first chunk first."""
    out = b""
    for d, cid in parts:
        out += d + be(cid, 4) + be(len(d), 4)
    return out


class Params:
    def __init__(self, lsz, tsz, psz, cnt, f1, f2):
        self.lsz, self.tsz, self.psz, self.cnt, self.f1, self.f2 = lsz, tsz, psz, cnt, f1, f2

    def psizes(self):
        return [self.psz] * self.cnt + ([self.f1] if self.f1 else []) + ([self.f2] if self.f2 else [])

    def slots(self):
        return [self.lsz] + self.psizes() + [self.tsz]

    def maxp(self):
        return self.psz * self.cnt + self.f1 + self.f2

    def coq(self):
        return "(Build_params %d %d %d %d %d %d)" % (self.lsz, self.tsz, self.psz, self.cnt, self.f1, self.f2)

    def pokes(self):
        return [(SIRM + 0x18, self.lsz), (SIRM + 0x1C, self.psz), (SIRM + 0x20, self.cnt),
                (SIRM + 0x24, self.f1), (SIRM + 0x28, self.f2), (SIRM + 0x2C, self.tsz)]


# -------------------------------------------- the property's own notion of a frame --

PIXEL_CODES = None


def pixel_codes():
    """codes accepted by PixelFormat::try_from(u32), read from the source table"""
    global PIXEL_CODES
    if PIXEL_CODES is None:
        import re
        src = open(os.path.join(REPO, "device/src/pixel_format.rs")).read()
        i = src.index("impl TryFrom<u32> for PixelFormat")
        j = src.index("impl From<PixelFormat> for u32")
        PIXEL_CODES = set(int(x, 16) for x in re.findall(r"0x([0-9A-Fa-f_]+)\s*=>", src[i:j].replace("_", "")))
    return PIXEL_CODES


def u(bs, off, n):
    if off + n > len(bs):
        return None
    return int.from_bytes(bs[off:off + n], "little")


def decode_frame(prm, seg):
    """What a receiver may be handed for the transfers `seg` (bytes per transfer: leader, payload
    transfers, trailer) of one frame, from the U3V layout: None if the frame must not be delivered
    as a payload, else (view, must) where view is the 17-int description after the leading 0 and
    `must` says the frame is regular (has to be delivered when there is room)."""
    ld, pds, tr = seg[0], seg[1:-1], seg[-1]
    if u(ld, 0, 4) != 0x4C563355 or len(ld) < 20:
        return None
    bid, pt = u(ld, 8, 8), u(ld, 18, 2)
    if pt not in (PT_IMAGE, PT_EXT, PT_CHUNK):
        return None
    if u(tr, 0, 4) != 0x54563355 or len(tr) < 28:
        return None
    status, valid = u(tr, 16, 2), u(tr, 20, 8)
    if status != 0:
        return None
    # payload bytes: the transfers are parts of one byte string only while every earlier one is full
    sizes = prm.psizes()
    data = b""
    regular = True
    contiguous = True
    for d, sz in zip(pds, sizes):
        if contiguous:
            data += d
        elif len(d):
            regular = False
        if len(d) != sz:
            contiguous = False
    if valid > len(data):
        return None
    ts = u(ld, 20, 8)
    if ts is None:
        return None
    if pt == PT_CHUNK:
        if u(tr, 28, 4) is None:
            return None
        info = [0, 0, 0, 0, 0, 0, 0]
        image = None
        ty = 2
    else:
        pf, w, xo, yo = u(ld, 28, 4), u(ld, 32, 4), u(ld, 40, 4), u(ld, 44, 4)
        if u(ld, 50, 2) is None or pf not in pixel_codes():
            return None
        h = u(tr, 28, 4)
        if h is None:
            return None
        if pt == PT_IMAGE:
            isz = valid
            ty = 0
        else:
            if u(tr, 32, 4) is None:
                return None
            # chunk data is decoded from its end: ... data, id, length
            off = valid
            while True:
                if off < 4:
                    return None
                off -= 4
                n = int.from_bytes(data[off:off + 4], "big")
                if off < n + 4:
                    return None
                off -= n + 4
                if off == 0:
                    isz = n
                    break
            ty = 1
        info = [1, w, h, xo, yo, pf, isz]
        image = data[:isz]
    pl = data[:valid]
    view = [bid, ty, valid, ts] + info + [0, len(pl), hash_bytes(pl)] + (
        [0, 0, 0] if image is None else [1, len(image), hash_bytes(image)])
    return view, regular


def segments(prm, transfers):
    """The transfers each iteration of the loop consumes: nslots results, or up to and including
    the first failing one (error, time-out, more data than the transfer takes)."""
    slots = prm.slots()
    segs = []
    cur = []
    for x in transfers:
        k = len(cur)
        cur.append(x)
        bad = not isinstance(x, (bytes, bytearray)) or len(x) > slots[k]
        if bad or len(cur) == len(slots):
            segs.append((cur, not bad))
            cur = []
    if cur:
        segs.append((cur, False))
    return segs


# -------------------------------------------------------------------- case building --

def make_world(prm, resp_ms=3):
    w = std_world(resp_ms=resp_ms)
    for a, v in prm.pokes():
        w.poke(a, 4, v)
    return w


START, STOP, SLEEP, WAITX, CLOSE, DROPH, WAITR, POKE, PHASE, WAITRP = 10, 11, 12, 13, 14, 15, 16, 17, 18, 19


def strm_case(prm, transfers, rprog, cprog, cap_p=64, cap_b=8, seed=1, permille=0, max_us=0, suberrs=(), fam="",
              prm2=None, note=""):
    w = make_world(prm)
    t = list(w.toks) + [30, cap_p, cap_b, seed, permille, max_us, len(transfers)]
    for x in transfers:
        if isinstance(x, (bytes, bytearray)):
            t += [0, xhex(x)]
        elif x == "T":
            t += [2]
        else:
            t += [1, x]
    t += [len(suberrs)] + [v for p in suberrs for v in p]
    t += [len(rprog)] + [v for p in rprog for v in p]
    cp = []
    for op in cprog:
        if op[0] == "params":
            for a, v in op[1].pokes():
                cp.append((POKE, a, 4, v))
        else:
            cp.append(op)
    t += [len(cp)] + [v for p in cp for v in p]
    meta = dict(prm=prm, transfers=list(transfers), rprog=list(rprog), cprog=list(cprog), cap_p=cap_p, cap_b=cap_b,
                suberrs=list(suberrs), fam=fam, note=note)
    return Case("strm", t, meta=meta)


def parse_out(o):
    if not o or o[0] != 0:
        return None
    n = o[1]
    p = 2
    items = []
    for _ in range(n):
        if o[p] == 0:
            items.append(o[p:p + 18])
            p += 18
        elif o[p] == 1:
            items.append(o[p:p + 2])
            p += 2
        else:
            return None
    if o[p] != -4:
        return None
    nh = o[p + 1]
    held = o[p + 2:p + 2 + nh]
    p += 2 + nh
    if o[p] != -3:
        return None
    nr = o[p + 1]
    res = o[p + 2:p + 2 + nr]
    p += 2 + nr
    if o[p] != -5:
        return None
    ne = o[p + 1]
    ev = [tuple(o[p + 2 + 4 * i:p + 6 + 4 * i]) for i in range(ne)]
    p += 2 + 4 * ne
    if o[p] != -6:
        return None
    return dict(items=items, held=held, res=res, ev=ev, remaining=o[p + 1], waits_timed_out=o[p + 2])


# ------------------------------------------------------------ trace -> model labels --

K_POOL_NEW, K_SUBMIT, K_SUBMIT_ERR, K_POLL, K_POOL_DROP = 1, 2, 3, 4, 5
K_TRY_SEND, K_TRY_RECV, K_SENDER_DROP, K_RECEIVER_DROP = 10, 11, 12, 13


def runs_of(ev):
    """[{start, call, ret, events}]: per successful start the index of its mark, of the stop call
    (stop / close / drop with a running loop) and of its return, and the indices of the loop's
    operations (pool and channel operations of threads spawned by the code under test)."""
    runs = []
    cur = None
    call = None
    for i, e in enumerate(ev):
        r, k, a, b = e
        if r == 0 and k == 20:
            j = next((j for j in range(i + 1, len(ev)) if ev[j][0] == 0 and ev[j][1] == 21), None)
            if j is not None and ev[j][2] == 0:
                cur = dict(start=i, call=None, ret=None, events=[])
                runs.append(cur)
        elif r == 0 and k in (22, 26, 28):
            call = a
            if a == 1 and cur is not None:
                cur["call"] = i
        elif r == 0 and k in (23, 27, 29):
            if call == 1 and cur is not None:
                cur["ret"] = i
                cur = None
            call = None
        elif r >= 100 and k in (K_POOL_NEW, K_SUBMIT, K_SUBMIT_ERR, K_POLL, K_POOL_DROP, K_TRY_SEND, K_TRY_RECV):
            if cur is not None:
                cur["events"].append(i)
            else:
                runs.append(dict(start=None, call=None, ret=None, events=[i], stray=True))
    return runs


def run_params(c, ev):
    """stream parameters of every successful start, in order (a poke of the controller program
    takes effect at the next start)"""
    m = c.meta
    per_start = []
    cur = m["prm"]
    for op in m["cprog"]:
        if op[0] == "params":
            cur = op[1]
        elif op[0] == START:
            per_start.append(cur)
    codes = []
    for i, e in enumerate(ev):
        if e[0] == 0 and e[1] == 20:
            j = next((j for j in range(i + 1, len(ev)) if ev[j][0] == 0 and ev[j][1] == 21), None)
            codes.append(ev[j][2] if j is not None else -1)
    return [per_start[k] if k < len(per_start) else m["prm"] for k, code in enumerate(codes) if code == 0]


def segments_runs(c, ev):
    """[(params, transfers of one iteration, complete?)] over all runs: each run consumes the
    script where the previous one stopped (a loop only stops between iterations)."""
    tr = c.meta["transfers"]
    prms = run_params(c, ev)
    out = []
    pos = 0
    for rn, prm in zip([r for r in runs_of(ev) if not r.get("stray")], prms):
        polls = sum(1 for i in rn["events"] if ev[i][1] == K_POLL)
        end = min(len(tr), pos + polls)
        out += [(prm, s, ok) for s, ok in segments(prm, tr[pos:end])]
        pos = end
    return out


def labels_of_trace(c, po):
    """The model's labels for a recorded trace.  The cancellation check of the loop (a try_recv on a
    std mpsc channel) and the moment the controller's send registers in that channel are not
    observable; they are inserted where the loop's next own step shows them to have been:
    `LCancel 0` right before the next operation of an iteration that went on, `KRegister; LCancel 1`
    as soon as both the stop call and the loop's arrival at the loop head are in the past for the
    check that ended the loop."""
    ev = po["ev"]
    m = c.meta
    # parameters of every run: the pokes of the controller program take effect at the next start
    prm_runs = []
    cur = m["prm"]
    for op in m["cprog"]:
        if op[0] == "params":
            cur = op[1]
        elif op[0] == START:
            prm_runs.append(cur)
    n = len(ev)
    lab = [[] for _ in range(n + 1)]        # labels emitted *after* event i-1 / before event i; slot i
    own = [None] * n                        # the label of event i itself
    run_ix = 0
    start_at = []                           # event index of successful starts, in order
    stop_calls = []                         # event index of stop calls with a running loop, in order
    recv_count = 0
    pending_call = None
    sb_index = None
    for i, e in enumerate(ev):
        r, k, a, b = e
        if r == 0:
            if k == 20:
                # the result is in the matching 21
                j = next(j for j in range(i + 1, n) if ev[j][0] == 0 and ev[j][1] == 21)
                code = ev[j][2]
                if code == 0:
                    q = prm_runs[run_ix] if run_ix < len(prm_runs) else m["prm"]
                    own[i] = "TL (KStart %s)" % q.coq()
                    start_at.append(i)
                elif code == 109:
                    own[i] = "TL KStartBusy"
                run_ix += 1
            elif k in (22, 26, 28):
                pending_call = a
                if a == 1:
                    own[i] = "TL KStopCall"
                    stop_calls.append(i)
            elif k in (23, 27, 29):
                if pending_call == 1:
                    own[i] = "TL KStopRet"
                pending_call = None
        elif r == 2:
            if k == K_TRY_RECV and a == 0:
                own[i] = "TL (RRecv %d)" % (0 if b == 0 else 1)
                if b == 0:
                    recv_count += 1
            elif k == 30:
                sb_index = a             # a payload kept earlier is about to be sent back
            elif k == K_TRY_SEND and a == 1:
                own[i] = "TSendBack %d %d" % (recv_count - 1 if sb_index is None else sb_index, b)
                sb_index = None
            elif k == K_RECEIVER_DROP and a == 0:
                own[i] = "TL RDrop"
        else:
            if k == K_TRY_RECV and a == 1:
                own[i] = "TL (LBackRecv %d)" % (0 if b == 0 else 1)
            elif k == K_POOL_NEW:
                own[i] = "TL LPoolNew"
            elif k == K_SUBMIT:
                own[i] = "TL (LSubmitOk %d)" % a
            elif k == K_SUBMIT_ERR:
                own[i] = "TL (LSubmitErr %d)" % a
            elif k == K_POLL:
                own[i] = ("TL (LPollData %d)" % a) if a >= 0 else ("TL LPollTimeout" if a == -7 else "TL (LPollErr %d)" % (-1 - a))
            elif k == K_POOL_DROP:
                own[i] = "TL (LPoolDrop %d)" % a
            elif k == K_TRY_SEND and a == 0:
                own[i] = "TL (LTrySend %d)" % b
            elif k == K_SENDER_DROP and a == 0:
                own[i] = "TL LSenderDrop"
    # cancellation checks, per run: the loop events between a successful start and the return of
    # its stop belong to the loop of that run (a loop acts only between these two marks; only the
    # drop of its PayloadSender may come later)
    for rn in runs_of(ev):
        head_since = rn["start"]
        for i in rn["events"]:
            if head_since is not None:
                lab[i].append("TL (LCancel 0)")
                head_since = None
            if ev[i][1] == K_POOL_DROP:
                head_since = i
        if head_since is not None and rn["call"] is not None:
            lab[max(head_since, rn["call"]) + 1] += ["TL KRegister", "TL (LCancel 1)"]
    out = []
    for i in range(n):
        out += lab[i]
        if own[i] is not None:
            out.append(own[i])
    out += lab[n]
    return out


def coq_script(transfers):
    xs = []
    for x in transfers:
        if isinstance(x, (bytes, bytearray)):
            xs.append("XData %s" % zlist(list(x)))
        elif x == "T":
            xs.append("XTimeout")
        else:
            xs.append("XErr %d" % x)
    return "[" + "; ".join(xs) + "]"


def model_term(c, po):
    labs = labels_of_trace(c, po)
    return "replay true %s %d %d [%s]" % (coq_script(c.meta["transfers"]), c.meta["cap_p"], c.meta["cap_b"],
                                          "; ".join(labs))


def impl_summary(po):
    """what `replay` prints when the model accepts the whole trace and predicts every item"""
    ev = po["ev"]
    sends = [e for e in ev if e[0] >= 100 and e[1] == K_TRY_SEND and e[2] == 0]
    flat = [v for it in po["items"] for v in it]
    return [-1, len(po["items"])] + flat + [po["remaining"], 0, 0, sum(1 for e in sends if e[3] == 0),
                                            sum(1 for e in sends if e[3] != 0)]


# ---------------------------------------------------------------------- the predicate --

def predicate(c, out):
    m = c.meta
    if out in ([3], [4]) or out is None:
        return "the harness hung or died on this case (a stop that does not return / a blocked or crashed loop): %r" % (out,)
    po = parse_out(out)
    if po is None:
        return "harness output unreadable: %r" % (_clip(out),)
    ev, items = po["ev"], po["items"]
    # (a) start / stop / close / drop return without error or panic
    for k, r in enumerate(po["res"]):
        if r == 107:
            return ("controller operation %d failed with Poisoned: the streaming loop thread is gone (it panicked), "
                    "frames are no longer delivered" % k)
        if r != 0 and not (r == 109 and m.get("expect_busy")):
            return "controller operation %d failed with code %d" % (k, r)
    if po["waits_timed_out"]:
        return "the loop stopped consuming transfers / delivering items while it was supposed to run"
    # (b) no accessor panics (C11: image()/payload() stay inside the buffer)
    for it in items:
        if it[0] == 0 and (it[12] == 2 or it[15] == 2 or it[3] < 0):
            return "payload()/image() panicked on a delivered payload (id %d)" % it[1]
    # (c) payloads the receiver still holds are never altered
    if any(f != 1 for f in po["held"]):
        return "a payload held by the receiver changed after it was received"
    # (d) every Ok item is exactly one frame the device sent, in order, no duplicates
    segs = segments_runs(c, ev)
    views = [decode_frame(q, sg) if ok else None for q, sg, ok in segs]
    k = 0
    delivered = []
    for it in items:
        if it[0] != 0:
            continue
        while k < len(views) and not (views[k] is not None and views[k][0] == it[1:]):
            k += 1
        if k == len(views):
            return ("delivered payload id=%d valid=%d is not (the next) complete frame the device sent: "
                    "a mixture of frames, a duplicate or out of order" % (it[1], it[3]))
        delivered.append(k)
        k += 1
    # (e) everything regular is delivered when the channel always had room
    sends = [e for e in ev if e[0] >= 100 and e[1] == K_TRY_SEND and e[2] == 0]
    suberr = bool(m["suberrs"])
    if all(e[3] == 0 for e in sends) and not suberr and m.get("drains"):
        for ix in range(len(segs)):
            if views[ix] is not None and views[ix][1] and ix not in delivered:
                return "frame %d (well-formed, channel never full) was consumed but not delivered" % ix
    # (f) a loop works only between its start and the return of its stop; when the stop returns
    # its pool is gone; what a pool drop reaps is exactly what was submitted and not completed
    for rn in runs_of(ev):
        if rn.get("stray"):
            e = ev[rn["events"][0]]
            return "a streaming loop kept working after its stop returned (event kind %d)" % e[1]
        if rn["ret"] is None:
            return "a streaming loop was started but no stop returned for it"
        inflight = 0
        pool = False
        for i in rn["events"]:
            e = ev[i]
            if e[1] == K_POOL_NEW:
                if pool:
                    return "a new pool was created while the previous one still existed"
                pool = True
            elif e[1] == K_SUBMIT:
                inflight += 1
            elif e[1] == K_POLL and e[2] != -7:
                inflight -= 1
            elif e[1] == K_POOL_DROP:
                if e[2] != inflight:
                    return "pool drop reaped %d transfers, %d were outstanding" % (e[2], inflight)
                inflight = 0
                pool = False
        if pool or inflight:
            return "transfers were still outstanding when stop returned"
    return None


def nontrivial(c, out):
    po = parse_out(out) if out else None
    return bool(po and any(it[0] == 0 for it in po["items"]))


# ------------------------------------------------------------------------- generators --

def good_frame(prm, bid, ptype=PT_IMAGE, fill=None, valid=None, ts=None, **kw):
    sizes = prm.psizes()
    total = sum(sizes)
    fill = (bid * 37 + 11) & 255 if fill is None else fill
    data = bytes((fill + 3 * i) & 255 for i in range(total))
    if ptype == PT_EXT:
        # image chunk + one small extra chunk when it fits
        if total >= 24:
            img = total - 8 - 12
            data = chunk_payload([(data[:img], 1), (b"\x99" * 4, 2)])
        elif total >= 8:
            data = chunk_payload([(data[:total - 8], 1)])
    valid = total if valid is None else valid
    pds = []
    o = 0
    for s in sizes:
        pds.append(data[o:o + s])
        o += s
    ts = bid * 1000 + 5 if ts is None else ts
    return [leader(bid, ptype, ts=ts, **kw)] + pds + [trailer(bid, valid, ptype=ptype)]


EAGER = [(1, 100000, 1)]
EAGER_HOLD = [(1, 100000, 0)]
EAGER_DROP = [(1, 100000, 2)]
EAGER_ALT = [(1, 100000, 3)]
RUN_ALL = [(START,), (WAITX, 0), (SLEEP, 200), (STOP,)]

P0 = Params(52, 36, 16, 2, 0, 0)
P1 = Params(64, 40, 8, 3, 5, 3)
P2 = Params(52, 36, 0, 0, 24, 0)
P3 = Params(56, 36, 12, 1, 0, 7)
P4 = Params(52, 32, 0, 0, 0, 0)
P_S = Params(52, 36, 8, 2, 0, 0)
P_L = Params(52, 36, 16, 3, 4, 0)
P_F = Params(52, 36, 8, 2, 5, 3)
PARAMS = [P0, P1, P2, P3]


def boundary_cases():
    cs = []

    def add(prm, tr, rprog=EAGER, cprog=RUN_ALL, fam="boundary", drains=True, **kw):
        c = strm_case(prm, tr, rprog, cprog, fam=fam, **kw)
        c.meta["drains"] = drains
        cs.append(c)
        return c

    for prm in PARAMS + [P4]:
        for pt in (PT_IMAGE, PT_EXT, PT_CHUNK):
            add(prm, sum([good_frame(prm, b, pt) for b in (1, 2, 3)], []), note="three good frames")
    # the defects of the pinned code: stale leader / trailer, hole in the payload
    f1 = good_frame(P0, 1)
    f2 = good_frame(P0, 2)
    add(P0, f1 + f2[:-1] + [b""], note="empty trailer transfer after a good frame")
    add(P0, f1 + f2[:-1] + [f2[-1][:10]], note="short trailer transfer after a good frame")
    add(P0, f1 + [b""] + f2[1:], note="empty leader transfer after a good frame")
    add(P0, f1 + [f2[0][:19]] + f2[1:], note="short leader transfer after a good frame")
    g = good_frame(P0, 3)
    add(P0, f1 + f2 + [g[0], g[1][:4], g[2], trailer(3, 20)], note="hole in the payload, valid size covers it")
    add(P0, f1 + f2 + [g[0], g[1][:4], g[2], trailer(3, 4)], note="hole in the payload, valid size before it")
    add(P0, f1 + f2 + [g[0], g[1][:4], b"", trailer(3, 4)], note="short payload, rest empty")
    # valid_payload_size around every boundary, all payload types
    for prm in (P0, P1, P3):
        tot = prm.maxp()
        for pt in (PT_IMAGE, PT_CHUNK):
            tr = []
            for i, v in enumerate([0, 1, tot - 1, tot, tot + 1, 2 ** 32, 2 ** 63, 2 ** 64 - 1]):
                tr += good_frame(prm, 10 + i, pt, valid=v)
            add(prm, tr, note="valid_payload_size boundaries")
        # received fewer bytes than the buffer: short last transfers
        for cut in (0, 1, prm.psizes()[-1] - 1):
            tr = []
            for i, v in enumerate([tot - prm.psizes()[-1] + cut - 1, tot - prm.psizes()[-1] + cut, tot - prm.psizes()[-1] + cut + 1]):
                f = good_frame(prm, 20 + i, PT_IMAGE, valid=max(v, 0))
                f[-2] = f[-2][:cut]
                tr += f
            add(prm, tr, note="short final transfer, valid size around the received size")
    # extended chunk layouts
    prm = Params(52, 36, 16, 2, 0, 0)
    layouts = [
        [(bytes(range(24)), 1)],                       # exactly one chunk filling the payload
        [(bytes(range(8)), 1), (bytes(range(8)), 2)],  # two chunks
        [(b"", 1), (bytes(range(16)), 2)],             # empty image chunk
        [(bytes(range(4)), 1), (b"", 2), (bytes(range(4)), 3)],
    ]
    tr = []
    for i, parts in enumerate(layouts):
        data = chunk_payload(parts)
        f = [leader(30 + i, PT_EXT), data[:16].ljust(16, b"\0") if len(data) >= 16 else data, data[16:32], trailer(30 + i, len(data), ptype=PT_EXT)]
        if len(data) < 16:
            f[1], f[2] = data, b""
        tr += f
    add(prm, tr, note="extended chunk layouts")
    tr = []
    for i, (data, valid) in enumerate([
            (bytes(24) + be(1, 4) + be(25, 4), 32),      # chunk longer than what precedes it
            (bytes(24) + be(1, 4) + be(23, 4), 32),      # does not reach offset 0: walks into data
            (bytes(24) + be(1, 4) + be(24, 4), 31),      # valid cuts the length field
            (bytes(24) + be(1, 4) + be(24, 4), 3),       # valid smaller than a length field
            (bytes(24) + be(1, 4) + be(24, 4), 0),
            (bytes(24) + be(1, 4) + be(0xFFFFFFFF, 4), 32),
            (bytes(24) + be(1, 4) + be(24, 4), 32)]):
        tr += [leader(40 + i, PT_EXT), data[:16], data[16:], trailer(40 + i, valid, ptype=PT_EXT)]
    add(prm, tr, note="extended chunk: malformed chunk structure")
    # status errors, garbage, truncated packets
    tr = []
    for i, st in enumerate([0xA100, 0xA101, 0x0001, 0xFFFF]):
        f = good_frame(P0, 50 + i)
        f[-1] = trailer(50 + i, 32, status=st)
        tr += f
    tr += good_frame(P0, 59)
    add(P0, tr, note="trailer status errors then a good frame")
    tr = []
    for cut in (0, 3, 4, 19, 20, 27, 28, 51):
        f = good_frame(P0, 60 + cut)
        f[0] = f[0][:cut]
        tr += f + good_frame(P0, 160 + cut)
    add(P0, tr, note="leader truncated at several offsets, each followed by a good frame")
    tr = []
    for cut in (0, 3, 4, 27, 28, 31):
        f = good_frame(P0, 70 + cut)
        f[-1] = f[-1][:cut]
        tr += good_frame(P0, 170 + cut) + f
    add(P0, tr, note="trailer truncated at several offsets, each after a good frame")
    for pt in (PT_EXT, PT_CHUNK):
        prm = P0 if pt == PT_CHUNK else Params(52, 36, 16, 2, 0, 0)
        tr = []
        for cut in (28, 31, 32, 35):
            f = good_frame(prm, 80 + cut, pt)
            f[-1] = f[-1][:cut]
            tr += f
        for cut in (20, 27, 28, 51):
            f = good_frame(prm, 90 + cut, pt)
            f[0] = f[0][:cut]
            tr += f
        add(prm, tr, note="specific leader / trailer parts truncated")
    tr = []
    f = good_frame(P0, 100)
    f[0] = leader(100, magic=0x4C563356)
    tr += f
    f = good_frame(P0, 101)
    f[-1] = trailer(101, 32, magic=0x54563354)
    tr += f
    f = good_frame(P0, 102)
    f[0] = leader(102, ptype=0x0002)
    tr += f
    f = good_frame(P0, 103)
    f[0] = leader(103, pf=0x01080002 + 0x100000)
    tr += f
    f = good_frame(P0, 104)
    f[0] = bytes(range(52))
    tr += f + good_frame(P0, 105)
    add(P0, tr, note="bad magic, unknown payload type / pixel format, garbage")
    # transfer errors at every transfer index, device goes on with the next frame
    for err in (0, 3, 7, 8, 99, "T", "big"):
        tr = []
        for ix in range(4):
            f = good_frame(P0, 110 + ix)
            bad = bytes(80) if err == "big" else err
            tr += good_frame(P0, 210 + ix) + f[:ix] + [bad]
        tr += good_frame(P0, 120)
        add(P0, tr, note="transfer error %r at every transfer index" % (err,))
    # a transfer fault in the middle of a frame (after the leader and k payload transfers), then a frame
    # that delivers fewer payload bytes than its buffer takes, with a valid_payload_size below / equal to /
    # above what arrived in THAT frame: nothing counted for the faulted frame may be carried over
    for prm in (P0, P1, P3, Params(52, 36, 16, 3, 0, 0)):
        n = len(prm.slots())
        tot = prm.maxp()
        for err in (99, "T", 8):
            tr = good_frame(prm, 300)
            bid = 301
            for ix in range(1, n):
                for recv in sorted({0, 1, prm.psizes()[0] - 1, prm.psizes()[0]}):
                    for valid in sorted({max(recv - 1, 0), recv, recv + 1, tot}):
                        fn = good_frame(prm, bid)
                        tr += fn[:ix] + [err]
                        fs = good_frame(prm, bid + 1, valid=valid)
                        fs[1] = fs[1][:recv]
                        for j in range(2, n - 1):
                            fs[j] = b""
                        tr += fs
                        bid += 2
                tr += good_frame(prm, bid)
                bid += 1
            add(prm, tr, cap_p=1024, note="fault %r inside a frame at every transfer index, then a short frame with valid size "
                                          "below / equal / above what it delivered (%d transfers per frame)" % (err, n))
    # the device keeps sending the rest of a frame after a time-out (host and device out of step)
    f = good_frame(P0, 130)
    add(P0, good_frame(P0, 129) + f[:2] + ["T"] + f[2:] + good_frame(P0, 131) + good_frame(P0, 132),
        note="time-out inside a frame, the device goes on with the rest of it")
    # submit failures at every index and class
    for code in (0, 3, 6, 1):
        for ix in range(4):
            add(P0, good_frame(P0, 1) + good_frame(P0, 2) + good_frame(P0, 3), suberrs=[(4 + ix, code)],
                note="submit %d of the second iteration fails with libusb code %d" % (ix, code))
    # receivers
    six = sum([good_frame(P0, b) for b in range(1, 7)], [])
    for cap in (1, 2, 3):
        add(P0, six, rprog=[(2, 100000, 0)], cap_p=cap, drains=False, note="receiver never receives, capacity %d" % cap)
        add(P0, six, rprog=[(2, 3000, 0), (1, 100000, 1)], cap_p=cap, drains=False, note="slow receiver, capacity %d" % cap)
        add(P0, six, rprog=[(1, 2, 0), (3, 0, 0)], cap_p=cap, drains=False, cprog=[(START,), (WAITX, 0), (SLEEP, 2000), (STOP,)],
            note="receiver drops its end after two items, capacity %d" % cap)
    # an ERROR to report while the payload channel is full and the receiver is not taking anything: the loop must
    # drop the report and go on consuming transfers (try_send only), and stop must still return
    bad_leader = [leader(3, PT_IMAGE, magic=0x4C563354)]
    for cap in (1, 2):
        fill = sum([good_frame(P0, b) for b in range(1, cap + 1)], [])
        rest = good_frame(P0, 9) + good_frame(P0, 10)
        for what, mid in (("malformed leader", bad_leader), ("time-out", ["T"]), ("transfer error", [3]),
                          ("two malformed leaders", bad_leader + bad_leader)):
            # the receiver keeps its end open without receiving until the controller has stopped the loop
            add(P0, fill + mid + rest, rprog=[(6, 1, 0)], cap_p=cap, drains=False,
                cprog=[(START,), (WAITX, 0), (SLEEP, 200), (STOP,), (PHASE,)],
                note="%s to report while the channel (capacity %d) is full and the receiver never receives" % (what, cap))
            add(P0, fill + mid + rest, rprog=[(2, 3000, 0), (1, 100000, 1)], cap_p=cap, drains=False,
                note="%s to report while the channel (capacity %d) is full, slow receiver" % (what, cap))
    for rp in (EAGER_HOLD, EAGER_DROP, EAGER_ALT):
        add(P0, six, rprog=rp, note="receiver holds / drops / alternates")
        add(P0, six, rprog=rp, cap_b=1, note="send-back capacity 1")
    add(P0, six, rprog=[(4, 50, 1), (1, 100000, 3)], note="single try_recv attempts")
    # stop / close / drop / restart
    add(P0, six, cprog=[(START,), (STOP,)], drains=False, note="stop immediately")
    add(P0, six, cprog=[(START,), (STOP,), (STOP,)], drains=False, note="stop twice")
    add(P0, six, cprog=[(START,), (WAITX, 12), (STOP,)], drains=False, note="stop mid-stream")
    add(P0, six, cprog=[(START,), (WAITX, 0), (CLOSE,)], note="close while streaming")
    add(P0, six, cprog=[(START,), (WAITX, 0), (DROPH,)], note="drop the handle while streaming")
    add(P0, six, cprog=[(STOP,), (CLOSE,)], drains=False, note="stop / close without a loop")
    add(P0, six, cprog=[(START,), (WAITX, 12), (STOP,), (START,), (WAITX, 0), (SLEEP, 300), (STOP,)], note="restart")
    add(P0, six, cprog=[(START,), (WAITX, 12), (STOP,), (SLEEP, 500), (START,), (STOP,), (START,), (WAITX, 0), (STOP,)],
        note="restart twice")
    c = add(P0, six, cprog=[(START,), (START,), (WAITX, 0), (STOP,)], note="start while streaming")
    c.meta["expect_busy"] = True
    add(P0, six[:12] + sum([good_frame(P1, b) for b in range(7, 10)], []),
        cprog=[(START,), (WAITX, 15), (SLEEP, 300), (STOP,), ("params", P1), (START,), (WAITX, 0), (SLEEP, 300), (STOP,)],
        drains=False, note="restart with other stream parameters")
    # restart with another payload geometry; payloads kept from before the restart are handed back
    # to the new loop (their buffers are shorter / longer than / equal to the new maximum)
    for pa, pb, tag in ((P_S, P_L, "larger"), (P_L, P_S, "smaller"), (P_S, P_F, "larger final transfers"),
                        (P_S, P_S, "same"), (P4, P_L, "from empty payload")):
        for fresh in (0, 1, 3):
            for nkeep in (2, 1):
                fa = sum([good_frame(pa, b) for b in (1, 2)], [])
                fb = sum([good_frame(pb, b, rng_pt) for b, rng_pt in zip(range(11, 17), [PT_IMAGE, PT_CHUNK, PT_IMAGE, PT_EXT, PT_IMAGE, PT_CHUNK])], [])
                tr = fa + ["T"] * 40 + fb
                c = add(pa, tr,
                        rprog=[(1, 2, 0), (6, 1, 0), (5, nkeep, 0), (7, 0, 0), (1, 100000, fresh)],
                        cprog=[(START,), (WAITX, len(fb) + 25), (STOP,), ("params", pb), (PHASE,), (WAITRP, 1), (START,),
                               (WAITX, 0), (SLEEP, 300), (STOP,)],
                        cap_p=256, drains=True,
                        note="restart with a %s geometry, %d kept payload(s) handed back to the new loop, then mode %d" % (tag, nkeep, fresh))
    return cs


def random_case(rng, sched):
    prm = rng.choice(PARAMS) if rng.chance(1, 2) else Params(52 + rng.below(9), 32 + rng.below(9), rng.below(20),
                                                             rng.below(4), rng.choice([0, 0, 3, 16]), rng.choice([0, 0, 1, 9]))
    nfr = rng.range(1, 7)
    tr = []
    for b in range(nfr):
        pt = rng.choice([PT_IMAGE, PT_IMAGE, PT_EXT, PT_CHUNK])
        tot = prm.maxp()
        f = good_frame(prm, 1000 + b * rng.range(1, 3), pt, w=rng.below(9), h=rng.below(9), pf=rng.choice(PF_CODES))
        kind = rng.below(14)
        if kind == 0:
            f[-1] = f[-1][:rng.below(len(f[-1]) + 1)]
        elif kind == 1:
            f[0] = f[0][:rng.below(len(f[0]) + 1)]
        elif kind == 2 and len(f) > 2:
            j = 1 + rng.below(len(f) - 2)
            f[j] = f[j][:rng.below(len(f[j]) + 1)]
        elif kind == 3:
            f[-1] = trailer(1000 + b, rng.choice([0, 1, tot - 1, tot, tot + 1, rng.below(tot + 2)]), ptype=pt)
        elif kind == 4:
            f[-1] = trailer(1000 + b, tot, status=rng.choice([0xA100, 0xA101, 7]), ptype=pt)
        elif kind == 5:
            j = rng.below(len(f))
            f = f[:j] + [rng.choice([0, 3, 4, 7, 8, 13, "T", bytes(90)])] + (f[j + 1:] if rng.chance(1, 2) else [])
        elif kind == 6:
            j = rng.below(len(f))
            f[j] = bytes(rng.bytes(len(f[j])))
        elif kind in (8, 9) and len(f) > 3:
            # fault after the leader and some payload transfers, then a short frame claiming more or less
            j = rng.range(2, len(f) - 1)
            g = good_frame(prm, 2000 + b, pt, valid=rng.choice([0, 1, tot, rng.below(tot + 2)]))
            r = rng.below(len(g[1]) + 1)
            g[1] = g[1][:r]
            for jj in range(2, len(g) - 1):
                g[jj] = b"" if rng.chance(3, 4) else g[jj]
            f = f[:j] + [rng.choice([0, 8, 99, "T"])] + g
        elif kind == 7 and len(f) > 3:
            # short inner payload transfer, later data present
            f[1] = f[1][:rng.below(len(f[1]) + 1)]
            f[-1] = trailer(1000 + b, rng.below(tot + 1), ptype=pt)
        tr += f
    cap_p = rng.choice([1, 2, 3, 64])
    cap_b = rng.choice([1, 2, 8])
    rprog = rng.choice([EAGER, EAGER_HOLD, EAGER_DROP, EAGER_ALT,
                        [(2, rng.below(3000), 0), (1, 100000, 3)],
                        [(1, rng.range(1, 4), rng.below(4)), (2, rng.below(2000), 0), (1, 100000, 1)],
                        [(1, rng.range(1, 3), 1), (3, 0, 0)],
                        [(2, 50000, 0)]])
    cp = rng.below(8)
    n = len(tr)
    if cp <= 2:
        cprog = RUN_ALL
    elif cp == 3:
        cprog = [(START,), (SLEEP, rng.below(800)), (STOP,)]
    elif cp == 4:
        cprog = [(START,), (WAITX, rng.below(n + 1)), (STOP,)]
    elif cp == 5:
        cprog = [(START,), (WAITX, rng.below(n + 1)), (STOP,), (SLEEP, rng.below(300)), (START,), (WAITX, 0), (SLEEP, 100), (STOP,)]
    elif cp == 6:
        cprog = [(START,), (WAITX, rng.below(n + 1)), rng.choice([(CLOSE,), (DROPH,)])]
    else:
        cprog = [(START,), (SLEEP, rng.below(300)), (STOP,), (START,), (SLEEP, rng.below(300)), (STOP,), (START,), (WAITX, 0), (STOP,)]
    prm_first = prm
    if rng.chance(1, 6):
        # geometry change at a restart, kept payloads handed back afterwards
        pa = rng.choice([P_S, P_L, P_F, P0, P4])
        prm_first = pa
        fa = sum([good_frame(pa, 900 + b) for b in range(rng.range(1, 3))], [])
        tr = fa + ["T"] * 40 + tr
        nk = rng.range(1, 3)
        rprog = [(1, len(fa) // len(pa.slots()), 0), (6, 1, 0), (5, nk, 0), (7, 0, 0), (1, 100000, rng.below(4))]
        cprog = [(START,), (WAITX, len(tr) - len(fa) - 15), (STOP,), ("params", prm), (PHASE,), (WAITRP, 1), (START,),
                 (WAITX, 0), (SLEEP, 200), (STOP,)]
        cap_p = 256
    suberrs = []
    if rng.chance(1, 8):
        suberrs = [(rng.below(3 * len(prm.slots())), rng.choice([0, 3, 6, 8]))]
    c = strm_case(prm_first, tr, rprog, cprog, cap_p=cap_p, cap_b=cap_b, seed=rng.next() & 0xFFFFFFFF,
                  permille=rng.choice([0, 100, 300, 600]) if sched else 0, max_us=rng.choice([0, 50, 300]) if sched else 0,
                  suberrs=suberrs, fam="random", note="random")
    c.meta["drains"] = cprog is RUN_ALL and rprog in (EAGER, EAGER_HOLD, EAGER_DROP, EAGER_ALT) and cap_p == 64
    return c


def gen_cases(ck):
    rng = Rng(ck.seed)
    cs = boundary_cases()
    nb = len(cs)
    quick = ck.tier == "quick"
    # the boundary set again under disturbed schedules
    for rep in range(1 if quick else 6):
        for c in boundary_cases():
            m = c.meta
            c2 = strm_case(m["prm"], m["transfers"], m["rprog"], m["cprog"], cap_p=m["cap_p"], cap_b=m["cap_b"],
                           seed=rng.next() & 0xFFFFFFFF, permille=rng.choice([100, 300, 600]), max_us=rng.choice([0, 50, 300]),
                           suberrs=m["suberrs"], fam="boundary/schedules", note=m["note"])
            c2.meta["drains"] = m["drains"]
            if m.get("expect_busy"):
                c2.meta["expect_busy"] = True
            cs.append(c2)
    for _ in range(260 if quick else 6000):
        cs.append(random_case(rng, True))
    return cs, nb


# ------------------------------------------------- the real AsyncPool over a fake libusb --

REFUSE_CODES = [-1, -2, -3, -4, -5, -6, -7, -8, -9, -10, -11, -12, -99]
# libusb error code -> class printed by rust/h_async (LibUsbError::from_libusb_error)
ERR_CLASS = {-1: 0, -2: 1, -3: 2, -4: 3, -5: 4, -6: 5, -7: 6, -8: 7, -9: 8, -10: 9, -11: 10, -12: 11, -99: 13}
# libusb_transfer_status -> class of the error poll returns (0 = completed)
STATUS_CLASS = {1: 13, 3: 6, 4: 8, 5: 3, 6: 7}
STUCK = 1000000
SUBMIT, POLL, PENDING, CANCEL, PDROP, PNEW, EMPTY, ARM, LOCK = 1, 2, 3, 4, 5, 6, 7, 9, 10
# entries of the lock plan (what the other threads of the process do with libusb's events lock during one round of
# poll_completed): OWN = nothing, this thread gets the lock; GONE = the lock is taken, its holder has left when this
# thread asks libusb_event_handler_active; ACTIVE(n) = another thread handles events, a wait for it returns after n us
OWN, GONE = 0, 1


def ACTIVE(us):
    return 2 + us


def lock_name(e):
    return "own" if e <= 0 else "held-gone" if e == 1 else "held-active(%d us)" % (e - 2)


def pool_case(plan, ops, note="", evs=(), lks=()):
    """plan: [('r', code) | ('a', status, len, delay[, cancellation latency])] per libusb_submit_transfer call;
    evs: return code of each libusb_handle_events_locked call in turn; lks: lock-plan entry of each round of
    poll_completed in turn; ops: [(op, arg)]"""
    plan = [e if e[0] == "r" or len(e) == 5 else tuple(e) + (0,) for e in plan]
    t = [len(plan)]
    for e in plan:
        t += [0, e[1]] if e[0] == "r" else [1, e[1], e[2], e[3], e[4]]
    t += [len(evs)] + list(evs)
    t += [len(lks)] + list(lks)
    t += [len(ops)] + [v for o in ops for v in o]
    return Case("pool3", t, meta=dict(plan=list(plan), evs=list(evs), lks=list(lks), ops=list(ops), note=note, fam="pool"))


def pool_boundary_cases():
    cs = []
    ok = lambda n=8, d=0: ("a", 0, n, d)
    # one refused submission at every position of a frame's worth of transfers, every error code
    for code in REFUSE_CODES:
        for pos in range(5):
            plan = [ok(4 + i) for i in range(pos)] + [("r", code)] + [ok(9 + i) for i in range(4 - pos)]
            ops = []
            for i in range(5):
                ops += [(SUBMIT, 16), (PENDING, 0)]
            cs.append(pool_case(plan, ops + [(PDROP, 0), (PNEW, 0), (SUBMIT, 8), (POLL, 10), (EMPTY, 0)],
                                note="submit %d of 5 refused with %d, then the pool is dropped" % (pos, code)))
            cs.append(pool_case(plan, ops + [(POLL, 10)] * 5 + [(PENDING, 0), (EMPTY, 0)],
                                note="submit %d of 5 refused with %d, then everything is polled" % (pos, code)))
    # every completion status, lengths at the buffer boundaries
    for st in (0, 1, 4, 5, 6):
        for ln in (0, 1, 15, 16, 17):
            cs.append(pool_case([ok(3), ("a", st, ln, 0), ok(5)], [(SUBMIT, 16)] * 3 + [(POLL, 10)] * 3 + [(EMPTY, 0)],
                                note="completion status %d with %d bytes" % (st, ln)))
    # transfers that complete late or never: time-outs leave them pending, cancel / drop reap them
    for d in (0, 1, 2, STUCK):
        cs.append(pool_case([ok(4, d), ok(5, 0), ok(6, STUCK)],
                            [(SUBMIT, 8)] * 3 + [(POLL, 10), (PENDING, 0)] * 4 + [(CANCEL, 0), (POLL, 10), (PENDING, 0)] * 3 + [(EMPTY, 0)],
                            note="front transfer due after %d polls, last one never" % d))
        cs.append(pool_case([ok(4, d), ("r", -11), ok(6, STUCK)], [(SUBMIT, 8)] * 3 + [(PENDING, 0), (PDROP, 0)],
                            note="drop with transfers in flight (front due after %d polls) and one refused" % d))
    cs.append(pool_case([], [(PENDING, 0), (EMPTY, 0), (CANCEL, 0), (PDROP, 0), (PNEW, 0), (EMPTY, 0)], note="empty pool"))
    cs.append(pool_case([("r", -4)] * 6, [(SUBMIT, 8), (PENDING, 0)] * 6 + [(PDROP, 0)], note="every submission refused"))
    return cs + pool_cleanup_cases() + pool_lock_cases()


def pool_cleanup_cases():
    """The clean-up of a non-empty pool (Drop: cancel_all, then poll until empty) with faults at every point of it:
    event handling that fails (INTERRUPTED = a signal; the other libusb codes) at each position, cancellations that
    take 1..3 further event-handling rounds on the first / the last / every abandoned transfer, both together;
    the pool is left non-empty by a mid-frame fault (an error completion or a time-out in the middle of a frame's
    transfers) or by an idle time-out (the leader never arrives)."""
    cs = []
    INTR = -10
    # (what, completions of the 5 transfers of a frame [None = never], polls before the drop, transfers abandoned)
    scenarios = [
        ("mid-frame fault (transfer 3 of 5 stalls; 2 abandoned)", [0, 0, 4, None, None], 3, 2),
        ("mid-frame time-out (transfer 3 of 5 never arrives; 3 abandoned)", [0, 0, None, None, None], 3, 3),
        ("idle time-out (no leader; 5 abandoned)", [None] * 5, 1, 5),
        ("single transfer abandoned", [None], 1, 1),
    ]
    lats = [("no cancellation latency", lambda i, n: 0)]
    for k in (1, 2, 3):
        lats += [("cancellation of the first abandoned transfer takes %d rounds" % k, lambda i, n, k=k: k if i == 0 else 0),
                 ("cancellation of the last abandoned transfer takes %d rounds" % k, lambda i, n, k=k: k if i == n - 1 else 0),
                 ("every cancellation takes %d rounds" % k, lambda i, n, k=k: k)]
    fails = [("", [])]
    for j in range(6):
        fails.append(("event handling interrupted at call %d of the clean-up" % j, [0] * j + [INTR]))
    fails += [("event handling interrupted twice", [INTR, INTR]), ("event handling interrupted at calls 0, 2, 3", [INTR, 0, INTR, INTR]),
              ("event handling reports a time-out (-7) then is interrupted", [-7, INTR])]
    for what, comp, npoll, nab in scenarios:
        n = len(comp)
        for lwhat, lat in lats:
            plan = []
            for i, st in enumerate(comp):
                ab = i - (n - nab)
                plan.append(("a", st or 0, 8 + i, STUCK if st is None else 0, lat(ab, nab) if ab >= 0 else 0))
            for fwhat, codes in fails:
                ops = [(SUBMIT, 16)] * n + [(POLL, 10)] * npoll + [(PENDING, 0)] + [(ARM, c) for c in codes]
                ops += [(PDROP, 0), (PNEW, 0), (SUBMIT, 8), (POLL, 10), (EMPTY, 0)]
                cs.append(pool_case(plan, ops, note="clean-up after %s; %s%s" % (what, lwhat, "; " + fwhat if fwhat else "")))
    # every libusb error code as the result of the first event-handling call of the clean-up, and of a poll
    for code in REFUSE_CODES:
        for what, comp, npoll, nab in scenarios[1:]:
            plan = [("a", st or 0, 8, STUCK if st is None else 0, 0) for st in comp]
            cs.append(pool_case(plan, [(SUBMIT, 16)] * len(comp) + [(POLL, 10)] * npoll + [(ARM, code), (PDROP, 0)],
                                note="clean-up after %s; event handling fails with %d" % (what, code)))
        cs.append(pool_case([("a", 0, 8, 0, 0)] * 2, [(SUBMIT, 16)] * 2 + [(ARM, code)] + [(POLL, 10), (PENDING, 0)] * 3,
                            note="event handling fails with %d in a poll: nothing is reaped, the next polls return both transfers" % code))
    # explicit cancel_all, polls that wait for slow cancellations, then the drop; a poll with a zero time-out
    for k in (1, 2, 3):
        plan = [("a", 0, 8, STUCK, k), ("a", 0, 9, STUCK, 0), ("a", 0, 10, STUCK, k)]
        cs.append(pool_case(plan, [(SUBMIT, 16)] * 3 + [(CANCEL, 0)] + [(POLL, 10), (PENDING, 0)] * (k + 4) + [(EMPTY, 0)],
                            note="cancel_all, cancellations of the first and last transfer take %d rounds, polled to the end" % k))
        cs.append(pool_case(plan, [(SUBMIT, 16)] * 3 + [(CANCEL, 0), (POLL, 10), (ARM, INTR), (PDROP, 0)],
                            note="cancel_all, one poll, then the drop with an interrupted event handling (latency %d)" % k))
    cs.append(pool_case([("a", 0, 8, 0, 0)], [(SUBMIT, 16), (POLL, 0), (PENDING, 0), (POLL, 10), (PENDING, 0)],
                        note="a poll with a zero time-out does not handle events"))
    return cs


def pool_lock_cases():
    """poll_completed and the other threads of the process: every kind of lock-plan entry at every round position of
    a poll whose front transfer is due, of a poll whose front transfer is not yet due (later ones are), and of the
    clean-up of a dropped pool; mixed with failing event handling and cancellation latencies.  The time-out of the
    polls is 10 ms = 10000 us (1 s inside Drop): waits of 0, 100, 9999 us end in time, 10000 and more time out."""
    cs = []
    INTR = -10
    entries = [OWN, GONE, ACTIVE(0), ACTIVE(100), ACTIVE(9999), ACTIVE(10000), ACTIVE(10001), ACTIVE(2000000)]
    names = lambda l: "[" + ", ".join(lock_name(e) for e in l) + "]"
    # (A) the front transfer is due.  Rounds in which the holder of the lock has left come first (they take no time)
    for k in range(4):
        for x in entries:
            for evs in ([], [INTR], [-7], [0, INTR]):
                lks = [GONE] * k + [x]
                cs.append(pool_case([("a", 0, 8, 0, 0), ("a", 0, 9, 0, 0)],
                                    [(SUBMIT, 16)] * 2 + [(POLL, 10), (PENDING, 0), (POLL, 10), (PENDING, 0)], evs=evs, lks=lks,
                                    note="lock plan %s, event results %r: both transfers delivered at once" % (names(lks), evs)))
    # the scenario of one frame (5 transfers, each delivered just before its poll): the lock is taken and its holder gone
    # (or another thread handles the events) in the round of poll number p
    for p in range(5):
        for x in (GONE, ACTIVE(0), ACTIVE(300), ACTIVE(10000)):
            for tail in ([], [GONE], [GONE, GONE, ACTIVE(10)]):
                lks = [OWN] * p + [x] + tail
                cs.append(pool_case([("a", 0, 8 + i, i, 0) for i in range(5)], [(SUBMIT, 16)] * 5 + [(POLL, 10), (PENDING, 0)] * 6,
                                    lks=lks, note="frame of 5 transfers, transfer i delivered before poll i; lock plan %s" % names(lks)))
    # (B) the front transfer is not due yet (after one more poll / never), the one behind it is
    for d in (1, STUCK):
        for pre in ([], [GONE], [ACTIVE(50)], [ACTIVE(50), GONE], [GONE, ACTIVE(50), ACTIVE(50)], [OWN], [OWN, GONE]):
            for x in entries:
                for evs in ([], [INTR]):
                    lks = pre + [x]
                    cs.append(pool_case([("a", 0, 8, d, 0), ("a", 0, 9, 0, 0)],
                                        [(SUBMIT, 16)] * 2 + [(POLL, 10), (PENDING, 0)] * 3, evs=evs, lks=lks,
                                        note="front transfer due after %d polls, the second at once; lock plan %s, event results %r" % (d, names(lks), evs)))
    # (C) the clean-up of a dropped pool (1 s per poll): abandoned transfers with cancellation latencies
    scen = [("mid-frame fault (2 abandoned)", [0, 0, 4, None, None], 3, 2), ("idle time-out (5 abandoned)", [None] * 5, 1, 5),
            ("single transfer abandoned", [None], 1, 1)]
    lats = [("no cancellation latency", lambda i, n: 0), ("cancellation of the first abandoned transfer takes 1 round", lambda i, n: 1 if i == 0 else 0),
            ("every cancellation takes 2 rounds", lambda i, n: 2)]
    dentries = [GONE, ACTIVE(0), ACTIVE(100), ACTIVE(999999), ACTIVE(1000000), ACTIVE(3000000)]
    for what, comp, npoll, nab in scen:
        n = len(comp)
        for lwhat, lat in lats:
            plan = []
            for i, st in enumerate(comp):
                ab = i - (n - nab)
                plan.append(("a", st or 0, 8 + i, STUCK if st is None else 0, lat(ab, nab) if ab >= 0 else 0))
            for j in range(4):
                for x in dentries:
                    for fail in ([], [INTR], [0, INTR]):
                        lks = [OWN] * j + [x]
                        ops = [(SUBMIT, 16)] * n + [(POLL, 10)] * npoll + [(PENDING, 0)] + [(ARM, c) for c in fail] + [(LOCK, e) for e in lks]
                        ops += [(PDROP, 0), (PNEW, 0), (SUBMIT, 8), (POLL, 10), (EMPTY, 0)]
                        cs.append(pool_case(plan, ops, note="clean-up after %s; %s; lock plan of the clean-up %s%s" % (
                            what, lwhat, names(lks), "; event handling interrupted at call %d" % (len(fail) - 1) if fail else "")))
            for lks in ([GONE] * 3, [GONE, ACTIVE(5), GONE, ACTIVE(1000000), GONE], [ACTIVE(1000000)] * 3, [ACTIVE(7)] * 6):
                ops = [(SUBMIT, 16)] * n + [(POLL, 10)] * npoll + [(LOCK, e) for e in lks] + [(PDROP, 0)]
                cs.append(pool_case(plan, ops, note="clean-up after %s; %s; lock plan of the clean-up %s" % (what, lwhat, names(lks))))
    # (D) cancel_all, then polls that wait out the cancellation latencies while another thread handles the events
    for k in (1, 2, 3):
        plan = [("a", 0, 8, STUCK, k), ("a", 0, 9, STUCK, 0), ("a", 0, 10, STUCK, k)]
        for lks in ([ACTIVE(10)] * (k + 1), [ACTIVE(10), GONE] * (k + 1), [GONE] * k + [ACTIVE(10000)], [ACTIVE(5000)] * 3):
            cs.append(pool_case(plan, [(SUBMIT, 16)] * 3 + [(CANCEL, 0)] + [(POLL, 10), (PENDING, 0)] * (k + 4) + [(EMPTY, 0)], lks=lks,
                                note="cancel_all, cancellations of the first and last transfer take %d rounds; lock plan %s" % (k, names(lks))))
    cs.append(pool_case([("a", 0, 8, 0, 0)], [(SUBMIT, 16), (POLL, 0), (PENDING, 0), (POLL, 10), (PENDING, 0)], lks=[GONE, ACTIVE(3)],
                        note="a poll with a zero time-out takes no round of the lock plan"))
    return cs


def pool_random_case(rng):
    plan = []
    slow = rng.chance(1, 2)
    for _ in range(rng.range(0, 12)):
        if rng.chance(1, 5):
            plan.append(("r", rng.choice(REFUSE_CODES)))
        else:
            plan.append(("a", rng.choice([0, 0, 0, 0, 1, 4, 5, 6]), rng.below(40), rng.choice([0, 0, 0, 1, 2, STUCK]),
                         rng.choice([0, 0, 1, 2, 3, 7]) if slow else 0))
    evs = []
    if rng.chance(1, 2):
        for _ in range(rng.range(0, 8)):
            evs.append(0 if rng.chance(2, 3) else rng.choice([-10, -10, -10] + REFUSE_CODES))
    lks = []
    locks = rng.chance(1, 2)
    lock_choices = [OWN, OWN, GONE, GONE, GONE, ACTIVE(0), ACTIVE(50), ACTIVE(5000), ACTIVE(9999), ACTIVE(10000), ACTIVE(20000),
                    ACTIVE(999999), ACTIVE(1000000), ACTIVE(3000000)]
    if locks:
        for _ in range(rng.range(0, 10)):
            lks.append(rng.choice(lock_choices))
    ops = []
    for _ in range(rng.range(1, 24)):
        k = rng.below(14 if locks else 13)
        if k == 13:
            ops += [(LOCK, rng.choice(lock_choices)) for _ in range(rng.range(1, 4))]
        elif k < 5:
            ops.append((SUBMIT, rng.range(0, 32)))
        elif k < 8:
            ops.append((POLL, 10 if rng.chance(9, 10) else 0))
        elif k == 8:
            ops.append((PENDING, 0))
        elif k == 9:
            ops.append((CANCEL, 0))
        elif k == 10:
            ops += [(PDROP, 0), (PNEW, 0)] if rng.chance(2, 3) else [(PDROP, 0)]
        elif k == 11:
            ops += [(ARM, 0 if rng.chance(1, 3) else rng.choice([-10, -10] + REFUSE_CODES)) for _ in range(rng.range(1, 3))]
        else:
            ops.append((EMPTY, 0))
    return pool_case(plan, ops, note="random", evs=evs, lks=lks)


def _first_round(lkq, evq, budget_us):
    """What the rounds of a poll_completed call can do for a transfer that completes at the next event handling, given
    what the other threads do with the events lock (lkq) and the results of this thread's event handling (evq) from
    here on: rounds in which the holder of the lock has left when asked take no time and are skipped; the first other
    round decides."""
    i = 0
    while i < len(lkq) and lkq[i] == GONE:
        i += 1
    e = lkq[i] if i < len(lkq) else OWN
    if e >= 2:
        return ("handled", i, e) if e - 2 < budget_us else ("wait-timeout", i, e)
    code = evq[0] if evq else 0
    return ("handled", i, e) if code == 0 else ("ev-timeout", i, e) if code == -7 else ("ev-error", i, e)


def pool_predicate(c, out):
    """The property on the output of the real AsyncPool alone (the harness's own observations: what each call
    returned, pending() after every poll, the number of rounds / event-handling calls it took, the fake libusb's
    ledger): operations return (no wedge); a refused submission is reported with its error and leaves the pool as it
    was; a poll either returns the completion of the OLDEST accepted transfer not yet returned (with the device's data
    in the right buffer) and removes exactly it, or fails (time-out, event-handling error) and leaves `pending` as it
    was; a transfer the device has delivered is returned, not a time-out, whenever the rounds of the poll allow one
    event handling before the time-out has gone by - whatever other threads do with libusb's events lock, in
    particular when the lock was taken for a moment by a thread that is gone when this one looks; and after a drop
    no transfer is in flight and none was freed while libusb still had it, however the clean-up was disturbed."""
    if out in ([3], [4]) or out is None:
        return ("the harness hung or died: an AsyncPool operation (poll / drop) never returned - "
                "it waits for a transfer libusb never accepted (or that was completed long ago): %r" % (out,))
    plan = list(c.meta["plan"])
    # classes an event-handling failure can be reported as
    evcodes = set(v for v in c.meta["evs"] if v != 0) | set(a for o, a in c.meta["ops"] if o == ARM and a != 0)
    evclasses = set(ERR_CLASS[v] for v in evcodes)
    p = 0
    inpool = []          # accepted and not reaped, in submission order: [status, len, due epoch, cancel requested]
    have_pool = True
    epoch = 0
    # what is left of the two scripts, by the harness's own count of the calls made so far
    lkq = list(c.meta.get("lks", ()))
    evq = list(c.meta["evs"])
    rounds_seen = evcalls_seen = 0

    def consume(rounds, evcalls):
        nonlocal rounds_seen, evcalls_seen
        if rounds < rounds_seen or evcalls < evcalls_seen:
            return "the call counts of the fake libusb went backwards"
        del lkq[:rounds - rounds_seen]
        del evq[:evcalls - evcalls_seen]
        rounds_seen, evcalls_seen = rounds, evcalls
        return None

    for op, arg in c.meta["ops"]:
        if op == SUBMIT:
            if not have_pool:
                continue
            e = plan.pop(0) if plan else ("a", 0, arg, 0, 0)
            if out[p] == 2:
                return "submit panicked"
            if e[0] == "r":
                if out[p:p + 2] != [1, ERR_CLASS[e[1]]]:
                    return "a refused submission (libusb code %d) was reported as %r" % (e[1], out[p:p + 2])
                p += 2
            else:
                if out[p] != 0:
                    return "an accepted submission was reported as an error"
                p += 1
                inpool.append([e[1], min(e[2], arg), epoch + e[3], False])
        elif op == POLL:
            if not have_pool:
                continue
            if not inpool:
                if out[p] != -1:
                    return "the pool is not empty although every accepted transfer has been returned"
                p += 1
                continue
            if out[p] == -1:
                return "the pool is empty although an accepted transfer has not been returned"
            if out[p] == 2:
                return "poll panicked"
            epoch += 1
            st, ln, due, canc = inpool[0]
            delivered = due < epoch          # the device has completed it: the next event handling runs its callback
            can = _first_round(lkq, evq, arg * 1000) if arg > 0 else ("no-time", 0, OWN)
            if out[p] == 0:
                pend = out[p + 3]
                if pend != len(inpool) - 1:
                    return "poll returned Ok and pending() went from %d to %d" % (len(inpool), pend)
                inpool.pop(0)
                if out[p + 1] != ln or out[p + 2] != 1:
                    return "poll returned %d bytes (data in the front buffer: %s), the next transfer in submission order delivered %d" % (
                        out[p + 1], "ok" if out[p + 2] == 1 else "wrong", ln)
                if st != 0:
                    return "poll returned Ok for a transfer that completed with status %d" % st
                if not delivered:
                    return "poll returned Ok for a transfer the device has not completed yet"
                bad = consume(out[p + 4], out[p + 5])
                p += 6
            else:
                cls, pend = out[p + 1], out[p + 2]
                rounds = out[p + 3] - rounds_seen
                if pend == len(inpool) - 1:
                    # the front transfer was reaped: the error is its completion (CANCELLED is reported as a time-out)
                    inpool.pop(0)
                    if not (STATUS_CLASS.get(st) == cls or (canc and cls == 6)):
                        return "poll returned error class %d and reaped the next transfer in submission order, which completed with status %d" % (cls, st)
                    if not delivered and not canc:
                        return "poll reaped a transfer the device has not completed and nobody cancelled"
                elif pend == len(inpool):
                    # nothing reaped: a time-out, or event handling failed
                    if cls != 6 and cls not in evclasses:
                        return "poll returned error class %d without reaping a transfer; event handling never fails that way here" % cls
                    if delivered and can[0] == "handled":
                        skipped = can[1]
                        return ("poll(%d ms) returned %s and left the front transfer pending although the device had delivered it before the poll began and "
                                "events could be handled in time: %s the round was %s%s - a transfer that arrived completely and in time is "
                                "reported as a failure (the poll took %d round(s) of the loop)" % (
                                    arg, "Timeout" if cls == 6 else "error class %d" % cls,
                                    ("in %d round(s) the events lock was taken by a thread that had left when this one looked (these take no time), then" % skipped) if skipped else "",
                                    "this thread's own" if can[2] < 2 else lock_name(can[2]), " with a successful event handling" if can[2] < 2 else "", rounds))
                else:
                    return "a failing poll changed pending() from %d to %d: a transfer was lost" % (len(inpool), pend)
                bad = consume(out[p + 3], out[p + 4])
                p += 5
            if bad:
                return bad
        elif op == PENDING:
            v = out[p]
            p += 1
            if have_pool and v != len(inpool):
                return "pending() = %d, %d accepted transfers have not been returned" % (v, len(inpool))
        elif op == EMPTY:
            v = out[p]
            p += 1
            if have_pool and v != (0 if inpool else 1):
                return "is_empty() = %d with %d accepted transfers not returned" % (v, len(inpool))
        elif op == CANCEL:
            if have_pool:
                for t in inpool:
                    t[3] = True
        elif op == PDROP:
            if have_pool:
                if out[p] == 2:
                    return "the drop of the pool panicked"
                if out[p:p + 2] != [0, 0]:
                    return ("after the drop of the pool (%d transfers pending when it began) %d transfers are in flight, %d were freed "
                            "while libusb still had them in flight (the completion flag and the buffer go with them)" % (len(inpool), out[p], out[p + 1]))
                bad = consume(out[p + 3], out[p + 2])
                if bad:
                    return bad
                p += 4
                have_pool, inpool = False, []
        elif op == PNEW:
            have_pool = True
        elif op == ARM:
            evq.append(arg)
        elif op == LOCK:
            lkq.append(arg)
    if out[p] != -9:
        return "output not understood at %d: %r" % (p, _clip(out))
    calls, acc, ref, comp, nf, infl, freed, evcalls = out[p + 1:p + 9]
    if infl or freed:
        return "at the end %d transfers are in flight, %d were freed while in flight" % (infl, freed)
    if calls != acc + ref:
        return "submit calls %d != accepted %d + refused %d" % (calls, acc, ref)
    return None


def run_pool_family(ck):
    binary, log = ck.cargo_build("h_async")
    if binary is None:
        path = ck.write_replay({"kind": "build", "property": "C12", "unchecked": "correspondence via rust/h_async (real cameleon-device over a fake libusb)", "log": log[-6000:]})
        ck.violations.append((path, True, "harness rust/h_async does not build against the repository: the AsyncPool correspondence cannot be established"))
        return
    rng = Rng(ck.seed + 77)
    cases = pool_boundary_cases() + [pool_random_case(rng) for _ in range(500 if ck.tier == "quick" else 8000)]
    impl = ck.run_impl(binary, [c.line for c in cases], jobs=NPROC, timeout=120 if ck.tier == "quick" else 1500)
    model = ck.run_model_terms(["AsyncPool"], ["run_pool3 %s" % zlist(c.expanded()) for c in cases], per_eval=100)
    # a case the process did not survive is [4] on the implementation side and [3] (never returns) in the model
    ck.compare(cases, impl, model, pool_predicate, lambda c, o: bool(o) and len(o) > 12, None,
               correspondence="real AsyncPool (device/src/u3v/async_read.rs over the fake libusb) = model/AsyncPool.v on the same operation sequence",
               family="pool")
    ck.dist["pool_refused_submissions"] = sum(1 for c in cases for e in c.meta["plan"] if e[0] == "r")
    ck.dist["pool_event_failures_scripted"] = sum(1 for c in cases for v in c.meta["evs"] if v) + sum(1 for c in cases for o, a in c.meta["ops"] if o == ARM and a)
    ck.dist["pool_slow_cancellations_scripted"] = sum(1 for c in cases for e in c.meta["plan"] if e[0] == "a" and e[4])
    ck.dist["pool_drops_of_a_nonempty_pool_disturbed"] = sum(1 for c in cases if "clean-up" in c.meta["note"])
    locks = [e for c in cases for e in c.meta["lks"]] + [a for c in cases for o, a in c.meta["ops"] if o == LOCK]
    ck.dist["pool_lock_rounds_scripted"] = {"held_gone": sum(1 for e in locks if e == GONE), "held_active": sum(1 for e in locks if e >= 2),
                                            "own_explicit": sum(1 for e in locks if e <= 0)}
    # observed by the fake libusb: [trylock calls, failed, waits for another handler, waits with no active handler, virtual us]
    obs = [o[-5:] for o in impl if o and len(o) > 13 and o[-14] == -9]
    ck.dist["pool_lock_protocol_observed"] = {"try_lock_calls": sum(o[0] for o in obs), "try_lock_failed": sum(o[1] for o in obs),
                                              "waits_for_event": sum(o[2] for o in obs), "waits_with_no_active_handler": sum(o[3] for o in obs)}



# ------------------------------------------------------------------------------ main --

def run_cases(ck, binary, cases):
    lines = [c.line for c in cases]
    impl = ck.run_impl(binary, lines, jobs=NPROC, timeout=120 if ck.tier == "quick" else 1500)
    terms, idx = [], []
    model = [None] * len(cases)
    for i, (c, o) in enumerate(zip(cases, impl)):
        po = parse_out(o) if o else None
        if po is None:
            model[i] = [-2]
            continue
        try:
            terms.append(model_term(c, po))
            idx.append(i)
        except Exception as e:  # a trace the label builder cannot read is a disagreement, not a crash
            model[i] = [-3]
    res = ck.run_model_terms(["StreamLoop"], terms, per_eval=20)
    for i, r in zip(idx, res):
        model[i] = r
    summ = []
    for c, o in zip(cases, impl):
        po = parse_out(o) if o else None
        summ.append(impl_summary(po) if po else o)
    return impl, summ, model


def main():
    ck = Check("C12")
    ck.rule = ("strm cases: scripted frame sequences (all payload types, valid sizes and chunk layouts at every boundary, "
               "short / empty / garbage / truncated packets, status errors, transfer and submit errors and time-outs at every "
               "transfer index) x receivers (eager, slow, never, dropping; hold / send_back / drop; capacities 1..64) x "
               "controller programs (stop at any time, twice, close, drop, restart with other parameters) x seeded schedules")
    ck.trusted += [
        "rust/shim AsyncPool (scripted bulk-in endpoint; FIFO completion, time-out leaves the transfer pending, drop reaps) in place of device/src/u3v/async_read.rs",
        "rust/achan: the real async-channel behind a wrapper that performs and logs every operation under one lock (total order of the trace)",
        "std::sync::mpsc zero-capacity channel and async-channel are modelled (atomic FIFO / rendezvous operations), thread scheduling is sampled, not enumerated",
        "tools/c12.py labels_of_trace: placement of the unobservable cancellation check / send registration between observed events",
        "rust/h_async/src/fake_usb.rs: in-memory libusb (enumeration always succeeds; scripted submit refusals / completions / cancellation latencies; every libusb_handle_events_locked call returns the next scripted code and, when 0, completes what is due or whose cancellation latency has run out; the events lock follows a script per round of poll_completed: free / held by a thread that handles events and wakes the waiters after n virtual us / taken by a thread that has left when libusb_event_handler_active is asked - a wait with no active handler sleeps its whole timeval with nothing handled; one thread really runs) and a virtual CLOCK_MONOTONIC (clock_gettime defined in the harness binary; an idle event-handling call or wait consumes its timeval) under the REAL cameleon-device crate and rusb",
    ]
    ck.prove()
    ck.phase("prove")
    binary, log = ck.cargo_build("h_u3v")
    ck.phase("cargo")
    if binary is None:
        path = ck.write_replay({"kind": "build", "property": "C12", "unchecked": "correspondence via rust/h_u3v", "log": log[-6000:]})
        ck.violations.append((path, True, "harness rust/h_u3v does not build against the repository: correspondence cannot be established"))
        ck.finish()
    if ck.replay:
        r = json.load(open(ck.replay))
        if r.get("kind") != "case":
            print(json.dumps(r, indent=1)[:4000])
            sys.exit(0)
        allc, _ = gen_cases(ck)
        cands = [c for c in allc + boundary_cases() if c.line == r["case"]]
        if not cands:
            # rebuild a case with the recorded line; meta comes from the replay file
            print("case not regenerated by this seed; re-running the recorded line without predicate")
            impl = ck.run_impl(binary, [r["case"]], jobs=1)
            print("impl:", _clip(impl[0], 200))
            sys.exit(0)
        c = cands[0]
        impl, summ, model = run_cases(ck, binary, [c])
        print("case     :", c.meta["note"], c.line[:300])
        print("impl     :", _clip(summ[0], 200))
        print("model    :", _clip(model[0], 200))
        print("predicate:", predicate(c, impl[0]) or "holds")
        ck.compare([c], summ, model, lambda cc, _o: predicate(cc, impl[0]), None, None)
        ck.finish()
    cases, nb = gen_cases(ck)
    ck.phase("generate")
    impl, summ, model = run_cases(ck, binary, cases)
    ck.phase("run")
    raw = {id(c): o for c, o in zip(cases, impl)}
    ck.compare(cases, summ, model, lambda c, _o: predicate(c, raw[id(c)]), lambda c, _o: nontrivial(c, raw[id(c)]),
               None, correspondence="trace of the real threads accepted by StreamLoop.step, every received item predicted",
               family="strm")
    run_pool_family(ck)
    ck.phase("pool")
    # statistics (also what C11 can cite for PayloadBuilder::build through the real loop)
    ok_items = err_items = frames = accessor = panics = ext_ok = 0
    kinds = {}
    scheds = set()
    events = 0
    for c, o in zip(cases, impl):
        po = parse_out(o) if o else None
        if not po:
            continue
        events += len(po["ev"])
        scheds.add(tuple(e[:2] for e in po["ev"]))
        for it in po["items"]:
            if it[0] == 0:
                ok_items += 1
                accessor += 2
                panics += (it[12] == 2) + (it[15] == 2)
                kinds[it[2]] = kinds.get(it[2], 0) + 1
            else:
                err_items += 1
        frames += sum(1 for s, ok in segments(c.meta["prm"], c.meta["transfers"]) if ok)
    ck.dist.update({"boundary_cases": nb, "trace_events": events, "distinct_interleavings": len(scheds),
                    "frames_scripted_complete": frames, "items_ok": ok_items, "items_err": err_items,
                    "ok_by_payload_type": kinds,
                    "C11_payload_builder": {"complete_frames_through_the_loop": frames, "payloads_delivered": ok_items,
                                            "image_payload_accessor_calls_under_catch_unwind": accessor,
                                            "accessor_panics": panics}})
    ck.finish()
