"""C07 — faulty or hostile device responses yield errors, never panics or made-up data."""
import json
import sys

from ctlcase import (OPEN, CLOSE, READ, WRITEPAT, DUMP, RETRY, ENABLE, PARAMS, GENAPI, ctl_case, model_term, parse_output, show_data,
                     std_world, pattern, SBRM, SIRM)
from vplib import Check, Rng, _clip, xhex

DATA = 0x5000
DATA_LEN = 0x1000
MC, MA = 64, 64           # negotiated limits of the base scenario
STATUS_CODES = [0x0000, 0x8001, 0x8002, 0x8003, 0x8004, 0x8005, 0x8006, 0x8007, 0x800B, 0x800E, 0x800F, 0x8FFF,
                0xA001, 0xA002, 0xA003, 0xA004, 0xA005, 0x4000, 0xC123, 0x6000, 0xE000, 0x0001, 0x1FFF, 0x2000,
                0x8000, 0xFFFF]
KINDS = [0x0801, 0x0803, 0x0805, 0x0807, 0x0809, 0x0800, 0x0802, 0x0000, 0xFFFF]


def ack_len(op):
    return 12 + (op["n"] if op["k"] == "r" else 4)


def faults_for(op, rid, rng, quick):
    """(name, plan-token-list, verdict) for a fault in the transaction answering the single-chunk [op].
    verdict: 'err' the operation must fail, 'ok' it must succeed with true data, 'any' must only not panic."""
    full = ack_len(op)
    is_read = op["k"] == "r"
    exp_kind = 0x0801 if is_read else 0x0803
    out = []

    def conf(name, edits, verdict):
        toks = [5, -1, 1, 1, len(edits)]
        for e in edits:
            toks += e
        out.append((name, toks, verdict))

    cuts = list(range(0, full + 2)) if not quick else sorted({0, 1, 3, 4, 5, 6, 8, 10, 11, 12, 13, full - 1, full, full + 1})
    for n in cuts:
        conf("truncate-%d" % n, [[2, n]], "ok" if n >= full else "err")
    for k in (1, 4, 40, 200):
        conf("extend-%d" % k, [[3, xhex(bytes([0x5A] * k))]], "any")
    for b in range(4):
        conf("magic-byte-%d" % b, [[0, b, 0x00]], "err")
    for code in STATUS_CODES:
        conf("status-%04x" % code, [[1, 4, code]], "ok" if code == 0 else "err")
    for d in (1, -1, 2, 0x100, 0x8000, 0):
        nid = (rid + d) & 0xFFFF
        conf("request-id-%+d" % d, [[1, 10, nid]], "ok" if nid == rid else "err")
    for kind in KINDS:
        conf("kind-%04x" % kind, [[1, 6, kind]], "ok" if kind == exp_kind else "err")
    real = op["n"] if is_read else 4
    for ln in sorted({0, 1, real - 1, real, real + 1, real + 4, 0xFFFF}):
        if ln < 0:
            continue
        if is_read:
            conf("scd-len-field-%d" % ln, [[1, 8, ln]], "ok" if ln == real else "err")
        else:
            conf("scd-len-field-%d" % ln, [[1, 8, ln]], "ok" if ln == real else "any")
    for ln in sorted({0, 1, 2, 3, real - 1, real, real + 1, real + 3, real + 40}):
        if ln < 0:
            continue
        if is_read:
            conf("payload-size-%d" % ln, [[4, ln]], "ok" if ln == real else "err")
        else:
            conf("payload-size-%d" % ln, [[4, ln]], "ok" if ln == real else ("err" if ln < 4 else "any"))
    for code in range(14):
        out.append(("recv-usb-error-%d" % code, [5, -1, 1, 3, code], "err"))
        out.append(("send-usb-error-%d" % code, [5, code, 0], "err"))
    # a device that keeps failing the bulk IN transfer with the same libusb error (a halted endpoint that halts again after
    # every clear, a device gone, ...): an error after a bounded number of receives, never an endless recovery loop
    for code in (0, 3, 6, 7, 8, 9):
        out.append(("recv-usb-error-%d-x40" % code, [5, -1, 40] + [3, code] * 40, "err"))
    out.append(("no-reply", [5, -1, 0], "err"))
    out.append(("empty-packet", [5, -1, 1, 2, "x"], "err"))
    for _ in range(3 if quick else 30):
        ln = rng.choice([1, 5, 11, 12, 13, 16, 20, 60])
        out.append(("garbage-%d" % ln, [5, -1, 1, 2, xhex(rng.bytes(ln))], "err"))
    # a well-formed acknowledge for ANOTHER request (stale)
    stale = bytes([0x55, 0x33, 0x56, 0x43, 0, 0, exp_kind & 255, exp_kind >> 8, real & 255, real >> 8,
                   (rid - 1) & 255, ((rid - 1) >> 8) & 255]) + bytes(real)
    out.append(("stale-ack", [5, -1, 1, 2, xhex(stale)], "err"))
    # a device that keeps repeating well-formed acknowledges of EARLIER requests (ids 1, 2, 100 behind): an error after
    # a bounded number of receives - never more receives than the configured retry count for one command
    for back in (1, 2, 100):
        old = bytes([0x55, 0x33, 0x56, 0x43, 0, 0, exp_kind & 255, exp_kind >> 8, real & 255, real >> 8,
                     (rid - back) & 255, ((rid - back) >> 8) & 255]) + bytes(real)
        out.append(("stale-ack-%d-behind-x12" % back, [5, -1, 12] + [2, xhex(old)] * 12, "err"))
    for p in range(0, 6):
        out.append(("pending-x%d" % p, [5, -1, p + 1] + [0, 1] * p + [1, 0], "ok" if p < 3 else "err"))
    out.append(("pending-forever", [5, -1, 8] + [0, 1] * 8, "err"))
    # a pending acknowledge announcing a time-out of 0 ms (a device-controlled u16): followed by the final acknowledge
    # (must be awaited), or by nothing at all (must end with an error: a receive with time-out 0 would wait for ever)
    out.append(("pending-timeout-0-then-ack", [5, -1, 2, 0, 0, 1, 0], "ok"))
    out.append(("pending-timeout-0-then-nothing", [5, -1, 1, 0, 0], "err"))
    out.append(("pending-timeout-2-then-ack", [5, -1, 2, 0, 2, 1, 0], "ok"))
    out.append(("pending-malformed", [5, -1, 2, 2, xhex(bytes([0x55, 0x33, 0x56, 0x43, 0, 0, 5, 8, 2, 0, rid & 255, rid >> 8, 0, 0])),
                1, 0], "err"))
    return out


def scenario(fault_at, fault_toks, ops, mc=MC, ma=MA, extra_world=None, second=None):
    """open; ops...; the transaction number [fault_at] (counting from 0 at open) gets [fault_toks];
    optionally a second fault (index, toks)."""
    w = std_world(mc, ma, 5)
    w.fill(DATA, DATA_LEN, 23)
    wt = list(w.toks)
    if extra_world:
        for a, width, v in extra_world:
            w.poke(a, width, v)
        wt = list(w.toks)
    plans = []
    if fault_at is not None:
        plans.append((fault_at, fault_toks))
    if second is not None:
        plans.append(second)
    plans.sort(key=lambda p: p[0])
    pos = 0
    for at, toks in plans:
        if at > pos:
            wt += [6, at - pos]
        wt += toks
        pos = at + 1
    optoks = [OPEN]
    for op in ops:
        if op["k"] == "r":
            optoks += [READ, op["a"], op["n"]]
        elif op["k"] == "w":
            optoks += [WRITEPAT, op["a"], op["n"], op["seed"]]
        elif op["k"] == "e":
            optoks += [ENABLE]
        elif op["k"] == "p":
            optoks += [PARAMS]
        elif op["k"] == "d":
            optoks += [DUMP, op["a"], op["n"]]
        elif op["k"] == "g":
            optoks += [GENAPI]
        elif op["k"] == "retry":
            optoks += [RETRY, op["n"]]
        elif op["k"] == "close":
            optoks += [CLOSE]
        elif op["k"] == "open":
            optoks += [OPEN]
    return w, wt, optoks


def predicate(c, out):
    m = c.meta
    po = parse_output(out)
    if po is None:
        if out in ([3],):
            return "operation did not return (hang)"
        return "harness output unreadable / harness died: %r" % (_clip(out),)
    res, events, writes = po
    for i, r in enumerate(res):
        if r[0] == "panic":
            return "operation %d panicked (%s)" % (i, m["name"])
    exp = m["expect"]
    if len(res) != len(exp):
        return "expected %d results, got %d" % (len(exp), len(res))
    for i, (r, e) in enumerate(zip(res, exp)):
        if e[0] == "any":
            continue
        if e[0] == "err":
            if r[0] != "err":
                return "operation %d returned Ok although the device answered with a faulty acknowledge (%s)" % (i, m["name"])
        elif e[0] == "ok":
            if r[0] != "ok":
                return "operation %d failed (class %r) although the device behaved (%s)" % (i, r[1:], m["name"])
            if e[1] is not None and list(r[1]) != list(e[1]):
                return "operation %d returned bytes that are not device memory (%s)" % (i, m["name"])
        elif e[0] == "ok-or-err":
            if r[0] == "ok" and e[1] is not None and list(r[1]) != list(e[1]):
                return "operation %d returned Ok with bytes that are not device memory (%s)" % (i, m["name"])
    # at most `retry` receives per transaction
    k = 0
    for e in events:
        if e[0] == "send":
            k = 0
        elif e[0] == "recv":
            k += 1
            if k > m.get("retry", 3):
                return "more than %d receives for one command" % m.get("retry", 3)
    return None


def nontrivial(c, out):
    return c.meta.get("fault") is not None


def gen_cases(ck):
    rng = Rng(ck.seed)
    quick = ck.tier == "quick"
    cases = []

    def add(name, w, wt, optoks, expect, fault=True, retry=3):
        cases.append(ctl_case(wt, optoks, dict(name=name, expect=expect, fault=name if fault else None, retry=retry)))

    # single faults in the transaction of a one-chunk read / write, followed by a conforming read (recovery)
    for op in (dict(k="r", a=DATA + 7, n=20), dict(k="w", a=DATA + 40, n=24, seed=5), dict(k="r", a=DATA, n=1)):
        rid = 6            # open takes 6 transactions
        for name, ftoks, verdict in faults_for(op, rid, rng, quick):
            follow = dict(k="r", a=DATA + 32, n=48)
            w, wt, optoks = scenario(6, ftoks, [op, follow])
            mem0 = w.read(follow["a"], follow["n"])
            exp = [("ok", None)]
            if op["k"] == "r":
                exp.append({"ok": ("ok", show_data(w.read(op["a"], op["n"]))), "err": ("err",),
                            "any": ("ok-or-err", show_data(w.read(op["a"], op["n"])))}[verdict])
            else:
                exp.append({"ok": ("ok", None), "err": ("err",), "any": ("any",)}[verdict])
                if verdict != "err" or not name.startswith("send-"):
                    # the device applied the write when it received the command, whatever it answered
                    if not name.startswith("send-"):
                        w.write(op["a"], pattern(op["n"], op["seed"]))
            exp.append(("ok", show_data(w.read(follow["a"], follow["n"]))))
            add("%s/%s" % (op["k"], name), w, wt, optoks, exp)
    # the CONFIGURED retry count (set_retry_count 0, 1, 2, 3, 5 - 0 is a legal value) x 0..7 pending acknowledges in
    # the transaction of a read / a write: never a panic, never more receives than configured, Ok (with true data)
    # exactly when the final acknowledge is among the configured number of receives, and the handle recovers
    for rc in (0, 1, 2, 3, 5):
        for p in range(0, 8):
            for op in (dict(k="r", a=DATA + 7, n=20), dict(k="w", a=DATA + 40, n=24, seed=5)):
                follow = dict(k="r", a=DATA + 32, n=48)
                ftoks = [5, -1, p + 1] + [0, 1] * p + [1, 0]
                w, wt, optoks = scenario(6, ftoks, [dict(k="retry", n=rc), op, dict(k="retry", n=3), follow])
                # p pending acknowledges = p retries: within the configured count the final acknowledge must be
                # awaited (p < rc), beyond it the operation must fail (p > rc); p = rc is left to the implementation
                # (the code counts receives, another reading counts retries) - only true data may come with Ok
                good, bad = p < rc, p > rc
                exp = [("ok", None), ("ok", None)]
                if op["k"] == "r":
                    data = show_data(w.read(op["a"], op["n"]))
                    exp.append(("ok", data) if good else ("err",) if bad else ("ok-or-err", data))
                else:
                    exp.append(("ok", None) if good else ("err",) if bad else ("any",))
                    w.write(op["a"], pattern(op["n"], op["seed"]))      # the device applied the write on reception
                exp += [("ok", None), ("any",)]
                add("retry-count-%d/pending-x%d/%s" % (rc, p, op["k"]), w, wt, optoks, exp, retry=max(rc + 1, 3))
    # the configured retry count is the USER's setting: it survives close / reopen of the handle (the second open
    # performs 5 bootstrap transactions, the ABRM capability being cached) - same verdicts as above after a reopen
    for rc in (1, 2, 5):          # (with a count of 0 the code receives nothing at all, so no open can succeed)
        for p in (0, 1, 2, 3, 4, 5, 6):
            op = dict(k="r", a=DATA + 7, n=20)
            ftoks = [5, -1, p + 1] + [0, 1] * p + [1, 0]
            w, wt, optoks = scenario(11, ftoks, [dict(k="retry", n=rc), dict(k="close"), dict(k="open"), op])
            data = show_data(w.read(op["a"], op["n"]))
            exp = [("ok", None), ("ok", None), ("ok", None), ("ok", None),
                   ("ok", data) if p < rc else ("err",) if p > rc else ("ok-or-err", data)]
            add("retry-count-%d/reopen/pending-x%d" % (rc, p), w, wt, optoks, exp, retry=max(rc + 1, 3))
    # faults at every transaction of open (6) and of a 3-chunk read and a 3-chunk write
    kinds = [("recv-err", [5, -1, 1, 3, 0]), ("timeout", [5, -1, 0]), ("status", [5, -1, 1, 1, 1, 1, 4, 0x8006]),
             ("short", [5, -1, 1, 1, 1, 2, 13]), ("wrong-id", [5, -1, 1, 1, 1, 1, 10, 0x7777]),
             ("garbage", [5, -1, 1, 2, xhex(bytes(range(1, 30)))]), ("send-err", [5, 3, 0])]
    ops = [dict(k="r", a=DATA + 3, n=130), dict(k="w", a=DATA + 300, n=100, seed=9), dict(k="r", a=DATA, n=40)]
    ntx = 6 + 3 + 3 + 1
    for at in range(ntx):
        for kn, ftoks in kinds:
            w, wt, optoks = scenario(at, ftoks, ops)
            exp = [("any",)] * 4       # exact classes are compared with the model; the predicate forbids panics
            add("tx%d/%s" % (at, kn), w, wt, optoks, exp)
    # double faults
    for _ in range(30 if quick else 600):
        a1 = rng.below(ntx)
        a2 = rng.below(ntx)
        if a1 == a2:
            continue
        k1 = rng.choice(kinds)
        k2 = rng.choice(kinds)
        w, wt, optoks = scenario(a1, k1[1], ops, second=(a2, k2[1]))
        add("double tx%d/%s tx%d/%s" % (a1, k1[0], a2, k2[0]), w, wt, optoks, [("any",)] * 4)
    # degenerate advertised limits
    for mc in (0, 1, 11, 12, 13, 19, 20, 21, 23, 24, 25, 65555, 65556, 65557, 0x20014, 0xFFFF0014, 0xFFFFFFFF):
        for ma in (0, 1, 11, 12, 13, 15, 16, 17, 65547, 65548, 65549, 0x2000B, 0x2000C, 0x2000D, 0xFFFF000C, 0xFFFFFFFF):
            ops2 = [dict(k="r", a=DATA + 3, n=9), dict(k="w", a=DATA + 30, n=7, seed=1), dict(k="r", a=DATA, n=0)]
            w, wt, optoks = scenario(None, None, ops2, mc=mc, ma=ma)
            r_ok = mc >= 24 and ma > 12
            w_ok = mc > 20
            exp = [("ok", None), ("ok", show_data(w.read(DATA + 3, 9))) if r_ok else ("err",),
                   ("ok", None) if w_ok else ("err",), ("any",)]
            add("limits %d/%d" % (mc, ma), w, wt, optoks, exp, fault="limits")
    # hostile bootstrap registers
    hostile = [("sbrm-near-top", [(0x1D8, 8, (1 << 64) - 16)]), ("sbrm-top", [(0x1D8, 8, (1 << 64) - 1)]),
               ("sbrm-unmapped", [(0x1D8, 8, 0x7000000)]), ("sirm-near-top", [(SBRM + 0x20, 8, (1 << 64) - 3)]),
               ("sirm-unmapped", [(SBRM + 0x20, 8, 0x9000000)]), ("no-sirm", [(SBRM + 4, 8, 0)]),
               ("align-exp-31", [(SIRM, 4, 31 << 24)]), ("align-exp-32", [(SIRM, 4, 32 << 24)]),
               ("align-exp-64", [(SIRM, 4, 64 << 24)]), ("align-exp-255", [(SIRM, 4, 255 << 24)]),
               ("required-max", [(SIRM + 8, 8, (1 << 64) - 1), (SIRM + 0x10, 4, 0xFFFFFFFF), (SIRM + 0x14, 4, 0xFFFFFFFF)]),
               ("resp-time-max", [(0x1CC, 4, 0xFFFFFFFF)])]
    for name, pokes in hostile:
        for mc in (64, 21, 24):
            w, wt, optoks = scenario(None, None, [dict(k="e"), dict(k="p"), dict(k="r", a=DATA, n=4)], mc=mc,
                                     extra_world=pokes)
            add("hostile %s max_cmd=%d" % (name, mc), w, wt, optoks, [("any",)] * 4, fault="bootstrap")
    # hostile manifest tables (XML retrieval): table and entries at the very top of the address space, absurd
    # entry counts; the model of genapi() belongs to C14, so these cases run on the implementation with the
    # predicate only (no panic, no hang, the follow-up read succeeds)
    TOP = 1 << 64
    for k in range(0, 4):
        for d in (0, 1, 7, 8, 9, 63, 64, 65):
            t = TOP - 8 - 64 * k - d
            for count in (0, 1, 2, 3, k, k + 1, k + 2, 1 << 16, 1 << 32, 1 << 63, TOP - 1):
                w = std_world(MC, MA, 5, manifest=t)
                w.fill(DATA, DATA_LEN, 23)
                w.seg(TOP - 8192, bytes(8192))
                if t + 8 <= TOP:
                    w.poke(t, 8, count)
                optoks = [OPEN, GENAPI, READ, DATA, 4]
                c = ctl_case(list(w.toks), optoks, dict(name="hostile manifest t=2^64-%d count=%d" % (TOP - t, count),
                                                       expect=[("ok", None), ("any",), ("ok", show_data(w.read(DATA, 4)))],
                                                       fault="manifest", retry=3, model=False))
                cases.append(c)
    # cooperating faults: a write split into three commands (44 + 44 + 12 bytes) whose WriteMem acknowledges are
    # well-formed but report written lengths that are wrong one by one and right in total -- every command's
    # acknowledge has to be of the right size, so the write must fail; and single wrong lengths at each chunk
    wop = dict(k="w", a=DATA + 300, n=100, seed=9)
    chunks = [44, 44, 12]
    for ds in ((-1, 1, 0), (3, 0, -3), (1, -1, 0), (0, 5, -5), (-44, 44, 0), (12, 0, -12), (0, -1, 1), (2, -1, -1),
               (1, 0, 0), (0, -2, 0), (0, 0, 7)):
        w = std_world(MC, MA, 5)
        w.fill(DATA, DATA_LEN, 23)
        wt = list(w.toks) + [6, 6]
        for ch, d in zip(chunks, ds):
            wt += [5, -1, 1, 1, 1, 1, 14, (ch + d) & 0xFFFF] if d else [6, 1]
        follow = dict(k="r", a=DATA + 290, n=120)
        optoks = [OPEN, WRITEPAT, wop["a"], wop["n"], wop["seed"], READ, follow["a"], follow["n"]]
        add("write-lengths %r" % (ds,), w, wt, optoks, [("ok", None), ("err",), ("any",)])
    # a long history: more than 65536 successful transactions on one handle (request-id wrap), then a fault, then
    # recovery -- the id arithmetic must neither panic nor lose the match between command and acknowledge.
    # 68,000 transactions take minutes in the kernel VM: implementation + predicate only in the quick tier.
    w = std_world(24, 13, 5)
    w.fill(DATA, DATA_LEN, 23)
    wt = list(w.toks) + [6, 6 + 17 * 4000] + [5, -1, 1, 1, 1, 1, 10, 0x1234] + [6, 1]
    optoks = [OPEN]
    exp = [("ok", None)]
    for _i in range(17):
        optoks += [READ, DATA, 4000]
        exp.append(("ok", show_data(w.read(DATA, 4000))))
    optoks += [READ, DATA + 1, 1, READ, DATA + 2, 1]
    exp += [("err",), ("ok", show_data(w.read(DATA + 2, 1)))]
    cases.append(ctl_case(wt, optoks, dict(name="request-id wrap then wrong id", expect=exp, fault="wrap", retry=3,
                                           model=not quick)))
    # faults inside enable_streaming
    for at in range(6, 6 + 16):
        for kn, ftoks in kinds[:4]:
            w, wt, optoks = scenario(at, ftoks, [dict(k="e"), dict(k="r", a=DATA, n=4)])
            add("enable tx%d/%s" % (at, kn), w, wt, optoks, [("any",)] * 3)
    return cases


def main():
    ck = Check("C07")
    ck.rule = ("fault enumeration over the real ControlHandle (rust/cut + rust/shim) and the Gallina model on the same "
               "token streams: every single fault of the property's list in the transaction of a read and of a write "
               "(truncation at every length, extension, each magic byte, 26 status codes, request ids, 9 acknowledge "
               "kinds, SCD-length field, payload sizes, 14 libusb errors on send and on receive, no reply, empty and "
               "garbage packets, stale acknowledge, pending x0..5 / forever / malformed), each followed by a conforming "
               "read (recovery); 7 fault kinds at every transaction of open / 3-chunk read / 3-chunk write; random "
               "double faults; degenerate limits 0..25 / u32::MAX; hostile bootstrap registers (SBRM/SIRM near 2^64 or "
               "unmapped, alignment exponents 31/32/64/255, maximal required sizes); faults inside enable_streaming; "
               "cooperating wrong written-length fields over a three-command write (wrong one by one, right in total); a "
               "history of 68,000 transactions (request-id wrap) followed by a wrong-id acknowledge and recovery; XML retrieval "
               "from manifest tables placed at every offset of the top of the address space with entry counts 0..2^64-1. "
               "Predicate (independent): no panic, no hang, fatal faults give Err, benign ones give the true memory, "
               "Ok never carries other bytes, at most `retry` receives per command, the follow-up read succeeds.")
    ck.trusted += ["rust/shim scripted device and its transcription in model/Control.v", "tools/c07.py, tools/ctlcase.py"]
    ck.prove()
    ck.phase("prove")
    binary, log = ck.cargo_build("h_u3v")
    ck.phase("cargo")
    if binary is None:
        path = ck.write_replay({"kind": "build", "property": "C07", "unchecked": "correspondence via rust/h_u3v",
                                "log": log[-6000:]})
        ck.violations.append((path, True, "harness rust/h_u3v does not build against /repo"))
        ck.finish()
    if ck.replay:
        r = json.load(open(ck.replay))
        if r.get("kind") != "case":
            print(json.dumps(r, indent=1)[:4000])
            sys.exit(0)
        if r.get("ckind") in ("enum", "chan") or "end to end" in (r.get("family") or ""):   # USB layer (tools/usbenum.py)
            import usbenum
            usbenum.replay(ck, r)
        from vplib import Case
        c = Case("ctl", r["mtoks"].split())
        impl = ck.run_impl(binary, [c.line], big_stack=True)
        model = ck.run_model_terms(["ControlRun"], [model_term(c)])
        print("impl :", _clip(impl[0], 200))
        print("model:", _clip(model[0], 200))
        print("agree:", impl[0] == model[0])
        sys.exit(0 if impl[0] == model[0] else 1)
    cases = gen_cases(ck)
    ck.phase("generate")
    impl = ck.run_impl(binary, [c.line for c in cases], jobs=16, big_stack=True, timeout=120)
    ck.phase("impl")
    both = [i for i, c in enumerate(cases) if c.meta.get("model", True)]
    only = [i for i, c in enumerate(cases) if not c.meta.get("model", True)]
    model = ck.run_model_terms(["ControlRun"], [model_term(cases[i]) for i in both], per_eval=20, jobs=16)
    ck.phase("model")
    ck.compare([cases[i] for i in both], [impl[i] for i in both], model, predicate, nontrivial, family="fault plans")
    if only:
        ck.compare([cases[i] for i in only], [impl[i] for i in only], None, predicate, nontrivial,
                   family="hostile manifest tables (implementation + predicate; genapi is modelled in C14)")
    names = {}
    for c in cases:
        k = c.meta["name"].split("/")[-1].split("-")[0].split(" ")[0]
        names[k] = names.get(k, 0) + 1
    ck.dist["fault_kinds"] = names
    # USB layer (device/src/u3v/device_builder.rs, device_info.rs): the real cameleon-device crate
    # over a scripted fake libusb (rust/h_usb) vs model/UsbEnum.v, see tools/usbenum.py
    import usbenum
    usbenum.run_enum(ck)
    usbenum.run_ctlreal(ck, cases, impl, predicate, nontrivial, label="fault plans end to end")
    ck.finish()
