"""C04 — register caching is observationally transparent.

Registers have an immediate <Length> or a <pLength> that names a variable (Integer with <Value>); the cache key is
(node, address, current length).  GUARD: length variables stay within 0..=LMAX (see LMAX).

Every generated history is run TWICE on the real code by rust/h_cache (context built with
GenApiBuilder::default() and with .no_cache()).  The property's own predicate compares the two runs
(results, final image, access logs); the correspondence compares both runs with model/Cache.v."""
import json
import struct
import xml.etree.ElementTree as ET
from math import gcd

import xmlrender as X
from vplib import Case, Check, Rng, xhex, zlit, zlist, _clip

MODES = ["WriteThrough", "WriteAround", "NoCache"]
KINDS = {"int": 0, "float": 1, "string": 2, "raw": 3, "masked": 4}
TAGS = {"int": "IntReg", "float": "FloatReg", "string": "StringReg", "raw": "Register", "masked": "MaskedIntReg"}
BASE = 0x100
IMG = 48
LMAX = 16        # GUARD: a length variable only ever holds 0..=LMAX (model/Cache.v describes lengths >= 0; the code
                 # allocates `length as usize` bytes: negative = capacity-overflow panic, huge = that many bytes)
NS = "{http://www.genicam.org/GenApi/Version_1_0}"


# ----------------------------------------------------------------------------- systems ------

def reg(kind, addr, length, mode="WriteThrough", sign=0, endian=0, lo=0, hi=0, index=(), inval=(), struct=None, plen=None):
    """lo/hi: field bits in normalised (LSB-0) numbering (of the nominal length); index: [(node index of a variable,
    offset)]; plen: node index of the variable that holds the length (<pLength>), `length` is then only the nominal
    length the field bits were chosen for"""
    return dict(t="reg", kind=kind, addr=addr, len=length, mode=mode, sign=sign, endian=endian, lo=lo, hi=hi,
                index=list(index), inval=set(inval), struct=struct, plen=plen)


def var(init=0, dom=None):
    """dom: the only values a history gives the variable (a variable that is some register's length: within 0..=LMAX,
    the declared invalidators are computed from it); None = a selector, any value"""
    if dom is not None:
        dom = sorted(set(dom) | {init})
        assert all(0 <= v <= LMAX for v in dom)
    return dict(t="var", init=init, dom=dom)


def lens(r, nodes):
    """the lengths register r can have"""
    return [r["len"]] if r.get("plen") is None else list(nodes[r["plen"]]["dom"])


def pint(target):
    return dict(t="int", target=target)


def cmd(target, cv):
    return dict(t="cmd", target=target, cv=cv)


def offsets(r):
    return [o for _, o in r["index"] if o != 0]


def may_overlap(r1, r2, nodes):
    """Can the byte ranges of a cache key of r1 and a cache key of r2 (two different registers) overlap for some values
    of the index and length variables?  Overlap is monotone in the lengths, so the largest producible lengths decide."""
    g = 0
    for o in offsets(r1) + offsets(r2):
        g = gcd(g, abs(o))
    l1, l2 = max(lens(r1, nodes)), max(lens(r2, nodes))
    d = r1["addr"] - r2["addr"]          # a1 - a2 ranges over d + t*g
    if g == 0:
        return -l1 < d < l2
    x = (-l1 + 1) + ((d - (-l1 + 1)) % g)
    return x < l2


def declare(nodes, rng=None, extra=False):
    """The property's hypothesis: every register that can alter ANOTHER register's bytes is declared as its
    pInvalidator.  Nothing is declared for a register's own keys (one address under several lengths, selector positions
    closer than the length): write_and_cache maintains them itself.  Self-invalidators and others only as random extras."""
    regs = [(i, n) for i, n in enumerate(nodes) if n["t"] == "reg"]
    for i, a in regs:
        for j, b in regs:
            if i != j and may_overlap(a, b, nodes):
                b["inval"].add(i)           # a (the writer) invalidates b
    if extra and rng is not None:
        for j, b in regs:
            if rng.chance(1, 4):
                b["inval"].add(rng.below(len(nodes) + 1))     # len(nodes) = the Port
            if rng.chance(1, 10):
                b["inval"].add(j)


def name(i, nodes):
    return "Device" if i == len(nodes) else "N%d" % i


def declared_bits(n):
    L = n["len"]
    if n["endian"]:
        return 8 * L - 1 - n["lo"], 8 * L - 1 - n["hi"]
    return n["lo"], n["hi"]


def length_xml(n, nodes):
    """RegisterBase's parser takes the element after the address kinds as the length whatever its name and decides
    by its text (a name = node reference); the schema's names are Length / pLength"""
    if n.get("plen") is None:
        return X.el("Length", n["len"])
    return X.el("pLength", name(n["plen"], nodes))


def render_xml(nodes):
    out = []
    done = set()
    for i, n in enumerate(nodes):
        if i in done:
            continue
        nm = name(i, nodes)
        if n["t"] == "var":
            out.append('<Integer Name="%s"><Value>%d</Value></Integer>' % (nm, n["init"]))
        elif n["t"] == "int":
            out.append('<Integer Name="%s"><pValue>%s</pValue></Integer>' % (nm, name(n["target"], nodes)))
        elif n["t"] == "cmd":
            out.append('<Command Name="%s"><pValue>%s</pValue><CommandValue>%d</CommandValue></Command>'
                       % (nm, name(n["target"], nodes), n["cv"]))
        elif n["struct"] is not None:
            grp = [j for j, m in enumerate(nodes) if m["t"] == "reg" and m["struct"] == n["struct"]]
            done.update(grp)
            lists = [sorted(nodes[j]["inval"]) for j in grp]
            common = lists[0] if all(x == lists[0] for x in lists) and n["struct"] % 2 == 0 else None
            s = X.el("Address", n["addr"])
            for v, o in n["index"]:
                s += '<pIndex Offset="%d">%s</pIndex>' % (o, name(v, nodes))
            s += length_xml(n, nodes) + X.el("AccessMode", n.get("am", "RW")) + X.el("pPort", "Device")
            s += X.el("Cachable", n["mode"])
            if common:
                s += "".join(X.el("pInvalidator", name(k, nodes)) for k in common)
            s += X.el("Endianess", "BigEndian" if n["endian"] else "LittleEndian")
            for j in grp:
                m = nodes[j]
                e = ""
                if not common:
                    e += "".join(X.el("pInvalidator", name(k, nodes)) for k in sorted(m["inval"]))
                lsb, msb = declared_bits(m)
                e += X.el("LSB", lsb) + X.el("MSB", msb) + X.el("Sign", "Signed" if m["sign"] else "Unsigned")
                s += '<StructEntry Name="%s">%s</StructEntry>' % (name(j, nodes), e)
            out.append('<StructReg Comment="c">%s</StructReg>' % s)
        else:
            s = X.el("Address", n["addr"])
            for v, o in n["index"]:
                s += '<pIndex Offset="%d">%s</pIndex>' % (o, name(v, nodes))
            s += length_xml(n, nodes) + X.el("AccessMode", n.get("am", "RW")) + X.el("pPort", "Device")
            s += X.el("Cachable", n["mode"])
            s += "".join(X.el("pInvalidator", name(k, nodes)) for k in sorted(n["inval"]))
            if n["kind"] == "masked":
                lsb, msb = declared_bits(n)
                s += X.el("LSB", lsb) + X.el("MSB", msb)
            if n["kind"] in ("int", "masked"):
                s += X.el("Sign", "Signed" if n["sign"] else "Unsigned")
            if n["kind"] in ("int", "masked", "float"):
                s += X.el("Endianess", "BigEndian" if n["endian"] else "LittleEndian")
            out.append('<%s Name="%s">%s</%s>' % (TAGS[n["kind"]], nm, s, TAGS[n["kind"]]))
    return X.document(out)


def render_model_sys(nodes):
    slots = {}
    for i, n in enumerate(nodes):
        if n["t"] == "var":
            slots[i] = len(slots)
    items = []
    for i, n in enumerate(nodes):
        if n["t"] == "var":
            items.append("NVar %d" % slots[i])
        elif n["t"] == "int":
            items.append("NInt %d" % n["target"])
        elif n["t"] == "cmd":
            items.append("NCmd %d %s" % (n["target"], zlit(n["cv"])))
        else:
            lsb, msb = declared_bits(n)
            ix = "[" + "; ".join("(%d, %s)" % (slots[v], zlit(o)) for v, o in n["index"]) + "]"
            ln = "(LImm %d)" % n["len"] if n.get("plen") is None else "(LVar %d)" % slots[n["plen"]]
            items.append("NReg (Build_creg %d %d %d %d %d %d %s %s %d %s)"
                         % (KINDS[n["kind"]], n["sign"], n["endian"], lsb, msb, n["addr"], ix, ln,
                            MODES.index(n["mode"]), zlist(sorted(n["inval"]))))
    vars0 = [n["init"] for n in nodes if n["t"] == "var"]
    return "(Build_system [" + "; ".join(items) + "] %d)" % len(nodes), vars0


def s64(x):
    return x - (1 << 64) if x >= (1 << 63) else x


def rust_op(op, nodes):
    k = op[0]
    if k == "cc":
        return "cc"
    if k == "rej":
        return "rej:%d" % op[1]
    nm = name(op[1], nodes) if op[1] < len(nodes) else "N%d" % op[1]
    if k in ("v", "ex", "dn"):
        return "%s:%s" % (k, nm)
    if k == "s":
        n = nodes[op[1]] if op[1] < len(nodes) else None
        if n is not None and n["t"] == "reg" and n["kind"] == "string":
            return "s:%s:h:%s" % (nm, bytes(op[2]).hex() or "-")
        return "s:%s:i:%d" % (nm, s64(op[2][0]))
    if k == "rr":
        return "rr:%s:%d" % (nm, op[2])
    if k == "rw":
        return "rw:%s:%s" % (nm, bytes(op[2]).hex() or "-")
    raise ValueError(k)


def model_op(op):
    k = op[0]
    if k == "cc":
        return "OpClear"
    if k == "rej":
        return "OpReject %d" % op[1]
    if k == "v":
        return "OpValue %d" % op[1]
    if k == "s":
        return "OpSet %d %s" % (op[1], zlist(list(op[2])))
    if k == "rr":
        return "OpRawRead %d %d" % (op[1], op[2])
    if k == "rw":
        return "OpRawWrite %d %s" % (op[1], zlist(list(op[2])))
    if k == "ex":
        return "OpExec %d" % op[1]
    if k == "dn":
        return "OpDone %d" % op[1]
    raise ValueError(k)


def make_case(nodes, image, ops, base=BASE, ver="cur", fam=""):
    xml = render_xml(nodes)
    rline = "c %s %d %s %s" % (xhex(xml.encode()), base, xhex(image), " ".join(rust_op(o, nodes) for o in ops))
    sysm, vars0 = render_model_sys(nodes)
    term = "run_both %s %s %d %s %s [%s]" % (ver, sysm, base, zlist(list(image)), zlist(vars0),
                                            "; ".join(model_op(o) for o in ops))
    c = Case("c04", term.split(), dict(nodes=nodes, image=bytes(image), ops=list(ops), base=base, fam=fam),
             term=term, rline=rline)
    return c


# ------------------------------------------------------------------- output interpretation ----

def parse_run(out, i, nops):
    """-> (results per op, accesses per op, final image), next index.  The harness puts a marker (2) into the
    log at the start of every operation."""
    res = []
    for _ in range(nops):
        n = out[i]
        res.append(out[i + 1:i + 1 + n])
        i += 1 + n
    if out[i] != -7:
        raise ValueError("no log marker")
    nlog = out[i + 1]
    i += 2
    segs = []
    for _ in range(nlog):
        if out[i] == 2:
            segs.append([])
            i += 1
        elif out[i] == 0:
            segs[-1].append(("R", out[i + 1], out[i + 2]))
            i += 3
        elif out[i] == 1:
            ln = out[i + 2]
            segs[-1].append(("W", out[i + 1], tuple(out[i + 3:i + 3 + ln])))
            i += 3 + ln
        else:
            raise ValueError("bad log entry")
    if out[i] != -8:
        raise ValueError("no image marker")
    i += 1
    j = i
    while j < len(out) and out[j] != -9:
        j += 1
    if len(segs) != nops:
        raise ValueError("log has %d operation markers for %d operations" % (len(segs), nops))
    return (res, segs, out[i:j]), j


def parse_both(out, nops):
    a, j = parse_run(out, 0, nops)
    if j >= len(out) or out[j] != -9:
        raise ValueError("no second run")
    b, _ = parse_run(out, j + 1, nops)
    return a, b


INFO = {}


def info_of_line(line):
    """ops and the facts about nodes the predicate needs, recovered from the harness line alone"""
    t = line.split()
    if t[1] in INFO:
        nocache, strings = INFO[t[1]]
    else:
        root = ET.fromstring(bytes.fromhex(t[1][1:]).decode())
        nocache, strings = set(), set()
        for e in root:
            tag = e.tag.replace(NS, "")
            cach = e.find(NS + "Cachable")
            mode = cach.text if cach is not None else "WriteThrough"
            if tag == "StructReg":
                for ent in e.findall(NS + "StructEntry"):
                    c2 = ent.find(NS + "Cachable")
                    if (c2.text if c2 is not None else mode) == "NoCache":
                        nocache.add(ent.get("Name"))
            elif tag in ("IntReg", "MaskedIntReg", "FloatReg", "StringReg", "Register"):
                if mode == "NoCache":
                    nocache.add(e.get("Name"))
                if tag == "StringReg":
                    strings.add(e.get("Name"))
        if len(INFO) > 50000:
            INFO.clear()
        INFO[t[1]] = (nocache, strings)
    ops = [o.split(":") for o in t[4:]]
    return ops, nocache, strings


def is_subseq(a, b):
    it = iter(b)
    return all(any(x == y for y in it) for x in a)


def predicate(c, out):
    """The property, evaluated on the two runs of the real code (cached / uncached)."""
    if out is None or out in ([2], [3], [4]) or len(out) < 4:
        return "harness died / panicked / description rejected: %r" % (out,)
    ops, nocache, _ = info_of_line(c.line)
    try:
        (rc, sc, mc), (ru, su, mu) = parse_both(out, len(ops))
    except (ValueError, IndexError) as e:
        return "unparsable harness output (%s)" % e
    for i, (a, b) in enumerate(zip(rc, ru)):
        if a != b:
            return "op %d %s: with caching %r, without caching %r" % (i, ":".join(ops[i]), a[:6], b[:6])
    if mc != mu:
        return "final device images differ between the cached and the uncached run"
    for i, (a, b) in enumerate(zip(sc, su)):
        if [e for e in a if e[0] == "W"] != [e for e in b if e[0] == "W"]:
            return "op %d %s: device writes differ between the cached and the uncached run" % (i, ":".join(ops[i]))
        if not is_subseq(a, b):
            return "op %d %s: caching added a device access" % (i, ":".join(ops[i]))
        if ops[i][0] == "v" and ops[i][1] in nocache and a != b:
            return "op %d %s: a NoCache register was served from memory" % (i, ":".join(ops[i]))
    return None


def rebuild(run, ops, strings):
    res, segs, mem = run
    out = []
    for op, r in zip(ops, res):
        # a string value with non-ASCII bytes is decoded lossily by the implementation (U+FFFD): marker
        if op[0] == "v" and op[1] in strings and r[:1] == [0] and any(b >= 128 for b in r[2:]):
            r = [0, -1]
        out += [len(r)] + list(r)
    log = [e for s in segs for e in s]
    out += [-7, len(log)]
    for e in log:
        out += [0, e[1], e[2]] if e[0] == "R" else [1, e[1], len(e[2])] + list(e[2])
    return out + [-8] + list(mem)


def canon_impl(out, line):
    """the harness output in the model's format: operation markers removed from the log"""
    try:
        ops, _, strings = info_of_line(line)
        a, b = parse_both(out, len(ops))
        return rebuild(a, ops, strings) + [-9] + rebuild(b, ops, strings)
    except Exception:
        return out


def canon_model(out, line):
    """the model output has no markers: parse it with one pseudo segment per run"""
    try:
        ops, _, strings = info_of_line(line)
        if not strings:
            return out
        res, i = [], 0
        for _run in range(2):
            for op in ops:
                n = out[i]
                r = out[i + 1:i + 1 + n]
                if op[0] == "v" and op[1] in strings and r[:1] == [0] and any(b >= 128 for b in r[2:]):
                    r = [0, -1]
                res += [len(r)] + r
                i += 1 + n
            j = i
            while j < len(out) and out[j] != -9:
                j += 1
            res += out[i:j + 1]
            i = j + 1
        return res
    except Exception:
        return out


def nontrivial(c, out):
    """a history in which caching actually saved a device access and something was written"""
    try:
        ops, _, _ = info_of_line(c.line)
        raw = RAW.get(c.line, out)
        (rc, sc, mc), (ru, su, mu) = parse_both(raw, len(ops))
    except Exception:
        return False
    return sum(map(len, sc)) < sum(map(len, su)) and any(e[0] == "W" for s in su for e in s)


RAW = {}


def full_predicate(c, out):
    return predicate(c, RAW.get(c.line, out))


# ------------------------------------------------------------- feature kinds as invalidators -----

def feature_cases(rng):
    """Every kind of feature whose write path announces itself (`invalidate_cache_by`) named as the <pInvalidator> of a
    cached register that covers the bytes the feature writes: Integer, Float, Boolean, Enumeration (by value, by name,
    and through an Integer / Boolean on top of it), Command, IntConverter, Converter, String.  Hand-written
    descriptions; the two runs of the real code (cached / uncached) are compared by the predicate, there is no model
    term for these."""
    def el(tag, body):
        return "<%s>%s</%s>" % (tag, body, tag)

    def reg(tag, nm, addr, length, mode, inval=(), extra=""):
        return '<%s Name="%s">%s</%s>' % (tag, nm, el("Address", addr) + el("Length", length) + el("AccessMode", "RW")
                                           + el("pPort", "Device") + el("Cachable", mode)
                                           + "".join(el("pInvalidator", i) for i in inval) + extra, tag)

    ints = el("Sign", "Unsigned") + el("Endianess", "LittleEndian")
    feats = {
        "Integer": ('<Integer Name="F"><pValue>T</pValue></Integer>', [("s", "F", 2), ("s", "F", 1)]),
        "Float": ('<Float Name="F"><pValue>T</pValue></Float>', [("sf", "F", 2.0), ("sf", "F", 1.0)]),
        "Boolean": ('<Boolean Name="F"><pValue>T</pValue><OnValue>2</OnValue><OffValue>1</OffValue></Boolean>',
                    [("sb", "F", 1), ("sb", "F", 0)]),
        "Enumeration by value": (None, [("se", "F", 2), ("se", "F", 1)]),
        "Enumeration by name": (None, [("sn", "F", "E2"), ("sn", "F", "E1")]),
        "Integer over Enumeration": ('<Integer Name="G"><pValue>F</pValue></Integer>', [("s", "G", 2), ("s", "G", 1)]),
        "Boolean over Enumeration": ('<Boolean Name="G"><pValue>F</pValue><OnValue>2</OnValue><OffValue>1</OffValue></Boolean>',
                                     [("sb", "G", 1), ("sb", "G", 0)]),
        "Command": ('<Command Name="F"><pValue>T</pValue><CommandValue>2</CommandValue></Command>', [("ex", "F"), ("s", "T", 1), ("ex", "F")]),
        "IntConverter": ('<IntConverter Name="F"><FormulaTo>FROM</FormulaTo><FormulaFrom>TO</FormulaFrom><pValue>T</pValue>'
                         '</IntConverter>', [("s", "F", 2), ("s", "F", 1)]),
        "Converter": ('<Converter Name="F"><FormulaTo>FROM</FormulaTo><FormulaFrom>TO</FormulaFrom><pValue>T</pValue>'
                      '</Converter>', [("sf", "F", 2.0), ("sf", "F", 1.0)]),
    }
    # a write that fails half-way: the main target is written, a <pValueCopy> target refuses - the feature has changed the
    # device although it reports an error, its dependants must not be served from the cache afterwards
    feats["Integer with a refusing copy"] = (
        '<Integer Name="F"><pValue>T</pValue><pValueCopy>K</pValueCopy></Integer>'
        '<IntSwissKnife Name="K"><Formula>1</Formula></IntSwissKnife>', [("s", "F", 2), ("s", "F", 1)])
    feats["Float with a refusing copy"] = (
        '<Float Name="F"><pValue>T</pValue><pValueCopy>K</pValueCopy></Float>'
        '<SwissKnife Name="K"><Formula>1</Formula></SwissKnife>', [("sf", "F", 2.0), ("sf", "F", 1.0)])
    # the port itself as the only declared invalidator: anything written through it may change the register
    feats["Port"] = (None, [("s", "T", 2), ("rw", "T", "01000000"), ("s", "T", 3)])
    enum = ('<Enumeration Name="F"><EnumEntry Name="E0"><Value>0</Value></EnumEntry><EnumEntry Name="E1"><Value>1</Value>'
            '</EnumEntry><EnumEntry Name="E2"><Value>2</Value></EnumEntry><pValue>T</pValue></Enumeration>')
    cases = []
    base = 0x100
    for label, (fx, writes) in feats.items():
        for mode in ("WriteThrough", "WriteAround"):
            for tmode in ("NoCache", "WriteThrough", "WriteAround"):
                for lvl in ("feature", "both"):
                    watch = ["G" if "over" in label else "F"] + (["T"] if lvl == "both" else [])
                    if label == "Port":
                        if lvl == "both":
                            continue
                        watch = ["Device"]
                    body = [reg("IntReg", "T", base, 4, tmode, extra=ints),
                            reg("IntReg", "S", base, 4, mode, inval=watch, extra=ints),
                            reg("Register", "R", base - 2, 8, mode, inval=watch)]
                    if "Enumeration" in label:
                        body.append(enum)
                    if fx:
                        body.append(fx)
                    xml = X.document(body)
                    ops = [("v", "S"), ("rr", "R", 8)]
                    if label == "Command" and lvl == "feature":
                        writes = [("ex", "F")]          # T itself is not a declared invalidator here: no direct write
                    for w in writes:
                        ops += [w, ("v", "S"), ("rr", "R", 8), ("v", "S")]
                    toks = []
                    for o in ops:
                        if o[0] == "s":
                            toks.append("s:%s:i:%d" % (o[1], o[2]))
                        elif o[0] == "sf":
                            toks.append("s:%s:i:%d" % (o[1], struct.unpack("<q", struct.pack("<d", o[2]))[0]))
                        elif o[0] in ("v", "ex"):
                            toks.append("%s:%s" % (o[0], o[1]))
                        else:
                            toks.append("%s:%s:%s" % (o[0], o[1], o[2]))
                    image = bytes(rng.bytes(16))
                    rline = "c %s %d %s %s" % (xhex(xml.encode()), base - 4, xhex(image), " ".join(toks))
                    cases.append(Case("c04", rline.split(), dict(fam="feature invalidators", label=label, ops=ops),
                                      term=None, rline=rline))
    return cases


# ----------------------------------------------------------------------------- generator -----

def field(rng, L):
    nb = 8 * L
    lo = rng.below(nb)
    hi = min(nb - 1, lo + rng.below(min(nb - lo, 16)))
    return lo, hi


def rand_reg(rng, addr=None, kinds=("int", "int", "masked", "masked", "raw", "float", "string")):
    kind = rng.choice(kinds)
    if kind in ("int", "masked"):
        L = rng.choice([1, 2, 2, 4, 4, 8] + ([3] if rng.chance(1, 12) else []))
    elif kind == "float":
        L = rng.choice([4, 8])
    else:
        L = rng.range(1, 9)
    a = addr if addr is not None else BASE + rng.below(IMG - 6)
    if rng.chance(1, 25):
        a = BASE + IMG - rng.range(0, 3)            # straddles / leaves the image: static rejection
    lo, hi = field(rng, L) if kind == "masked" and L != 3 else (0, 0)
    return reg(kind, a, L, mode=rng.choice(MODES + ["WriteThrough"]), sign=rng.below(2), endian=rng.below(2), lo=lo, hi=hi)


def int_like(nodes):
    return [i for i, n in enumerate(nodes) if n["t"] in ("var", "int") or (n["t"] == "reg" and n["kind"] in ("int", "masked"))]


def resolve(nodes, i):
    """the node a set_value on node i finally reaches (pValue chains)"""
    seen = 0
    while nodes[i]["t"] == "int" and seen < 10:
        i = nodes[i]["target"]
        seen += 1
    return i


def value_for(rng, n, L=None):
    """L: the register's current length as far as the generator can tell"""
    if n["t"] == "var" and n.get("dom") is not None:
        return [rng.choice(n["dom"])]
    if n["t"] != "reg":
        return [rng.choice([0, 1, 2, 3, rng.range(-2, 9)])]
    k = n["kind"]
    if k == "masked":
        w = n["hi"] - n["lo"] + 1
        mn, mx = (-(1 << (w - 1)), (1 << (w - 1)) - 1) if n["sign"] else (0, (1 << w) - 1)
        return [rng.choice([mn, mx, rng.range(mn, mx), rng.range(mn, mx), mx + 1 if rng.chance(1, 6) else 0 if mn <= 0 else mn])]
    if k == "int":
        return [rng.choice([0, 1, 5, -1, 255, 0x1234, rng.below(1 << 32), rng.range(-(1 << 63), (1 << 63) - 1)])]
    if k == "float":
        return [rng.choice([0, 0x3FF0000000000000, 0x4000000000000000, 0xC008000000000000, 0x7FF0000000000000,
                            0x3FB999999999999A, rng.below(1 << 64)])]
    if k == "string":
        ln = rng.range(0, min((n["len"] if L is None else L) + 1, 9))
        s = [rng.choice([65, 66, 97, 48, 32, 126]) for _ in range(ln)]
        if rng.chance(1, 25):
            s = s[:max(0, ln - 2)] + [0xC3, 0x88]         # a non-ASCII character (UTF-8)
        elif rng.chance(1, 25) and ln:
            s[rng.below(ln)] = 0                           # embedded NUL
        return s
    return [0]


def rand_ops(rng, nodes, nops, sel_values=(0, 1, 2, 3), hot=()):
    """hot: nodes that are picked half of the time (a register with a variable length and its length variable)"""
    regs = [i for i, n in enumerate(nodes) if n["t"] == "reg"]
    vals = [i for i, n in enumerate(nodes) if n["t"] != "cmd" and not (n["t"] == "reg" and n["kind"] == "raw")]
    cmds = [i for i, n in enumerate(nodes) if n["t"] == "cmd"]
    vrs = [i for i, n in enumerate(nodes) if n["t"] == "var"]
    cur = {i: n["init"] for i, n in enumerate(nodes) if n["t"] == "var"}      # the variables as the history goes

    def pick(pool):
        h = [i for i in hot if i in pool]
        return rng.choice(h) if h and rng.chance(1, 2) else rng.choice(pool)

    def curlen(i):
        n = nodes[i]
        return n["len"] if n.get("plen") is None else cur[n["plen"]]

    def set_var(i, dflt):
        n = nodes[i]
        v = rng.choice(n["dom"]) if n.get("dom") is not None else dflt()
        cur[i] = v
        if n.get("dom") is not None:
            changed.append(i)
        return [v]

    ops = []
    changed = []
    for _ in range(nops):
        if changed:
            # a length has just been written: most of the time read a register of that length next (read / change / read)
            lv = changed.pop()
            users = [i for i in regs if nodes[i].get("plen") == lv]
            if users and rng.chance(2, 3):
                i = rng.choice(users)
                ops.append(("v", i) if nodes[i]["kind"] != "raw" and rng.chance(3, 4) else ("rr", i, curlen(i)))
                continue
        x = rng.below(100)
        if x < 36 and vals:
            ops.append(("v", pick(vals)))
        elif x < 60 and vals:
            i = pick(vals)
            t = resolve(nodes, i)
            if nodes[t]["t"] == "var":
                if t == i:
                    ops.append(("s", i, set_var(t, lambda: rng.choice(list(sel_values) + ([7, -1] if rng.chance(1, 8) else [])))))
                else:
                    ops.append(("s", i, set_var(t, lambda: value_for(rng, nodes[t])[0])))
            elif nodes[t]["t"] == "reg":
                ops.append(("s", i, value_for(rng, nodes[t], curlen(t))))
            else:
                ops.append(("s", i, value_for(rng, nodes[t])))
        elif x < 68 and regs:
            i = pick(regs)
            ops.append(("rr", i, curlen(i) if not rng.chance(1, 10) else rng.range(0, 9)))
        elif x < 80 and regs:
            i = pick(regs)
            ln = curlen(i) if not rng.chance(1, 10) else rng.range(0, 9)
            ops.append(("rw", i, list(rng.bytes(ln)) if rng.chance(2, 3) else [rng.choice([0, 1, 65, 255])] * ln))
        elif x < 86 and cmds:
            i = rng.choice(cmds)
            ops.append(("ex", i))
            t = resolve(nodes, nodes[i]["target"])
            if nodes[t]["t"] == "var":
                cur[t] = nodes[i]["cv"]
        elif x < 90 and cmds:
            ops.append(("dn", rng.choice(cmds)))
        elif x < 93:
            ops.append(("cc",))
        elif x < 97:
            ops.append(("rej", rng.below(3)))
        elif vrs:
            i = pick(vrs)
            ops.append(("s", i, set_var(i, lambda: rng.choice(sel_values))))
        else:
            ops.append(("v", rng.choice(vals)) if vals else ("cc",))
    return ops


def add_wrappers(rng, nodes):
    il = int_like(nodes)
    for _ in range(rng.below(3)):
        if il:
            nodes.append(pint(rng.choice(il)))
            il = int_like(nodes)
    for _ in range(rng.below(3)):
        if il:
            t = rng.choice(il)
            tv = nodes[resolve(nodes, t)]
            # a command that ends in a length variable writes a length of that variable's domain
            cv = rng.choice(tv["dom"]) if tv["t"] == "var" and tv.get("dom") is not None else rng.choice([1, 0, 7, 255])
            nodes.append(cmd(t, cv))


def len_domain(rng, kind, L):
    """the values of a length variable: around what the typed node accepts, sometimes a length it refuses"""
    if kind in ("int", "masked"):
        d = {L, rng.choice([1, 2, 4, 8]), rng.choice([1, 2, 4, 8])}
        if rng.chance(1, 4):
            d.add(rng.choice([0, 3, 5, 16]))
    elif kind == "float":
        d = {4, 8} | ({rng.choice([0, 2, 16])} if rng.chance(1, 4) else set())
    else:
        d = {L, rng.range(0, 9), rng.range(1, LMAX)}
        if rng.chance(1, 3):
            d.add(rng.range(0, LMAX))
    return sorted(d)


def add_plength(rng, nodes, share=None):
    """turn some plain registers into registers whose length is a variable (<pLength>); the variables are appended"""
    for i in [i for i, n in enumerate(nodes) if n["t"] == "reg" and n["struct"] is None and n["plen"] is None]:
        if not rng.chance(1, 5):
            continue
        n = nodes[i]
        if share is not None and rng.chance(1, 3) and n["len"] in nodes[share]["dom"]:
            n["plen"] = share                              # two registers with one length variable
            continue
        nodes.append(var(n["len"], dom=len_domain(rng, n["kind"], n["len"])))
        n["plen"] = share = len(nodes) - 1
    return share


def sys_overlap(rng):
    nodes = []
    anchor = BASE + rng.below(IMG - 12)
    for _ in range(rng.range(2, 5)):
        nodes.append(rand_reg(rng, addr=anchor + rng.below(6) if rng.chance(3, 4) else None))
    add_plength(rng, nodes)
    add_wrappers(rng, nodes)
    return nodes


def sys_struct(rng):
    nodes = []
    L = rng.choice([1, 2, 4, 8])
    a = BASE + rng.below(IMG - 10)
    mode = rng.choice(MODES)
    en = rng.below(2)
    nb = 8 * L
    cuts = sorted({rng.below(nb + 1) for _ in range(rng.range(1, 3))} | {0, nb})
    sid = rng.below(2)
    for k in range(len(cuts) - 1):
        lo, hi = cuts[k], cuts[k + 1] - 1
        if hi - lo == 63:
            hi -= 1
        nodes.append(reg("masked", a, L, mode=mode, sign=rng.below(2), endian=en, lo=lo, hi=hi, struct=sid))
    for _ in range(rng.below(3)):
        nodes.append(rand_reg(rng, addr=a + rng.range(-2, L) if rng.chance(2, 3) else None, kinds=("int", "masked", "raw")))
    share = None
    if rng.chance(1, 6):
        # the structure's length is a variable: all entries share it
        nodes.append(var(L, dom=len_domain(rng, "masked", L)))
        share = len(nodes) - 1
        for m in nodes:
            if m["t"] == "reg" and m["struct"] is not None:
                m["plen"] = share
    add_plength(rng, nodes, share)
    add_wrappers(rng, nodes)
    return nodes


def sys_selector(rng):
    nodes = [var(rng.below(3))]
    L = rng.choice([1, 2, 4])
    off = rng.choice([L, L, 2 * L, max(1, L // 2), L + 1])
    b = BASE + rng.below(8)
    kind = rng.choice(["int", "masked", "raw", "int"])
    lo, hi = field(rng, L) if kind == "masked" else (0, 0)
    nodes.append(reg(kind, b, L, mode=rng.choice(MODES[:2] + ["WriteThrough"]), sign=rng.below(2), endian=rng.below(2),
                     lo=lo, hi=hi, index=[(0, off)]))
    if rng.chance(1, 3):
        nodes.append(var(0))
        nodes.append(reg("int", b + 16, L, mode=rng.choice(MODES), index=[(0, off), (len(nodes) - 1, rng.choice([1, 2, L]))]))
    for _ in range(rng.range(1, 3)):
        # static registers: aliasing bank slots, or off the bank's grid
        if rng.chance(2, 3):
            nodes.append(rand_reg(rng, addr=b + off * rng.below(4) + rng.choice([0, 0, 1]), kinds=("int", "masked", "raw", "string")))
        else:
            nodes.append(rand_reg(rng))
    add_plength(rng, nodes)
    add_wrappers(rng, nodes)
    return nodes


def sys_plength(rng):
    """a register whose length is a variable (all five kinds), optionally selector addressed (the selector may be
    the length variable itself), with registers on its bytes - static ones and ones sharing the length variable"""
    kind = rng.choice(["string", "raw", "int", "int", "masked", "float", "string"])
    L = rng.choice([1, 2, 4, 8]) if kind in ("int", "masked") else rng.choice([4, 8]) if kind == "float" else rng.range(1, 9)
    dom = len_domain(rng, kind, L)
    nodes = [var(rng.choice(dom), dom=dom)]
    b = BASE + rng.below(IMG - 12)
    if rng.chance(1, 8):
        b = BASE + IMG - rng.range(1, 8)             # the longer variants leave the image
    index = []
    if rng.chance(1, 3):
        nodes.append(var(rng.below(3)))
        index = [(1, rng.choice([1, 2, 4, L, 8]))]
    elif rng.chance(1, 8):
        index = [(0, rng.choice([1, 2, 4]))]
    lo, hi = field(rng, L) if kind == "masked" else (0, 0)
    nodes.append(reg(kind, b, L, mode=rng.choice(["WriteThrough", "WriteThrough", "WriteAround", "NoCache"]), sign=rng.below(2),
                     endian=rng.below(2), lo=lo, hi=hi, index=index, plen=0))
    for _ in range(rng.range(0, 2)):
        if rng.chance(1, 3):
            k2 = rng.choice(["raw", "string"] + ([kind] if kind != "masked" else []))
            nodes.append(reg(k2, b + rng.below(4), L, mode=rng.choice(MODES), sign=rng.below(2), endian=rng.below(2), plen=0))
        else:
            nodes.append(rand_reg(rng, addr=b + rng.below(max(dom) + 1) - rng.below(3)))
    add_plength(rng, nodes, 0)
    add_wrappers(rng, nodes)
    return nodes


def plength_boundary():
    """registers whose length is a variable: read / shrink / read (a block cached under the old length must not be
    served), grow after a write while short (the register is its own pInvalidator), lengths the typed node refuses,
    one address under several lengths, a self-overlapping bank (read slot 1, write slot 0, read slot 1), selector and length together, the length written through a pValue wrapper and
    by a command, the long variant outside the image - under all three caching modes"""
    img = bytes(range(0x41, 0x41 + IMG))
    cs = []

    def case(nodes, ops):
        declare(nodes)
        cs.append(make_case(nodes, img, ops, fam="boundary"))

    for mode in MODES:
        for kind in ("string", "int", "float", "masked", "raw"):
            rd = ("rr", 1, 8) if kind == "raw" else ("v", 1)
            rd4 = ("rr", 1, 4) if kind == "raw" else ("v", 1)
            wr = {"string": ("s", 1, [97, 98]), "int": ("s", 1, [0x01020304]), "float": ("s", 1, [0x3FF8000000000000]),
                  "masked": ("s", 1, [5]), "raw": ("rw", 1, [9, 8, 7, 6])}[kind]
            for endian in (0, 1):
                mk = lambda: [var(8, dom=[4, 8]), reg(kind, BASE + 8, 8, mode=mode, endian=endian, lo=1, hi=4, plen=0)]
                case(mk(), [rd, ("s", 0, [4]), rd4, ("rr", 1, 4), ("s", 0, [8]), rd, ("rr", 1, 8), ("rr", 1, 4)])
                case(mk(), [rd, ("s", 0, [4]), wr, rd4, ("s", 0, [8]), rd, ("s", 0, [4]), rd4, ("cc",), ("s", 0, [8]), rd])
                case(mk(), [rd, ("s", 0, [4]), ("rw", 1, [1, 2, 3, 4]), ("s", 0, [8]), rd, ("rw", 1, [1, 2, 3, 4]),
                            ("rw", 1, [8, 7, 6, 5, 4, 3, 2, 1]), ("s", 0, [4]), rd4])
        # lengths the typed node refuses, length 0
        nodes = [var(4, dom=[0, 3, 4, 5]), reg("int", BASE, 4, mode=mode, plen=0)]
        case(nodes, [("v", 1), ("s", 0, [3]), ("v", 1), ("s", 1, [7]), ("rr", 1, 3), ("s", 0, [0]), ("v", 1), ("rr", 1, 0),
                     ("rw", 1, []), ("s", 0, [4]), ("v", 1), ("s", 0, [5]), ("v", 1), ("s", 0, [4]), ("v", 1)])
        nodes = [var(4, dom=[2, 4, 16]), reg("float", BASE, 4, mode=mode, plen=0)]
        case(nodes, [("v", 1), ("s", 0, [2]), ("v", 1), ("s", 1, [0x4000000000000000]), ("s", 0, [16]), ("v", 1), ("s", 0, [4]), ("v", 1)])
        # one address under several lengths: static registers and a variable-length one
        for mode2 in MODES:
            nodes = [var(2, dom=[2, 4, 8]), reg("string", BASE, 2, mode=mode, plen=0), reg("int", BASE, 4, mode=mode2),
                     reg("int", BASE, 8, mode=mode), reg("raw", BASE, 2, mode=mode2)]
            case(nodes, [("v", 1), ("v", 2), ("v", 3), ("s", 0, [8]), ("v", 1), ("s", 2, [0x61626364]), ("v", 1), ("v", 3),
                         ("s", 0, [4]), ("v", 1), ("s", 1, [65]), ("v", 2), ("v", 3), ("rr", 4, 2), ("s", 0, [2]), ("v", 1),
                         ("rw", 4, [66, 67]), ("v", 1), ("s", 0, [8]), ("v", 1), ("v", 2)])
        # a self-overlapping selector bank (slots closer than the length), no pInvalidator owed
        for kind, wr in (("int", ("s", 1, [0x01020304])), ("raw", ("rw", 1, [4, 3, 2, 1])), ("string", ("s", 1, [97, 98, 99]))):
            rd = ("rr", 1, 4) if kind == "raw" else ("v", 1)
            nodes = [var(0), reg(kind, BASE, 4, mode=mode, index=[(0, 2)])]
            case(nodes, [("s", 0, [1]), rd, ("s", 0, [0]), wr, ("s", 0, [1]), rd, ("s", 0, [2]), rd, ("s", 0, [1]), wr, ("s", 0, [2]), rd,
                         ("s", 0, [0]), rd])
        # selector and length together; the length variable as the selector
        nodes = [var(4, dom=[2, 4]), var(0), reg("int", BASE, 4, mode=mode, index=[(1, 4)], plen=0), reg("int", BASE + 4, 2, mode="WriteThrough")]
        case(nodes, [("v", 2), ("s", 1, [1]), ("v", 2), ("s", 0, [2]), ("v", 2), ("s", 1, [0]), ("v", 2), ("s", 2, [0x1234]), ("s", 0, [4]),
                     ("v", 2), ("s", 1, [1]), ("v", 2), ("s", 3, [0x7777]), ("v", 2), ("s", 0, [2]), ("v", 2), ("v", 3)])
        nodes = [var(2, dom=[1, 2, 4]), reg("int", BASE, 2, mode=mode, index=[(0, 2)], plen=0)]
        case(nodes, [("v", 1), ("s", 0, [4]), ("v", 1), ("s", 1, [0x01020304]), ("s", 0, [2]), ("v", 1), ("s", 0, [1]), ("v", 1),
                     ("s", 1, [9]), ("s", 0, [4]), ("v", 1), ("s", 0, [2]), ("v", 1)])
        # the length written through a pValue wrapper and by a command
        nodes = [var(8, dom=[4, 8]), reg("string", BASE, 8, mode=mode, plen=0), pint(0), cmd(2, 4)]
        case(nodes, [("v", 1), ("ex", 3), ("v", 1), ("dn", 3), ("s", 2, [8]), ("v", 1), ("dn", 3), ("s", 1, [120, 121]), ("ex", 3), ("v", 1),
                     ("s", 2, [8]), ("v", 1)])
        # the long variant lies outside the image
        nodes = [var(4, dom=[4, 8]), reg("int", BASE + IMG - 4, 4, mode=mode, plen=0)]
        case(nodes, [("v", 1), ("s", 0, [8]), ("v", 1), ("s", 1, [1]), ("s", 0, [4]), ("v", 1), ("s", 1, [2]), ("s", 0, [8]), ("v", 1),
                     ("s", 0, [4]), ("v", 1)])
        # a structure whose length is a variable
        nodes = [var(2, dom=[2, 4]), reg("masked", BASE, 2, mode=mode, lo=0, hi=3, struct=0, plen=0),
                 reg("masked", BASE, 2, mode=mode, lo=4, hi=15, struct=0, plen=0)]
        case(nodes, [("v", 1), ("v", 2), ("s", 0, [4]), ("v", 1), ("v", 2), ("s", 1, [3]), ("v", 2), ("s", 0, [2]), ("v", 2), ("v", 1),
                     ("s", 2, [0x123]), ("s", 0, [4]), ("v", 1), ("v", 2)])
    return cs


def boundary_cases():
    """fixed histories: the defects found while building this check, and their neighbours"""
    img = bytes([0xFF] * 8 + list(range(1, IMG - 7)))
    cs = []
    for mode in MODES:
        # (a) read, write, read on every mode
        nodes = [reg("int", BASE, 4, mode=mode)]
        declare(nodes)
        cs.append(make_case(nodes, img, [("v", 0), ("s", 0, [5]), ("v", 0), ("rw", 0, [9, 0, 0, 0]), ("v", 0)], fam="boundary"))
        # (b) raw write of A, dependent B cached
        for mode2 in MODES:
            nodes = [reg("int", BASE, 4, mode=mode), reg("int", BASE + 2, 4, mode=mode2), pint(0), cmd(2, 7)]
            declare(nodes)
            h = [("v", 1), ("v", 0), ("rw", 0, [1, 2, 3, 4]), ("v", 1), ("s", 2, [6]), ("v", 1), ("ex", 3), ("v", 1),
                 ("dn", 3), ("rej", 0), ("s", 0, [8]), ("v", 0), ("v", 1), ("cc",), ("v", 1)]
            cs.append(make_case(nodes, img, h, fam="boundary"))
        # (c) struct entries invalidate each other
        nodes = [reg("masked", BASE, 2, mode=mode, lo=0, hi=3, struct=0), reg("masked", BASE, 2, mode=mode, lo=4, hi=15, struct=0),
                 reg("int", BASE + 1, 1, mode=mode)]
        declare(nodes)
        h = [("v", 0), ("v", 1), ("v", 2), ("s", 0, [3]), ("v", 1), ("v", 2), ("s", 2, [0x5A]), ("v", 1), ("v", 0),
             ("s", 1, [0x123]), ("v", 0), ("v", 2)]
        cs.append(make_case(nodes, img, h, fam="boundary"))
        nodes = [reg("masked", BASE, 2, mode=mode, lo=0, hi=3, struct=1), reg("masked", BASE, 2, mode=mode, lo=4, hi=15, struct=1)]
        declare(nodes)
        cs.append(make_case(nodes, img, h[:2] + [("s", 0, [3]), ("v", 1), ("s", 1, [0x123]), ("v", 0)], fam="boundary"))
        # (d) declared access modes (RO / WO) restrict what is_readable / is_writable report (C18), not what value /
        #     set_value do, and never what is registered as a pInvalidator: a write-only bit field is a
        #     read-modify-write of its own cached word, so it must still be told that a sibling rewrote the register
        for am in ("WO", "RO", "RW"):
            for am2 in ("RW", "WO"):
                nodes = [reg("masked", BASE, 4, mode=mode, lo=0, hi=1), reg("masked", BASE, 4, mode=mode, lo=8, hi=15),
                         reg("int", BASE + 2, 2, mode=mode)]
                nodes[0]["am"], nodes[1]["am"], nodes[2]["am"] = am, am2, am
                declare(nodes)
                h = [("s", 0, [3]), ("s", 1, [0x11]), ("s", 0, [3]), ("v", 1), ("s", 1, [0x22]), ("s", 0, [1]), ("v", 1), ("v", 0),
                     ("s", 2, [0x4321]), ("s", 0, [2]), ("v", 2), ("v", 1)]
                cs.append(make_case(nodes, img, h, fam="boundary"))
            nodes = [reg("masked", BASE, 2, mode=mode, lo=0, hi=3, struct=0), reg("masked", BASE, 2, mode=mode, lo=4, hi=15, struct=0)]
            nodes[0]["am"] = nodes[1]["am"] = am
            declare(nodes)
            cs.append(make_case(nodes, img, [("s", 0, [3]), ("s", 1, [0x123]), ("s", 0, [5]), ("v", 1), ("v", 0)], fam="boundary"))
        # selector: bank with self-overlap, an aliasing static register
        nodes = [var(0), reg("int", BASE, 4, mode=mode, index=[(0, 2)]), reg("int", BASE + 4, 2, mode="WriteThrough")]
        declare(nodes)
        h = [("v", 1), ("s", 0, [1]), ("v", 1), ("s", 1, [0x01020304]), ("s", 0, [0]), ("v", 1), ("v", 2), ("s", 0, [2]),
             ("v", 1), ("s", 2, [0x7777]), ("v", 1), ("s", 0, [1]), ("v", 1), ("s", 0, [30]), ("v", 1), ("s", 1, [1])]
        cs.append(make_case(nodes, img, h, fam="boundary"))
    return cs


def gen_cases(ck):
    rng = Rng(ck.seed)
    quick = ck.tier == "quick"
    cases = plength_boundary() + boundary_cases()
    n = 3600 if quick else 30000
    fams = [("overlap", sys_overlap), ("struct", sys_struct), ("selector", sys_selector), ("plength", sys_plength)]
    for k in range(n):
        fam, mk = fams[k % 4]
        nodes = mk(rng)
        if rng.chance(1, 3):
            # declared access modes: per register, shared by the entries of one structure
            per_struct = {}
            # (ICommand::is_done answers true without an access when its pValue node is not readable - C03's
            #  subject, not modelled here: the pValue chains of commands, and their structures, keep RW)
            cmd_targets = {m["target"] for m in nodes if m["t"] == "cmd"}
            for _ in nodes:     # ... or write-only behind a pValue chain: the whole chain keeps RW
                cmd_targets |= {nodes[t]["target"] for t in cmd_targets if nodes[t]["t"] == "int"}
            keep = {nodes[t]["struct"] for t in cmd_targets if nodes[t]["t"] == "reg" and nodes[t]["struct"] is not None}
            for ix, nd in enumerate(nodes):
                if ix in cmd_targets or (nd["t"] == "reg" and nd["struct"] in keep):
                    continue
                if nd["t"] == "reg" and rng.chance(1, 2):
                    am = rng.choice(["RO", "WO", "WO"])
                    if nd["struct"] is not None:
                        am = per_struct.setdefault(nd["struct"], am)
                    nd["am"] = am
            for nd in nodes:
                if nd["t"] == "reg" and nd["struct"] in per_struct:
                    nd["am"] = per_struct[nd["struct"]]
        declare(nodes, rng, extra=rng.chance(1, 3))
        image = rng.bytes(IMG) if rng.chance(3, 4) else bytes([rng.choice([0, 255, 65])] * IMG)
        hot = [i for i, nd in enumerate(nodes) if nd["t"] == "reg" and nd["plen"] is not None]
        hot += sorted({nodes[i]["plen"] for i in hot})
        ops = rand_ops(rng, nodes, rng.range(3, 30), hot=hot)
        cases.append(make_case(nodes, image, ops, fam=fam))
    return cases


# ------------------------------------------------------------------------------- shrinking ---

def shrink(ck, binary, c, pred):
    """remove operations, then nodes (a removed node becomes a trivial variable so that ids stay), while the
    predicate still fails on the real code"""
    m = c.meta
    nodes, image, ops, base = [dict(n) for n in m["nodes"]], m["image"], list(m["ops"]), m["base"]

    def fails(nodes, ops):
        cc = make_case(nodes, image, ops, base, fam=m["fam"])
        o = ck.run_impl(binary, [cc.line])[0]
        return pred(cc, o) is not None

    budget = 400
    changed = True
    while changed and budget > 0:
        changed = False
        i = len(ops) - 1
        while i >= 0 and budget > 0:
            t = ops[:i] + ops[i + 1:]
            budget -= 1
            if fails(nodes, t):
                ops = t
                changed = True
            i -= 1
    for i in range(len(nodes)):
        if nodes[i]["t"] == "var" or budget <= 0:
            continue
        if any(o[0] not in ("cc", "rej") and o[1] == i for o in ops):
            continue
        if any(n["t"] in ("int", "cmd") and n["target"] == i for n in nodes):
            continue
        t = [dict(n) for n in nodes]
        t[i] = var(0)
        for n in t:
            if n["t"] == "reg":
                n["inval"] = set(n["inval"]) - {i}
                if n["struct"] is not None and nodes[i]["t"] == "reg" and nodes[i]["struct"] == n["struct"]:
                    pass
        budget -= 1
        if fails(t, ops):
            nodes = t
    return make_case(nodes, image, ops, base, fam=m["fam"])


# ------------------------------------------------------------------------------------ main ---

RULE = ("register systems of four families - overlapping IntReg/MaskedIntReg/FloatReg/StringReg/Register nodes, StructReg "
        "entries with sibling registers, selector-addressed register banks (pIndex/Offset, also self-overlapping and with "
        "aliasing static registers), registers whose length is a variable (<pLength> -> Integer with <Value>; all five kinds, "
        "alone, selector addressed, sharing one length variable, the length variable being the selector, struct-level; such "
        "registers are also mixed into the other three families) - each with Integer->pValue wrappers and Command nodes "
        "(also ending in a length variable), all three Cachable modes, pInvalidator lists computed by the property's rule over "
        "all selector values and all producible lengths (every register whose bytes ANOTHER register can alter declares it; "
        "nothing for a register's own keys; sometimes extra invalidators incl. the register itself and the Port), registers straddling the end "
        "of the device image; histories of 3..30 operations: value / set_value, IRegister::read / write, execute / is_done, "
        "selector changes, length changes (shrink, grow, lengths the typed node refuses, 0; always within 0..16), clear_cache, "
        "scripted write rejections; fixed boundary histories first (read / shrink / read, read 8 / shrink / write / grow / read, "
        "self-overlapping bank: read slot 1, write slot 0, read slot 1, one address under several lengths, all modes and kinds).  Every history runs twice on the real code (DefaultCacheStore vs "
        "CacheSink); predicate: equal results, equal final image, equal writes, cached access log a subsequence of the "
        "uncached one, all-NoCache systems have identical logs; both runs are also compared with model/Cache.v (vm_compute).  "
        "non-trivial = caching saved at least one access and the history wrote to the device")


def evaluate(ck, binary, cases):
    impl = ck.run_impl(binary, [c.line for c in cases])
    ck.phase("impl")
    model = []
    for i in range(0, len(cases), 6400):          # bounded coqc memory: 16 shards x 400 terms at a time
        model += ck.run_model_terms(["Cache"], [c.term for c in cases[i:i + 6400]], per_eval=100)
    ck.phase("model")
    # shrink the first failing histories so that the replay is minimal
    bad = [i for i, (c, o) in enumerate(zip(cases, impl)) if predicate(c, o) is not None][:3]
    for i in bad:
        small = shrink(ck, binary, cases[i], predicate)
        cases[i] = small
        impl[i] = ck.run_impl(binary, [small.line])[0]
        model[i] = ck.run_model_terms(["Cache"], [small.term])[0]
        small.meta["fam"] = "minimised"
    for c, o in zip(cases, impl):
        RAW[c.line] = o
    impl_c = [canon_impl(o, c.line) for c, o in zip(cases, impl)]
    model_c = [canon_model(o, c.line) for c, o in zip(cases, model)]
    return impl_c, model_c


def main():
    ck = Check("C04")
    ck.rule = RULE
    ck.trusted += ["model/Cache.v (hand-written, validated by this correspondence)", "rust/h_cache (recording device, two builds of the context)",
                   "tools/c04.py: generator, the Declared rule (may_overlap), XML renderer, predicate"]
    ck.prove()
    ck.phase("prove")
    binary, log = ck.cargo_build("h_cache")
    ck.phase("cargo")
    if binary is None:
        path = ck.write_replay({"kind": "build", "property": "C04", "unchecked": "correspondence via rust/h_cache", "log": log[-6000:]})
        ck.violations.append((path, True, "harness rust/h_cache does not build against /repo: correspondence cannot be established"))
        ck.finish()
    if ck.replay:
        r = json.load(open(ck.replay))
        if r.get("kind") != "case":
            print(json.dumps(r, indent=1)[:4000])
            raise SystemExit(0)
        term = r.get("mtoks")
        if not term or not term.startswith("run_both"):
            # a case of the model-free families (feature kinds as invalidators): the two runs of the real code only
            c = Case("c04", r["case"].split(), dict(fam="feature invalidators"), term=None, rline=r["case"])
            impl = ck.run_impl(binary, [c.line])
            ops, _, _ = info_of_line(c.line)
            print("history  :", " ".join(":".join(o) for o in ops))
            print("xml      :", bytes.fromhex(c.line.split()[1][1:]).decode()[:3000])
            print("impl     :", _clip(impl[0], 400))
            print("predicate:", predicate(c, impl[0]) or "holds")
            RAW[c.line] = impl[0]
            ck.compare([c], impl, None, full_predicate, nontrivial, family="feature invalidators")
            ck.finish()
        c = Case("c04", term.split(), None, term=term, rline=r["case"])
        impl = ck.run_impl(binary, [c.line])
        model = ck.run_model_terms(["Cache"], [term])
        ops, _, _ = info_of_line(c.line)
        print("history  :", " ".join(":".join(o) for o in ops))
        print("xml      :", bytes.fromhex(c.line.split()[1][1:]).decode().split("</RegisterDescription>")[0].split(">", 1)[1][:3000])
        print("impl     :", _clip(canon_impl(impl[0], c.line), 400))
        print("model    :", _clip(model[0], 400))
        print("predicate:", predicate(c, impl[0]) or "holds")
        RAW[c.line] = impl[0]
        ck.compare([c], [canon_impl(impl[0], c.line)], [canon_model(model[0], c.line)], full_predicate, nontrivial)
        ck.finish()
    cases = gen_cases(ck)
    ck.phase("generate")
    impl, model = evaluate(ck, binary, cases)
    for fam in ("minimised", "boundary", "overlap", "struct", "selector", "plength"):
        idx = [i for i, c in enumerate(cases) if c.meta["fam"] == fam]
        ck.compare([cases[i] for i in idx], [impl[i] for i in idx], [model[i] for i in idx], full_predicate, nontrivial,
                   correspondence="model/Cache.v run_both vs the two runs of the real code", family=fam,
                   max_report=3 if fam == "minimised" else 1)
    fcases = feature_cases(Rng(ck.seed))
    fimpl = ck.run_impl(binary, [c.line for c in fcases])
    for c, o in zip(fcases, fimpl):
        RAW[c.line] = o
    ck.compare(fcases, fimpl, None, full_predicate, nontrivial, family="feature invalidators", max_report=3)
    ck.dist["feature_kinds_as_invalidators"] = len(fcases)
    nops = sum(len(c.meta["ops"]) for c in cases)
    ck.dist["operations"] = nops
    kinds, modes, topo = {}, {}, {"indexed_register": 0, "struct_entry": 0, "pvalue_wrapper": 0, "command": 0,
                                  "register_outside_image": 0, "self_invalidator": 0, "port_invalidator": 0, "plength_register": 0,
                                  "length_variable_also_selector": 0}
    for c in cases:
        for o in c.meta["ops"]:
            kinds[o[0]] = kinds.get(o[0], 0) + 1
        ns = c.meta["nodes"]
        for i, n in enumerate(ns):
            if n["t"] == "reg":
                modes[n["mode"]] = modes.get(n["mode"], 0) + 1
                topo["indexed_register"] += bool(n["index"])
                topo["struct_entry"] += n["struct"] is not None
                topo["register_outside_image"] += n["addr"] + max(lens(n, ns)) > c.meta["base"] + len(c.meta["image"])
                topo["plength_register"] += n["plen"] is not None
                topo["length_variable_also_selector"] += n["plen"] is not None and any(
                    v == n["plen"] for m in ns if m["t"] == "reg" for v, _ in m["index"])
                topo["self_invalidator"] += i in n["inval"]
                topo["port_invalidator"] += len(ns) in n["inval"]
            topo["pvalue_wrapper"] += n["t"] == "int"
            topo["command"] += n["t"] == "cmd"
    ck.dist["op_kinds"] = kinds
    ck.dist["register_modes"] = modes
    ck.dist["topology"] = topo
    ck.dist["histories_changing_a_length"] = sum(
        any(o[0] == "s" and o[1] < len(ns) and ns[resolve(ns, o[1])].get("dom") is not None for o in c.meta["ops"])
        for c in cases for ns in [c.meta["nodes"]])
    ck.dist["histories_with_rejection"] = sum(any(o[0] == "rej" for o in c.meta["ops"]) for c in cases)
    ck.finish()
