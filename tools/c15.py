"""C15 — enabling streaming programs transfer sizes that cover the device's requirements."""
import json
import sys

from ctlcase import OPEN, ENABLE, DISABLE, DUMP, PARAMS, ctl_case, model_term, parse_output, std_world, SIRM
from vplib import Check, Rng, Case, _clip, run_check

SI_INFO, SI_CONTROL, REQ_PAYLOAD, REQ_LEADER, REQ_TRAILER = 0x00, 0x04, 0x08, 0x10, 0x14
MAX_LEADER, XFER_SIZE, XFER_COUNT, FINAL1, FINAL2, MAX_TRAILER = 0x18, 0x1C, 0x20, 0x24, 0x28, 0x2C
NTX_OPEN = 6            # transactions of ControlHandle::open (bootstrap reads)
U32 = 1 << 32

# injected device failures (plan of one transaction): what the harness token list is, and whether the
# device has already executed the command when the host sees the failure
FAILS = {
    "send_io": ([5, 1, 0], False),            # bulk-out transfer fails with LIBUSB_ERROR_IO
    "send_nodev": ([5, 4, 0], False),         # ... NO_DEVICE
    "recv_timeout": ([5, -1, 1, 3, 6], True),   # command delivered, no acknowledge (timeout)
    "recv_pipe": ([5, -1, 1, 3, 8], True),      # command delivered, bulk-in fails
    "status_denied": ([5, -1, 1, 1, 1, 1, 4, 0x8006], True),   # acknowledge with GENCP_ACCESS_DENIED
    "status_busy": ([5, -1, 1, 1, 1, 1, 4, 0x8007], True),     # acknowledge with GENCP_BUSY
    "ack_short": ([5, -1, 1, 1, 1, 2, 10], True),              # acknowledge truncated to 10 bytes
    "wrong_id": ([5, -1, 1, 1, 1, 1, 10, 0x7777], True),       # acknowledge of another request
    "no_reply": ([5, -1, 0], True),                              # nothing ever arrives
}


def build(k, en, rl, rp, rt, fail=None, ops=None, max_cmd=1024, max_ack=1024, info_low=0, ctrl_hi=0, junk=0,
          sirm=SIRM):
    """fail = (transaction index counted from the first transaction after open, kind)"""
    w = std_world(max_cmd, max_ack, sirm=sirm, abrm_len=0x1E0)
    w.poke(sirm + SI_INFO, 4, ((k & 0xFF) << 24) | (info_low & 0xFFFFFF))
    w.poke(sirm + SI_CONTROL, 4, (en & 1) | (ctrl_hi & 0xFFFFFFFE))
    w.poke(sirm + REQ_PAYLOAD, 8, rp)
    w.poke(sirm + REQ_LEADER, 4, rl)
    w.poke(sirm + REQ_TRAILER, 4, rt)
    if junk:
        for off in (MAX_LEADER, XFER_SIZE, XFER_COUNT, FINAL1, FINAL2, MAX_TRAILER):
            w.poke(sirm + off, 4, (junk * 2654435761 + off * 40503) & 0xFFFFFFFF)
    wt = list(w.toks)
    if fail is not None:
        t, kind = fail
        wt += [6, NTX_OPEN + t] + FAILS[kind][0]
    ops = ops or ["E"]
    optoks = [OPEN]
    for o in ops:
        optoks += {"E": [ENABLE], "D": [DISABLE]}[o]
    optoks += [DUMP, sirm, 0x30, PARAMS]
    meta = dict(k=k, en=en & 1, rl=rl, rp=rp, rt=rt, fail=list(fail) if fail else None, ops=ops, sirm=sirm,
                max_cmd=max_cmd)
    return ctl_case(wt, optoks, meta)


def u32at(d, off):
    return int.from_bytes(bytes(d[off:off + 4]), "little")


def enable_transactions(en, cached):
    """kinds of the transactions of one enable_streaming call, from the property text / SIRM layout:
    SIRM handle (3 reads unless cached), SI_CONTROL read, optional disable, SI_INFO, three required sizes,
    six size registers, enable."""
    tx = [] if cached else ["r", "r", "r"]
    tx += ["r"] + (["disable"] if en else []) + ["r", "r", "r", "r"] + ["size"] * 6 + ["enable"]
    return tx


def coverable32(req, al):
    """is there a multiple of al in [req, 2^32)?"""
    top = (U32 - 1) // al * al
    return req <= top


def predicate(c, out):
    m = c.meta
    po = parse_output(out)
    if po is None:
        return "harness output unreadable / harness died: %r" % (_clip(out),)
    res, events, writes = po
    if any(r[0] == "panic" for r in res):
        return "operation %d panicked" % [r[0] for r in res].index("panic")
    ops = m["ops"]
    if len(res) != 1 + len(ops) + 2:
        return "expected %d results, got %d" % (3 + len(ops), len(res))
    if res[0][0] != "ok":
        return "open failed against a conforming device"
    sirm = m["sirm"]
    k, rl, rp, rt = m["k"], m["rl"], m["rp"], m["rt"]
    size_regs = set(sirm + o for o in (MAX_LEADER, XFER_SIZE, XFER_COUNT, FINAL1, FINAL2, MAX_TRAILER))
    # --- the device write log: the property's ordering rules ------------------------------------------
    bit = m["en"]
    for (a, n, d) in writes:
        if not (sirm <= a and a + n <= sirm + 0x30):
            return "device write [%#x,+%d) outside the streaming interface registers" % (a, n)
        if n != 4 or a % 4:
            return "device write [%#x,+%d) is not one 32-bit register" % (a, n)
        if a in size_regs:
            if bit:
                return "SIRM size register %#x written while the stream-enable bit is set" % (a - sirm)
        elif a == sirm + SI_CONTROL:
            bit = d[0] & 1
        else:
            return "write to read-only SIRM register %#x" % (a - sirm)
    dump = res[1 + len(ops)]
    if dump[0] != "ok" or dump[1][0] != 0x30:
        return "dump failed"
    img = dump[1][1:]
    regs = {o: u32at(img, o) for o in (SI_CONTROL, MAX_LEADER, XFER_SIZE, XFER_COUNT, FINAL1, FINAL2, MAX_TRAILER)}
    params = res[2 + len(ops)]
    fail = m["fail"]
    # --- which outcome each operation must have ----------------------------------------------------------
    # walk the operations with the transaction kinds they perform; the failing transaction (if any) decides
    t = 0
    en_now = m["en"]
    cached = False
    expect_bit = m["en"]
    dev_writes = 0             # register writes that must have reached the device
    failed_at = None
    for i, o in enumerate(ops):
        r = res[1 + i]
        if o == "D":
            tx = ([] if cached else ["r", "r", "r"]) + ["disable"]
        else:
            tx = enable_transactions(en_now, cached)
        refused = None
        if o == "E":
            if k >= 32:
                refused = "alignment"
            else:
                al = 1 << k
                pts = max(65536, al)
                if (rl and not coverable32(rl, al)) or (rt and not coverable32(rt, al)):
                    refused = "size"       # no aligned 32-bit register value can cover the requirement
                elif rp // pts >= U32:
                    refused = "count"      # more than 2^32-1 transfers of the fixed transfer size
        hit = None
        if fail is not None and failed_at is None and t <= fail[0] < t + len(tx):
            hit = fail[0] - t
        if refused:
            # refusal happens after the reads (SI_INFO for the alignment, the required sizes otherwise)
            reads_before = tx.index("size") if refused != "alignment" else tx.index("size") - 3
            if hit is not None and hit < reads_before:
                refused = None
            else:
                hit = None
                tx = tx[:reads_before]
        if hit is not None:
            failed_at = (i, tx[hit])
            if r[0] != "err":
                return "operation %d: device failure at its transaction %d (%s) but the result is %r" % (i, hit, tx[hit], r[0])
            executed = tx[:hit] + ([tx[hit]] if FAILS[fail[1]][1] else [])
            for kind in executed:
                if kind in ("disable", "size", "enable"):
                    dev_writes += 1
                if kind == "disable":
                    expect_bit = 0
                if kind == "enable":
                    expect_bit = 1
            if "enable" in executed[:-1] or ("enable" in executed and tx[hit] != "enable"):
                return "enable bit written although an earlier step failed"
            t += hit + 1
            en_now = expect_bit
            cached = cached or hit >= 3
            continue
        if refused:
            if r[0] != "err":
                return "operation %d: requirement cannot be programmed (%s) but the result is %r" % (i, refused, r[0])
            if "disable" in tx:
                dev_writes += 1
                expect_bit = 0
            en_now = expect_bit
            t += len(tx)
            cached = True
            continue
        if r[0] != "ok":
            return "operation %d (%s) failed with error class %r against a conforming device" % (i, o, r[1:])
        for kind in tx:
            if kind in ("disable", "size", "enable"):
                dev_writes += 1
        expect_bit = 1 if o == "E" else 0
        en_now = expect_bit
        t += len(tx)
        cached = True
        if o == "E":
            last_enable_ok = i
    if len(writes) != dev_writes:
        return "%d register writes reached the device, %d expected (later steps performed / steps skipped)" % (
            len(writes), dev_writes)
    if (regs[SI_CONTROL] & 1) != expect_bit:
        return "stream-enable bit is %d after the operations, expected %d" % (regs[SI_CONTROL] & 1, expect_bit)
    # --- a successful enable as the last operation: covering, alignment, enable written last, read-back --
    if ops[-1] == "E" and res[len(ops)][0] == "ok":
        al = 1 << k
        if regs[MAX_LEADER] < rl:
            return "maximum leader size %d < required leader size %d" % (regs[MAX_LEADER], rl)
        if regs[MAX_TRAILER] < rt:
            return "maximum trailer size %d < required trailer size %d" % (regs[MAX_TRAILER], rt)
        cover = regs[XFER_SIZE] * regs[XFER_COUNT] + regs[FINAL1] + regs[FINAL2]
        if cover < rp:
            return "transfer size x count + final transfers = %d < required payload size %d" % (cover, rp)
        for o in (MAX_LEADER, MAX_TRAILER, XFER_SIZE, FINAL1, FINAL2):
            if regs[o] % al:
                return "programmed size %#x at SIRM+%#x is not a multiple of the alignment 2^%d" % (regs[o], o, k)
        if not writes or writes[-1][0] != sirm + SI_CONTROL or not (writes[-1][2][0] & 1):
            return "the write that sets the stream-enable bit is not the last device write"
        if m["en"] and len(ops) == 1:
            a0, _, d0 = writes[0]
            if a0 != sirm + SI_CONTROL or (d0[0] & 1):
                return "stream was enabled but the first device write does not clear SI_CONTROL"
        progged = [v for (a, n, d) in writes for v in [int.from_bytes(bytes(d), "little")]]
        for o in (MAX_LEADER, XFER_SIZE, XFER_COUNT, FINAL1, FINAL2, MAX_TRAILER):
            lastw = [int.from_bytes(bytes(d), "little") for (a, n, d) in writes if a == sirm + o]
            if not lastw or lastw[-1] != regs[o]:
                return "register SIRM+%#x holds %d, not the value programmed by enable_streaming" % (o, regs[o])
    # --- stream parameters read back ---------------------------------------------------------------------
    after_all = fail is None or failed_at is not None     # failure plan consumed before from_control?
    if params[0] == "ok":
        want = [regs[MAX_LEADER], regs[MAX_TRAILER], regs[XFER_SIZE], regs[XFER_COUNT], regs[FINAL1], regs[FINAL2]]
        if list(params[1]) != want:
            return "StreamParams::from_control returned %r, device registers hold %r" % (list(params[1]), want)
    elif after_all:
        return "StreamParams::from_control failed with %r against a conforming device" % (params[1:],)
    return None


def nontrivial(c, out):
    return c.meta["rp"] > 0 or c.meta["fail"] is not None


def sizes32(rng, k):
    al = 1 << k
    m = rng.range(1, 65535)
    return sorted({0, 1, al - 1, al, al + 1, 52, 64, 65535, 65536, 65537, 65536 * m - 1, 65536 * m, 65536 * m + 1,
                   U32 - al - 1, U32 - al, (U32 - al + 1) & (U32 - 1), U32 - 1, U32 - 65536, U32 - 65537} - {-1})


def payloads(rng, k):
    al = 1 << k
    m = rng.range(1, 1 << 24)
    return sorted({0, 1, al - 1, al, al + 1, 65535, 65536, 65537, 65536 * m - 1, 65536 * m, 65536 * m + 1,
                   65536 * m + 65536 - al, 65536 * m + 65536 - al + 1,
                   U32 - 1, U32, U32 + 1, (1 << 40) - 1, 1 << 40, (1 << 40) + 1, (1 << 48) - 65536, (1 << 48) - 1,
                   1 << 48, (1 << 48) + 1, 1 << 63, (1 << 64) - 1} - {-1})


def gen_cases(ck):
    rng = Rng(ck.seed)
    quick = ck.tier == "quick"
    cases = []
    # the confirmed defect inputs first
    cases.append(build(0, 0, 52, 1000, 64))                      # trailer > leader
    cases.append(build(16, 0, U32 - 1, 1000, 64))                # align overflow (leader)
    cases.append(build(16, 1, 52, 1000, U32 - 65535))            # align overflow (trailer)
    cases.append(build(4, 1, 52, 1 << 48, 64))                   # count truncation
    # boundary set: every k, sizes around the alignment / 64 KiB / the 32-bit top
    for k in range(0, 17):
        s32 = sizes32(rng, k)
        pl = payloads(rng, k)
        n = max(len(s32), len(pl))
        for i in range(n):
            rl = s32[i % len(s32)]
            rt = s32[(i * 7 + 3) % len(s32)]
            rp = pl[i % len(pl)]
            cases.append(build(k, i & 1, rl, rp, rt, junk=i + 1))
        # the trailer / leader asymmetry at every alignment
        cases.append(build(k, 0, 52, 1 << 20, 64))
        cases.append(build(k, 1, (1 << k) + 1, 3 << 20, (2 << k) + 1))
        cases.append(build(k, k & 1, U32 - (1 << k), 12345, 0))
        cases.append(build(k, k & 1, 0, 12345, U32 - (1 << k)))
    # larger alignments (17..31) and unrepresentable ones
    for k in list(range(17, 32)):
        al = 1 << k
        cases.append(build(k, k & 1, 52, 1000, 64))
        cases.append(build(k, 1, al, (1 << 40) + 1, al + 1 if 2 * al < U32 else al))
        cases.append(build(k, 0, U32 - al, (al << 32) - 1, 1))
        cases.append(build(k, 0, U32 - al + 1, al << 32, 1))
    for k in (32, 33, 63, 64, 65, 127, 128, 255):
        cases.append(build(k, 0, 52, 1000, 64))
        cases.append(build(k, 1, 52, 1000, 64))
    # reserved bits around the fields that are decoded
    cases.append(build(3, 1, 100, 100000, 200, info_low=0xFFFFFF, ctrl_hi=0xFFFFFFFE))
    cases.append(build(3, 0, 100, 100000, 200, info_low=0xABCDEF, ctrl_hi=0xFFFFFFFE))
    # negotiated limits: the smallest command length that still carries a register in one command
    for mc, ma in ((24, 16), (28, 20), (64, 64), (1 << 16, 1 << 16)):
        for en in (0, 1):
            cases.append(build(rng.range(0, 16), en, rng.below(1 << 20), rng.below(1 << 36), rng.below(1 << 20),
                               max_cmd=mc, max_ack=ma))
    # SIRM somewhere else, including the top of the address space
    for base in (0x7000_0000, (1 << 64) - 0x100):
        cases.append(build(5, 1, 1000, 1 << 24, 2000, sirm=base))
    # operation sequences: second enable sees the stream enabled by the first one; cached SIRM handle
    for ops in (["E", "E"], ["E", "D", "E"], ["D", "E"], ["E", "D"], ["D", "D", "E", "E"]):
        for en in (0, 1):
            cases.append(build(rng.range(0, 16), en, rng.below(1 << 16), rng.below(1 << 30), rng.below(1 << 16), ops=ops))
    # a device failure at every transaction of enable_streaming
    kinds = sorted(FAILS)
    for en in (0, 1):
        ntx = len(enable_transactions(en, False))
        for t in range(ntx):
            for kind in kinds if not quick else [kinds[(t + j) % len(kinds)] for j in range(4)]:
                k = rng.range(0, 16)
                cases.append(build(k, en, rng.below(1 << 20), rng.below(1 << 40), rng.below(1 << 20), fail=(t, kind),
                                   junk=t + 1))
    # failure inside the second enable (cached handle, stream enabled by the first)
    for t in range(15, 15 + 13):
        cases.append(build(2, 0, 100, 1 << 20, 300, fail=(t, kinds[t % len(kinds)]), ops=["E", "E"]))
    # failure while the requirement would be refused anyway
    for t in (3, 4, 8, 9):
        cases.append(build(16, 1, U32 - 1, 1000, 64, fail=(t, "recv_timeout")))
        cases.append(build(40, 1, 5, 1000, 64, fail=(t, "status_denied")))
    # structured random
    for _ in range(500 if quick else 20000):
        k = rng.range(0, 16)
        al = 1 << k
        def pick32():
            c = rng.below(6)
            if c == 0:
                return rng.choice([0, 1, al - 1, al, al + 1])
            if c == 1:
                return min(U32 - 1, max(0, 65536 * rng.range(0, 65535) + rng.range(-2, 2)))
            if c == 2:
                return min(U32 - 1, U32 - al - 2 + rng.range(0, 4))
            if c == 3:
                return rng.below(4096)
            return rng.below(U32)
        c = rng.below(6)
        if c == 0:
            rp = 65536 * rng.below(1 << 24) + rng.range(-2, 2) + 2
        elif c == 1:
            rp = rng.below(1 << 40)
        elif c == 2:
            rp = (1 << rng.range(0, 63)) + rng.range(-1, 1)
        elif c == 3:
            rp = 65536 * rng.below(1 << 16) + 65536 - al + rng.range(-1, 1)
        elif c == 4:
            rp = (1 << 48) - rng.below(1 << 20) + rng.below(1 << 19)
        else:
            rp = rng.below(1 << 64)
        rp = max(0, min(rp, (1 << 64) - 1))
        cases.append(build(k, rng.below(2), pick32(), rp, pick32(), junk=rng.below(1000),
                           info_low=rng.choice([0, rng.below(1 << 24)])))
    return cases


# ---- histories through the real StreamHandle (c15h cases, rust/h_u3v/src/c15.rs, model/StreamStart.v) ----------
H_OPEN, H_ENABLE, H_DISABLE, H_START, H_STOP, H_POKE = 10, 13, 14, 21, 22, 23


def build_hist(k, en, req, steps, sirm=SIRM, fail=None, junk=0):
    """req = (rl, rp, rt) initially in the SIRM; steps: 'E' enable | 'D' disable | 'S' start | 'X' stop |
    ('R', rl, rp, rt) the camera is reconfigured: new required sizes | ('K', k) new alignment exponent"""
    w = std_world(1024, 1024, sirm=sirm, abrm_len=0x1E0)
    w.poke(sirm + SI_INFO, 4, (k & 0xFF) << 24)
    w.poke(sirm + SI_CONTROL, 4, en & 1)
    w.poke(sirm + REQ_PAYLOAD, 8, req[1])
    w.poke(sirm + REQ_LEADER, 4, req[0])
    w.poke(sirm + REQ_TRAILER, 4, req[2])
    if junk:
        for off in (MAX_LEADER, XFER_SIZE, XFER_COUNT, FINAL1, FINAL2, MAX_TRAILER):
            w.poke(sirm + off, 4, (junk * 40503 + off * 257) & 0xFFFF)
    wt = list(w.toks)
    if fail is not None:
        wt += [6, NTX_OPEN + fail[0]] + FAILS[fail[1]][0]
    ops = [H_OPEN]
    for st in steps:
        if st == "E":
            ops += [H_ENABLE]
        elif st == "D":
            ops += [H_DISABLE]
        elif st == "S":
            ops += [H_START, sirm]
        elif st == "X":
            ops += [H_STOP]
        elif st[0] == "R":
            ops += [H_POKE, sirm + REQ_LEADER, 4, st[1], H_POKE, sirm + REQ_PAYLOAD, 8, st[2],
                    H_POKE, sirm + REQ_TRAILER, 4, st[3]]
        elif st[0] == "K":
            ops += [H_POKE, sirm + SI_INFO, 4, (st[1] & 0xFF) << 24]
    meta = dict(hist=True, k=k, en=en & 1, req=list(req), steps=[list(x) if isinstance(x, tuple) else x for x in steps],
                sirm=sirm, fail=list(fail) if fail else None, rp=req[1])
    return Case("c15h", wt + ops, meta=meta)


def hist_term(c):
    from vplib import zlist
    return "run_c15h %s" % zlist(c.expanded())


def predicate_hist(c, out):
    """After every successful start: the parameters the StreamHandle holds (and the transfers its loop submits)
    equal the six SIRM registers the device holds, and those cover the requirements that were in the SIRM at
    the latest successful enable_streaming.  Written from the property text only."""
    m = c.meta
    po = parse_output(out)
    if po is None:
        return "harness output unreadable / harness died: %r" % (_clip(out),)
    res, events, writes = po
    if any(r[0] == "panic" for r in res):
        return "operation %d panicked" % [r[0] for r in res].index("panic")
    sirm = m["sirm"]
    cur = list(m["req"])
    k = m["k"]
    enabled_req = None
    i = 1                      # result index (0 = open)
    if res[0][0] != "ok":
        return "open failed against a conforming device"
    nstart = 0
    last_written = {}
    for st in m["steps"]:
        if isinstance(st, list) and st[0] == "R":
            cur = list(st[1:4])
            i += 3
            continue
        if isinstance(st, list) and st[0] == "K":
            k = st[1]
            i += 1
            continue
        if i >= len(res):
            return "missing result for step %r" % (st,)
        r = res[i]
        i += 1
        if st == "E":
            if r[0] == "ok":
                enabled_req = (list(cur), k)
            elif m["fail"] is None and k < 32 and coverable32(cur[0], 1 << k) and coverable32(cur[2], 1 << k) \
                    and cur[1] // max(65536, 1 << k) < U32:
                return "enable_streaming failed with %r against a conforming device" % (r[1:],)
        elif st == "S" and r[0] == "ok":
            nstart += 1
            v = list(r[1])
            if len(v) != 16:
                return "start printed %d values" % len(v)
            hp, regs, subs = v[0:6], v[6:12], v[12:16]
            if hp != regs:
                return ("start %d: the stream parameters in force for the receive loop %r differ from the SIRM "
                        "registers programmed by the last enable_streaming %r" % (nstart, hp, regs))
            leader, trailer, size, count, f1, f2 = regs
            want = [2 + count + (1 if f1 else 0) + (1 if f2 else 0), leader, trailer, size * count + f1 + f2]
            if subs != want:
                return ("start %d: the receive loop submits transfers (n, leader, trailer, payload) = %r, the "
                        "programmed registers mean %r" % (nstart, subs, want))
            if enabled_req is not None:
                (rl, rp, rt), kk = enabled_req
                if leader < rl or trailer < rt or size * count + f1 + f2 < rp:
                    return ("start %d: parameters %r do not cover the requirements (%d, %d, %d) programmed at the "
                            "latest enable_streaming" % (nstart, regs, rl, rp, rt))
        elif st == "S" and r[0] == "err" and m["fail"] is None:
            running = False
            # InStreaming is the only acceptable failure on a conforming device
            if r[1] != 9:
                return "start failed with stream error class %r against a conforming device" % (r[1],)
        elif st in ("D", "X") and r[0] != "ok" and m["fail"] is None:
            return "%s failed against a conforming device" % st
    return None


def nontrivial_hist(c, out):
    return sum(1 for s in c.meta["steps"] if s == "S") >= 2


def gen_hist(ck):
    rng = Rng(ck.seed + 77)
    quick = ck.tier == "quick"
    cases = []
    small = lambda: (rng.choice([0, 1, 52, 64, 100, 1000, 4096, 65535, 65536, 65537]),
                     rng.choice([1, 1000, 65535, 65536, 65537, 100000, 300000, 1 << 20, (1 << 20) + 5, 2000000]),
                     rng.choice([0, 1, 32, 64, 100, 1000, 4097, 65536]))
    # restart after a reconfiguration: larger and smaller second frame, with and without disable
    for (a, b_) in (((52, 100000, 64), (100, 300000, 64)), ((100, 300000, 64), (52, 100000, 32)),
                    ((52, 65536, 64), (52, 65537, 64)), ((0, 1, 0), (4096, 1 << 20, 4097))):
        for k in (0, 3, 10, 16):
            cases.append(build_hist(k, 0, a, ["E", "S", "X", "D", ("R",) + b_, "E", "S", "X"]))
            cases.append(build_hist(k, 1, a, ["E", "S", "X", ("R",) + b_, "E", "S"]))
    # three rounds, alignment changes too
    cases.append(build_hist(2, 0, (52, 100000, 64), ["E", "S", "X", "D", ("R", 64, 70000, 52), ("K", 8), "E", "S", "X", "D",
                                                     ("R", 1000, 1 << 20, 1000), ("K", 0), "E", "S"]))
    # restart without a new enable (the registers still hold the last programming); reconfigure without enable
    cases.append(build_hist(4, 0, (52, 100000, 64), ["E", "S", "X", "S", "X", ("R", 100, 300000, 64), "S"]))
    # start before any enable, start while running, enable while running
    cases.append(build_hist(4, 0, (52, 100000, 64), ["S", "X", "E", "S"], junk=5))
    cases.append(build_hist(4, 0, (52, 100000, 64), ["E", "S", "S", "X", "S"]))
    cases.append(build_hist(4, 0, (52, 100000, 64), ["E", "S", ("R", 100, 300000, 64), "E", "S", "X", "S"]))
    # a requirement that is refused at the second enable: the old programming stays in force
    cases.append(build_hist(16, 0, (52, 100000, 64), ["E", "S", "X", "D", ("R", U32 - 1, 100000, 64), "E", "S"]))
    # from_control fails at a restart (device failure at one of its transactions), then works again
    for t in (15 + 0, 15 + 3, 15 + 10):
        for kind in ("recv_timeout", "status_denied"):
            cases.append(build_hist(3, 0, (52, 100000, 64), ["E", "S", "X", "S"], fail=(t + 11, kind)))
            cases.append(build_hist(3, 0, (52, 100000, 64), ["E", "S", "X", "D", ("R", 100, 300000, 64), "E", "S", "X", "S"],
                                    fail=(15 + 11 + 1 + 13 + 5, kind)))
    for _ in range(20 if quick else 300):
        k = rng.range(0, 16)
        steps = []
        for _r in range(rng.range(2, 4)):
            steps += ["E", "S"] + (["X"] if rng.chance(4, 5) else []) + (["D"] if rng.chance(1, 2) else [])
            steps += [("R",) + small()]
            if rng.chance(1, 3):
                steps += [("K", rng.range(0, 16))]
        steps += ["E", "S"]
        cases.append(build_hist(k, rng.below(2), small(), steps, junk=rng.below(50)))
    return cases


def main():
    ck = Check("C15")
    ck.rule = ("real ControlHandle::enable_streaming / disable_streaming / StreamParams::from_control (unmodified "
               "/repo/cameleon sources over the scripted USB layer rust/shim) vs the Gallina model run_ctl on the same "
               "token stream: required sizes 0, 1, 2^k±1, 65536·m±1, up to 2^32-2^k and beyond (leader/trailer), up to "
               "2^40, 2^48±1 and 2^64-1 (payload), alignment exponents 0..16, 17..31 and unrepresentable ones, stream "
               "initially enabled or not, repeated enable/disable, nine kinds of device failure at every transaction of "
               "enable_streaming; predicate = the property's inequalities, alignment, write order evaluated on the "
               "device's write log and register image, read-back by from_control; non-trivial = payload > 0 or injected "
               "failure.  Histories through the real StreamHandle (c15h cases vs model/StreamStart.v run_c15h): open, then "
               "enable / start_streaming_loop / stop / disable / reconfiguration of the required sizes and the alignment, "
               "restarts with and without a new enable, start while running, refused second requirement, from_control "
               "failing at a restart; after EVERY successful start the parameters held by the handle and the transfers "
               "submitted by the first loop iteration must equal the six SIRM registers in device memory and cover the "
               "requirements present at the latest successful enable_streaming")
    ck.trusted += ["rust/shim (scripted U3V device) and its transcription in model/Control.v (conform/on_send/on_recv)",
                   "tools/c15.py, tools/ctlcase.py, tools/u3vworld.py"]
    ck.prove()
    ck.phase("prove")
    binary, log = ck.cargo_build("h_u3v")
    ck.phase("cargo")
    if binary is None:
        path = ck.write_replay({"kind": "build", "property": "C15", "unchecked": "correspondence via rust/h_u3v",
                                "log": log[-6000:]})
        ck.violations.append((path, True, "harness rust/h_u3v does not build against /repo"))
        ck.finish()
    if ck.replay:
        r = json.load(open(ck.replay))
        if r.get("kind") != "case":
            print(json.dumps(r, indent=1)[:4000])
            sys.exit(0)
        c = Case(r.get("ckind") or "ctl", r["mtoks"].split(), meta=r.get("meta"))
        impl = ck.run_impl(binary, [c.line], big_stack=True)
        if c.kind == "c15h":
            model = ck.run_model_terms(["StreamStart"], [hist_term(c)])
        else:
            model = ck.run_model_terms(["ControlRun"], [model_term(c)])
        print("case :", c.line[:600])
        print("impl :", _clip(impl[0], 200))
        print("model:", _clip(model[0], 200))
        print("agree:", impl[0] == model[0])
        print("recorded predicate failure:", r.get("predicate_failure"))
        sys.exit(0 if impl[0] == model[0] and not r.get("predicate_failure") else 1)
    cases = gen_cases(ck)
    ck.phase("generate")
    impl = ck.run_impl(binary, [c.line for c in cases], jobs=16, big_stack=True)
    ck.phase("impl")
    model = ck.run_model_terms(["ControlRun"], [model_term(c) for c in cases], per_eval=50, jobs=16)
    ck.phase("model")
    nf = sum(1 for c in cases if c.meta["fail"])
    ck.compare([c for c in cases if not c.meta["fail"]], [i for c, i in zip(cases, impl) if not c.meta["fail"]],
               [m for c, m in zip(cases, model) if not c.meta["fail"]], predicate, nontrivial,
               family="conforming device")
    ck.compare([c for c in cases if c.meta["fail"]], [i for c, i in zip(cases, impl) if c.meta["fail"]],
               [m for c, m in zip(cases, model) if c.meta["fail"]], predicate, nontrivial,
               family="device failure at one transaction")
    ck.dist["injected_failures"] = nf
    ck.phase("compare")
    hcases = gen_hist(ck)
    himpl = ck.run_impl(binary, [c.line for c in hcases], jobs=4, big_stack=True)
    hmodel = ck.run_model_terms(["StreamStart"], [hist_term(c) for c in hcases], per_eval=10, jobs=8)
    ck.phase("histories")
    ck.compare(hcases, himpl, hmodel, predicate_hist, nontrivial_hist,
               family="enable / start / stop / disable / reconfigure histories on one StreamHandle")
    ck.finish()


if __name__ == "__main__":
    run_check(main)
