#!/usr/bin/env python3
"""tools/translate_streamparams.py -- CODE translator for the transfer-layout part of
cameleon/src/u3v/stream_handle.rs (properties C12 and C15).  Output: coq/theories/gen/StreamParamsSrc.v, regenerated on
every run.  Parser, type checker and emitter are those of tools/translate_streamparse.py (C11), extended here with what
these functions need; the meaning of the emitted operations is in model/RdOps.v and model/SpOps.v.

What is translated:
  * struct StreamParams, StreamParams::new, StreamParams::maximum_payload_size (usize `*` and `+` with their overflow
    checks: r_mul / r_add of lib/RustInt.v), StreamParams::payload_transfer_sizes
        std::iter::repeat(x).take(n)            repeat x (Z.to_nat n)
        a.chain(b)                              a ++ b          (an Option as an iterator: opt_list)
        Some(x).filter(|v| *v != 0)             opt_filter (fun v => negb (v =? 0)) (Some x)
  * the free functions read_leader, read_payload, read_trailer
        async_pool.submit(&mut buf[a..b])?      let? (_, pool) := sp_submit res <len of buf> a b pool
        let mut cursor = 0; cursor += e;        let? cursor := r_add 64 cursor e
        for _ in 0..n { .. }                    r_for (Z.to_nat n) (<fn>_for ..) state       (body = a separate definition)
        if c { .. }   (falls through)           let? state := (if c then .. Ok state else Ok state)
    a buffer parameter `&mut [u8]` is its length, the pool is the list of ranges submitted so far, `res` gives the
    result of each submission;
  * StreamParams::from_control, statement by statement, into the monad of model/Control.v over the operations fc_* of
    model/SpOps.v: which call into register_map.rs is made in which order, the register constant each Sirm / Abrm getter
    reads (the getter's body must be `self.read_register(device, <mod>::<REG>)`; the constant is emitted as the
    gen/RegTables.v name), the `as usize` conversions, the error of the missing SIRM, and the argument order of
    Self::new.

Pinned shapes (ShapeError otherwise): everything tools/translate_streamparse.py pins; `use std::{.. time::Duration ..}`
of stream_handle.rs; `impl From<u3v::Error> for StreamError` (the `?` after submit); AsyncPool::submit(&mut self,
buf: &mut [u8]) -> Result<()>; the bodies of Abrm::new, Abrm::sbrm, Sbrm::sirm of register_map.rs.

  * <StreamHandle as PayloadStream>::{start_streaming_loop, stop_streaming_loop} as the list of their statements (hstep
    of model/SpOps.v; statement shapes matched textually with string literals normalised, the ORDER is the source's);
    is_loop_running must be `self.cancellation_tx.is_some()`.

Not translated: StreamingLoop::run (model/StreamLoop.v is validated by trace replay), the length accounting inside it,
StreamHandle::{open, close} (the mutex and the channel of the device crate)."""
import os
import re
import sys

sys.path.insert(0, os.path.dirname(os.path.abspath(__file__)))
import translate_streamparse as sp
from translate_streamparse import ShapeError, Val, Sig, render, strip_paren, walk, BITS, coq_type, show

VERIF = os.path.dirname(os.path.dirname(os.path.abspath(__file__)))
OUT = os.path.join(VERIF, "coq", "theories", "gen", "StreamParamsSrc.v")
WANT = [("handle", "StreamParams", None, "new"), ("handle", "StreamParams", None, "maximum_payload_size"),
        ("handle", "StreamParams", None, "payload_transfer_sizes"),
        ("handle", None, None, "read_leader"), ("handle", None, None, "read_payload"), ("handle", None, None, "read_trailer")]


def has_node(ast, kinds):
    found = []
    walk(ast, lambda n: found.append(n[0]) if n and n[0] in kinds else None)
    return bool(found)


class Compiler2(sp.Compiler):
    # ---- types ----
    def parse_type(self, toks, mod, owner, tvars=()):
        s = "".join(x for x in toks if not x.startswith("'"))
        if mod == "handle":
            if s == "implIterator<Item=usize>":
                return ("iter", "usize")
            if s == "Duration":
                return "duration"
            if s == "&mutAsyncPool":
                return ("mutref", "pool")
            if s == "&mut[u8]":
                return "mutbuf"
            if s == "&StreamParams":
                return self.named_type(mod, ["StreamParams"])
        return super().parse_type(toks, mod, owner, tvars)

    # ---- state threading ----
    def mutated(self, stmts, cx):
        """the locals a block changes, in the order of first change"""
        out = []

        def visit(n):
            if not n:
                return
            if n[0] in ("assign", "opassign"):
                p = strip_paren(n[1] if n[0] == "assign" else n[2])
                if p[0] == "path" and len(p[1]) == 1 and p[1][0] not in out:
                    out.append(p[1][0])
            if n[0] == "mcall" and n[2] in ("submit", "read_bytes_le"):
                p = strip_paren(n[1])
                if p[0] == "path" and len(p[1]) == 1 and p[1][0] not in out:
                    out.append(p[1][0])
            if n[0] == "let" or n[0] == "closure":
                pass
        walk(stmts, visit)
        for n in out:
            if n not in cx.env or not cx.env[n][2]:
                raise ShapeError("%s: `%s` is changed but is not a mutable local" % (cx.f.label(), n))
        return out

    def state_pat(self, names, cx):
        if not names:
            return "tt"
        vs = [cx.env[n][0] for n in names]
        return vs[0] if len(vs) == 1 else "(%s)" % ", ".join(vs)

    def state_type(self, names, cx):
        if not names:
            return "unit"
        ts = [coq_type(cx.env[n][1]) for n in names]
        return ts[0] if len(ts) == 1 else "(%s)" % " * ".join(ts)

    def cblock(self, stmts, cx, i=0):
        fall = getattr(cx, "fall", None)
        if i == len(stmts) and fall is not None:
            return "Ok %s" % self.state_pat(fall, cx)
        if i == len(stmts):
            return super().cblock(stmts, cx, i)
        st = stmts[i]
        if st[0] == "let" and strip_paren(st[4])[0] == "lit" and strip_paren(st[4])[2] is None and st[3] is None:
            # `let [mut] x = <literal>`: a usize when x is a slice bound somewhere in the function
            name, used = st[2], []

            def visit(n):
                if n and n[0] == "index" and isinstance(n[2], tuple) and n[2][0] == "range":
                    walk([n[2][1], n[2][2]], lambda m: used.append(1) if m == ("path", [name]) else None)
            s, e = cx.f.body
            walk(sp.Parser(self.srcs[cx.mod].toks, s, e).block_body(), visit)
            if not used:
                raise ShapeError("the type of `let %s = <literal>` is not determined" % name)
            v = strip_paren(st[4])[1]
            if not 0 <= v < 2 ** 64:
                raise ShapeError("literal %d" % v)
            cx.env[name] = ("v_" + name, "usize", st[1])
            return render([("let", "v_" + name, str(v))], self.cblock(stmts, cx, i + 1))
        if st[0] in ("expr", "tail"):
            e = strip_paren(st[1])
            if fall is not None and e[0] in ("return", "break"):
                raise ShapeError("return / break inside a block that falls through")
            if e[0] == "opassign":
                place = strip_paren(e[2])
                if place[0] != "path" or len(place[1]) != 1 or place[1][0] not in cx.env or not cx.env[place[1][0]][2] \
                        or cx.env[place[1][0]][1] not in BITS:
                    raise ShapeError("`+=` on something other than a mutable integer local")
                cv, ty, _ = cx.env[place[1][0]]
                if cx.used is not None:
                    cx.used.append(place[1][0])
                v = self.cexpr(e[3], cx, ty)
                self.check_ty(v.ty, ty, "operand of +=")
                return render(v.binds + [("let?", cv, "r_add %d %s %s" % (BITS[ty], cv, v.term))], self.cblock(stmts, cx, i + 1))
            if e[0] == "for":
                return self.cfor(e, stmts, cx, i)
            if e[0] == "if" and e[3] is None and not self.diverges(e[2]):
                if has_node(e[2], ("return", "break")):
                    raise ShapeError("return / break inside an `if` that falls through")
                ms = self.mutated(e[2], cx)
                c = self.cexpr(e[1], cx, "bool")
                self.check_ty(c.ty, "bool", "condition")
                bcx = cx.copy()
                bcx.fall = ms
                for n in ms:
                    if cx.used is not None:
                        cx.used.append(n)
                body = self.cblock(e[2], bcx)
                pat = self.state_pat(ms, cx)
                rest = self.cblock(stmts, cx, i + 1)
                return render(c.binds, "let? %s := (if %s then (%s) else Ok %s) in\n  %s" % (pat, c.term, body, pat, rest))
        return super().cblock(stmts, cx, i)

    def cfor(self, e, stmts, cx, i):
        _, pat, lo, hi, body = e
        if pat != "_" or strip_paren(lo) != ("lit", 0, None):
            raise ShapeError("a `for` that is not `for _ in 0..n`")
        if cx.loop is not None or getattr(cx, "fall", None) is not None:
            raise ShapeError("nested loop")
        if has_node(body, ("return", "break", "loop", "for")):
            raise ShapeError("return / break / loop inside a for body")
        n = self.cexpr(hi, cx, "usize")
        self.check_ty(n.ty, "usize", "bound of the for loop")
        if n.upd:
            raise ShapeError("reader result as a loop bound")
        ms = self.mutated(body, cx)
        bcx = cx.copy()
        bcx.fall = ms
        bcx.used = []
        term = self.cblock(body, bcx)
        free = []
        for x in bcx.used:
            if x not in ms and x in cx.env and x not in free:
                free.append(x)
        name = self.claim(cx.coq + "_for")
        params = (["(res : Z -> option Z)"] if cx.oraclebox[0] else []) + \
            ["(%s : %s)" % (cx.env[x][0], coq_type(cx.env[x][1])) for x in free] + ["(s_ : %s)" % self.state_type(ms, cx)]
        pat_s = self.state_pat(ms, cx)
        self.emit(name, params, "outcome %s" % self.state_type(ms, cx), "let '%s := s_ in\n  %s" % (pat_s, term)
                  if len(ms) > 1 else "let %s := s_ in\n  %s" % (pat_s, term))
        if cx.used is not None:
            cx.used.extend(free + ms)
        call = "%s%s%s" % (name, " res" if cx.oraclebox[0] else "", "".join(" " + cx.env[x][0] for x in free))
        return render(n.binds + [("let?", pat_s, "r_for (Z.to_nat %s) (%s) %s" % (n.term, call, pat_s))],
                      self.cblock(stmts, cx, i + 1))

    # ---- expressions ----
    def cexpr(self, e, cx, want=None):
        if e[0] == "try" and strip_paren(e[1])[0] == "mcall" and strip_paren(e[1])[2] == "submit":
            # the `?` after submit: u3v::Error -> StreamError (impl From<u3v::Error> for StreamError is pinned)
            v = self.cexpr(strip_paren(e[1]), cx, want)
            if not (isinstance(cx.ret, tuple) and cx.ret[0] == "result" and cx.ret[2] == "strm") or cx.loop is not None:
                raise ShapeError("`?` after submit in %s" % cx.f.label())
            x = cx.fresh()
            return Val(v.binds + [("let?", "(%s, %s)" % (x, cx.env[v.upd][0]), v.term)], x, "unit")
        if e[0] == "un" and e[1] == "*":
            inner = strip_paren(e[2])
            if inner[0] == "path" and len(inner[1]) == 1 and inner[1][0] in getattr(cx, "refs", ()):
                return super().cexpr(inner, cx, want)
            raise ShapeError("dereference of something other than a closure parameter")
        if e[0] == "path" and len(e[1]) == 1 and e[1][0] in getattr(cx, "refs", ()):
            raise ShapeError("closure parameter used without `*`")
        return super().cexpr(e, cx, want)

    def ccall(self, e, cx, want):
        if "::".join(e[1]) == "std::iter::repeat" and cx.mod == "handle":
            v = self.cexpr(e[2][0], cx) if len(e[2]) == 1 else None
            if v is None or v.upd or v.ty not in BITS:
                raise ShapeError("std::iter::repeat of something other than an integer")
            return Val(v.binds, v.term, ("repeat", v.ty))
        return super().ccall(e, cx, want)

    def cmcall(self, e, cx, want):
        _, recv_e, name, tf, args = e
        if name in ("take", "chain", "filter") and tf is None:
            r = self.cexpr(recv_e, cx)
            if r.upd:
                raise ShapeError(".%s on a reader result" % name)
            if name == "take" and isinstance(r.ty, tuple) and r.ty[0] == "repeat" and len(args) == 1:
                n = self.cexpr(args[0], cx, "usize")
                self.check_ty(n.ty, "usize", "argument of take")
                return Val(r.binds + n.binds, "(repeat %s (Z.to_nat %s))" % (r.term, n.term), ("iter", r.ty[1]))
            if name == "chain" and isinstance(r.ty, tuple) and r.ty[0] == "iter" and len(args) == 1:
                b = self.cexpr(args[0], cx)
                if b.upd:
                    raise ShapeError("chain of a reader result")
                if b.ty == ("option", r.ty[1]):
                    return Val(r.binds + b.binds, "(%s ++ opt_list %s)" % (r.term, b.term), r.ty)
                if b.ty == r.ty:
                    return Val(r.binds + b.binds, "(%s ++ %s)" % (r.term, b.term), r.ty)
                raise ShapeError("chain of %s to %s" % (show(b.ty), show(r.ty)))
            if name == "filter" and isinstance(r.ty, tuple) and r.ty[0] == "option" and r.ty[1] in BITS and len(args) == 1:
                c = strip_paren(args[0])
                if c[0] != "closure" or len(c[1]) != 1 or c[1][0][1] is not None:
                    raise ShapeError("filter without a one-parameter closure")
                pn = c[1][0][0]
                bcx = cx.copy()
                bcx.env[pn] = ("v_" + pn, r.ty[1], False)
                bcx.refs = set(getattr(cx, "refs", ())) | {pn}
                b = self.cexpr(c[2], bcx, "bool")
                if b.binds or b.upd or b.ty != "bool":
                    raise ShapeError("closure of filter")
                return Val(r.binds, "(opt_filter (fun v_%s => %s) %s)" % (pn, b.term, r.term), r.ty)
            raise ShapeError("%s: .%s on a value of type %s" % (cx.f.label(), name, show(r.ty)))
        if name == "submit":
            recv = strip_paren(recv_e)
            pl = recv[1][0] if recv[0] == "path" and len(recv[1]) == 1 else None
            a = strip_paren(args[0]) if len(args) == 1 else None
            if pl not in cx.env or cx.env[pl][1] != "pool" or not cx.env[pl][2] or tf is not None or a is None \
                    or a[0] != "ref" or not a[1] or strip_paren(a[2])[0] != "index":
                raise ShapeError("submit that is not `<pool>.submit(&mut <buffer>[range])`")
            ix = strip_paren(a[2])
            b = self.cexpr(ix[1], cx)
            if b.ty != "mutbuf" or b.binds or not (isinstance(ix[2], tuple) and ix[2][0] == "range") or ix[2][2] is None:
                raise ShapeError("submit of something other than a range `[a..b]` / `[..b]` of a `&mut [u8]` parameter")
            binds, lo = [], "0"
            if ix[2][1] is not None:
                v = self.cexpr(ix[2][1], cx, "usize")
                self.check_ty(v.ty, "usize", "slice bound")
                binds, lo = binds + v.binds, v.term
            v = self.cexpr(ix[2][2], cx, "usize")
            self.check_ty(v.ty, "usize", "slice bound")
            binds += v.binds
            if cx.used is not None:
                cx.used.append(pl)
            cx.oraclebox[0] = True
            return Val(binds, "sp_submit res %s %s %s %s" % (b.term, lo, v.term, cx.env[pl][0]), ("result", "unit", "usb"), pl)
        return super().cmcall(e, cx, want)


# ------------------------------------------------------------------------------------------- from_control --
def squeeze(s):
    return re.sub(r"\s+", "", sp.strip_comments(s))


def getter_reg(rm, owner, name, mod, ret):
    """the register constant a getter of register_map.rs reads: its body must be `self.read_register(device, MOD::REG)`"""
    blk = sp.block_of(rm, "impl%s{" % owner)
    pat = (r"pubfn%s<Ctrl:DeviceControl\+\?Sized>\(&self,device:&mutCtrl,?\)->ControlResult<%s>"
           r"\{self\.read_register\(device,%s::([A-Z0-9_]+)\)\}" % (re.escape(name), re.escape(ret), mod))
    ms = re.findall(pat, blk)
    if len(ms) != 1 or len(re.findall(r"fn%s[<(]" % re.escape(name), blk)) != 1:
        raise ShapeError("register_map.rs: %s::%s is not `self.read_register(device, %s::REG)` returning %s"
                         % (owner, name, mod, ret))
    return "%s_%s" % (mod, ms[0])


def from_control(c, repo):
    src = c.srcs["handle"]
    f = c.find_fn("handle", "StreamParams", None, "from_control")
    if f.generics != ["Ctrl", ":", "DeviceControl", "+", "?", "Sized"] or f.params != [["ctrl", ":", "&", "mut", "Ctrl"]] \
            or f.ret != ["ControlResult", "<", "Self", ">"] or f.where:
        raise ShapeError("signature of StreamParams::from_control")
    rm = squeeze(open(os.path.join(repo, "cameleon", "src", "u3v", "register_map.rs")).read())
    # the three calls whose bodies are pinned
    if "pubfnnew<Ctrl:DeviceControl+?Sized>(device:&mutCtrl)->ControlResult<Self>{let(capability_addr,capability_len)=" \
       "abrm::DEVICE_CAPABILITY;letdevice_capability=read_register(device,capability_addr,capability_len)?;" \
       "Ok(Self{device_capability})}" not in sp.block_of(rm, "implAbrm{"):
        raise ShapeError("register_map.rs: body of Abrm::new")
    if "pubfnsbrm<Ctrl:DeviceControl+?Sized>(&self,device:&mutCtrl)->ControlResult<Sbrm>{letsbrm_address=" \
       "self.sbrm_address(device)?;Sbrm::new(device,sbrm_address)}" not in sp.block_of(rm, "implAbrm{"):
        raise ShapeError("register_map.rs: body of Abrm::sbrm")
    if "pubfnsirm<Ctrl:DeviceControl+?Sized>(&self,device:&mutCtrl,)->ControlResult<Option<Sirm>>{" \
       "Ok(self.sirm_address(device)?.map(Sirm::new))}" not in sp.block_of(rm, "implSbrm{"):
        raise ShapeError("register_map.rs: body of Sbrm::sirm")
    if not re.search(r"usesuper::register_map::Abrm;", "".join(src.uses).replace(" ", "")):
        raise ShapeError("stream_handle.rs: use super::register_map::Abrm")
    s, e = f.body
    body = sp.Parser(src.toks, s, e).block_body()
    new_sig = c.sig("handle", "StreamParams", None, "new")
    lines, env, n = [], {}, [0]

    def is_call(x, recv, name):
        x = strip_paren(x)
        return x[0] == "try" and strip_paren(x[1])[0] == "mcall" and strip_paren(x[1])[1] == recv and \
            strip_paren(x[1])[2] == name and strip_paren(x[1])[3] is None and strip_paren(x[1])[4] == [("path", ["ctrl"])]

    for k, st in enumerate(body):
        last = k == len(body) - 1
        if st[0] == "let" and not st[1] and st[3] is None:
            name, ex = st[2], strip_paren(st[4])
            if name in env:
                raise ShapeError("from_control: `%s` bound twice" % name)
            if ex == ("try", ("call", ["Abrm", "new"], [("path", ["ctrl"])])):
                lines.append("do v_%s <- fc_abrm_new abrm_DEVICE_CAPABILITY;" % name)
                env[name] = "abrm"
                continue
            # abrm.sbrm(ctrl)?.sirm(ctrl)?.ok_or_else(|| { .. ControlError::InvalidDevice(..) })?
            if ex[0] == "try" and strip_paren(ex[1])[0] == "mcall" and strip_paren(ex[1])[2] == "ok_or_else":
                m = strip_paren(ex[1])
                clo = strip_paren(m[4][0]) if len(m[4]) == 1 else None
                inner = strip_paren(m[1])
                if clo is None or clo[0] != "closure" or clo[1] or inner[0] != "try":
                    raise ShapeError("from_control: ok_or_else")
                i2 = strip_paren(inner[1])
                if not (i2[0] == "mcall" and i2[2] == "sirm" and i2[4] == [("path", ["ctrl"])]):
                    raise ShapeError("from_control: the value given to ok_or_else is not `.sirm(ctrl)?`")
                i3 = strip_paren(i2[1])
                if not (i3[0] == "try" and strip_paren(i3[1])[0] == "mcall" and strip_paren(i3[1])[2] == "sbrm"
                        and strip_paren(i3[1])[4] == [("path", ["ctrl"])]):
                    raise ShapeError("from_control: the receiver of .sirm is not `.sbrm(ctrl)?`")
                ab = strip_paren(strip_paren(i3[1])[1])
                if ab[0] != "path" or len(ab[1]) != 1 or env.get(ab[1][0]) != "abrm":
                    raise ShapeError("from_control: the receiver of .sbrm is not the Abrm")
                # closure: { let msg = "..."; error!(msg); ControlError::InvalidDevice(msg.into()) }
                cb = strip_paren(clo[2])
                tail = cb[1][-1] if cb[0] == "block" and cb[1] and cb[1][-1][0] == "tail" else ("tail", cb)
                tv = strip_paren(tail[1])
                if tv[0] != "call" or tv[1] != ["ControlError", "InvalidDevice"]:
                    raise ShapeError("from_control: the error of a missing SIRM is not ControlError::InvalidDevice")
                if cb[0] == "block":
                    for st2 in cb[1][:-1]:
                        ok2 = (st2[0] == "let" and strip_paren(st2[4])[0] == "str") or \
                              (st2[0] == "expr" and strip_paren(st2[1])[0] == "macro" and strip_paren(st2[1])[1] == "error")
                        if not ok2:
                            raise ShapeError("from_control: statement in the closure of ok_or_else")
                lines.append("do v_%s <- (do t1_ <- fc_abrm_sbrm v_%s; do t2_ <- fc_sbrm_sirm t1_; fc_ok_or t2_ CE_INVALID_DEVICE);"
                             % (name, ab[1][0]))
                env[name] = "sirm"
                continue
            # sirm.GETTER(ctrl)? as usize
            if ex[0] == "as" and ex[2] == "usize" and strip_paren(ex[1])[0] == "try":
                m = strip_paren(strip_paren(ex[1])[1])
                rv = strip_paren(m[1]) if m[0] == "mcall" else None
                if rv is None or rv[0] != "path" or len(rv[1]) != 1 or env.get(rv[1][0]) != "sirm" or m[3] is not None \
                        or m[4] != [("path", ["ctrl"])]:
                    raise ShapeError("from_control: `let %s = ..`" % name)
                reg = getter_reg(rm, "Sirm", m[2], "sirm", "u32")
                n[0] += 1
                lines.append("do t%d_ <- fc_sirm_read v_%s %s; let v_%s := r_cast 64 t%d_ in" % (n[0], rv[1][0], reg, name, n[0]))
                env[name] = "usize"
                continue
            # abrm.GETTER(ctrl)?
            if ex[0] == "try" and strip_paren(ex[1])[0] == "mcall":
                m = strip_paren(ex[1])
                rv = strip_paren(m[1])
                if rv[0] == "path" and len(rv[1]) == 1 and env.get(rv[1][0]) == "abrm" and m[3] is None \
                        and m[4] == [("path", ["ctrl"])]:
                    reg = getter_reg(rm, "Abrm", m[2], "abrm", "Duration")
                    lines.append("do v_%s <- fc_abrm_read v_%s %s;" % (name, rv[1][0], reg))
                    env[name] = "duration"
                    continue
            raise ShapeError("from_control: `let %s = ..` is not one of the accepted calls" % name)
        if last and st[0] == "tail":
            ex = strip_paren(st[1])
            if ex[0] == "call" and ex[1] == ["Ok"] and len(ex[2]) == 1:
                cl = strip_paren(ex[2][0])
                if cl[0] == "call" and cl[1] == ["Self", "new"] and len(cl[2]) == len(new_sig.params):
                    args = []
                    for a, (pn, pty) in zip(cl[2], new_sig.params):
                        a = strip_paren(a)
                        if a[0] != "path" or len(a[1]) != 1 or env.get(a[1][0]) != pty:
                            raise ShapeError("from_control: argument `%s` of Self::new" % pn)
                        args.append("v_" + a[1][0])
                    lines.append("ret (%s %s)." % (new_sig.coq, " ".join(args)))
                    break
        raise ShapeError("from_control: statement %d is not understood" % (k + 1))
    else:
        raise ShapeError("from_control does not end with Ok(Self::new(..))")
    c.out.append("Definition src_StreamParams_from_control : M src_StreamParams :=\n  " + "\n  ".join(lines))
    c.names.append("src_StreamParams_from_control")


# ------------------------------------------------------------------------------ StreamHandle start / stop --
STREAM_ERR = {"Io": "SE_IO", "InStreaming": "SE_IN_STREAMING"}
HS_PATTERNS = [
    (r'self\.params=StreamParams::from_control\(ctrl\)\.map_err\(\|e\|\{StreamError::(\w+)\(anyhow::Error::msg\(format!\("S",e\)\)\)\}\)\?;',
     lambda m: "HS_load_params %s" % err_class(m.group(1))),
    (r'ifself\.is_loop_running\(\)\{returnErr\(StreamError::(\w+)\);\}',
     lambda m: "HS_fail_if_running %s" % err_class(m.group(1))),
    (r'let\(cancellation_tx,cancellation_rx\)=mpsc::sync_channel\((\d+)\);', lambda m: "HS_new_channel %s" % m.group(1)),
    (r'self\.cancellation_tx=Some\(cancellation_tx\);', lambda m: "HS_store_tx"),
    (r'letstrm_loop=StreamingLoop\{inner:self\.inner\.clone\(\),params:self\.params\.clone\(\),sender,cancellation_rx,?\};',
     lambda m: "HS_build_loop"),
    (r'std::thread::spawn\(\|\|\{strm_loop\.run\(\);\}\);', lambda m: "HS_spawn"),
    (r'info!\("S"\);', lambda m: "HS_log"),
    (r'letcancellation_tx=self\.cancellation_tx\.take\(\)\.unwrap\(\);', lambda m: "HS_take_tx"),
    (r'cancellation_tx\.send\(\(\)\)\.map_err\(\|_\|\{StreamError::Poisoned\("S"\.into\(\)\)\}\)\?;',
     lambda m: "HS_send_cancel 0"),
]


def err_class(name):
    if name not in STREAM_ERR:
        raise ShapeError("StreamError::%s in start_streaming_loop" % name)
    return STREAM_ERR[name]


def hs_scan(text, what):
    """the statements of a body (squeezed, string literals normalised to "S") as a list of hstep terms; the body must end
    with Ok(())"""
    steps, pos = [], 0
    while True:
        if text[pos:] == "Ok(())":
            return steps
        m = re.match(r'ifself\.is_loop_running\(\)\{(?!return)', text[pos:])
        if m:
            blk = sp.block_of(text[pos:], "ifself.is_loop_running()")
            inner = hs_scan(blk[1:-1] + "Ok(())", what)
            steps.append("HS_if_running [%s]" % "; ".join(inner))
            pos += len("ifself.is_loop_running()") + len(blk)
            continue
        for pat, mk in HS_PATTERNS:
            m = re.match(pat, text[pos:])
            if m:
                steps.append(mk(m))
                pos += m.end()
                break
        else:
            raise ShapeError("%s: statement not understood at `%s`" % (what, text[pos:pos + 60]))


def stream_handle_steps(c):
    src = c.srcs["handle"]

    def body(name, params, ret):
        fs = src.fns.get(("StreamHandle", "PayloadStream", name), [])
        if len(fs) != 1 or fs[0].params != params or fs[0].ret != ret or fs[0].generics or fs[0].body is None:
            raise ShapeError("<StreamHandle as PayloadStream>::%s: signature" % name)
        s, e = fs[0].body
        return "".join('"S"' if k == "str" else t for k, t in src.toks[s:e])
    res = ["StreamResult", "<", "(", ")", ">"]
    start = hs_scan(body("start_streaming_loop", [["&", "mut", "self"], ["sender", ":", "PayloadSender"],
                                                  ["ctrl", ":", "&", "mut", "dyn", "DeviceControl"]], res), "start_streaming_loop")
    stop = hs_scan(body("stop_streaming_loop", [["&", "mut", "self"]], res), "stop_streaming_loop")
    if body("is_loop_running", [["&", "self"]], ["bool"]) != "self.cancellation_tx.is_some()":
        raise ShapeError("is_loop_running is not `self.cancellation_tx.is_some()`")
    flds = [f for f, _ in src.structs.get("StreamHandle", [])]
    if flds != ["inner", "params", "cancellation_tx"]:
        raise ShapeError("fields of StreamHandle: %r" % flds)
    c.out.append("Definition src_StreamHandle_start_streaming_loop : list hstep :=\n  [%s]." % "; ".join(start))
    c.out.append("Definition src_StreamHandle_stop_streaming_loop : list hstep :=\n  [%s]." % "; ".join(stop))
    c.names += ["src_StreamHandle_start_streaming_loop", "src_StreamHandle_stop_streaming_loop"]


# -------------------------------------------------------------------------------------------------- driver --
def pins2(repo, srcs):
    def rd(p):
        return squeeze(open(os.path.join(repo, p)).read())
    u = "".join(srcs["handle"].uses).replace(" ", "")
    if not re.search(r"usestd::\{[^;]*time::Duration,?\};", u):
        raise ShapeError("pinned shape lost: stream_handle.rs: use std::time::Duration")
    if len(re.findall(r"implFrom<u3v::Error>forStreamError\{", rd("cameleon/src/u3v/mod.rs"))) != 1:
        raise ShapeError("pinned shape lost: impl From<u3v::Error> for StreamError")
    if not re.search(r"usecameleon_device::u3v::\{self,async_read::AsyncPool,", u):
        raise ShapeError("pinned shape lost: stream_handle.rs: use cameleon_device::u3v::{self, async_read::AsyncPool, ..}")
    if not re.search(r"pubfnsubmit\(&mutself,buf:&('a)?mut\[u8\]\)->Result<\(\)>\{", rd("device/src/u3v/async_read.rs")):
        raise ShapeError("pinned shape lost: AsyncPool::submit(&mut self, buf: &mut [u8]) -> Result<()>")


def translate(repo):
    srcs = sp.load(repo)
    sp.pins(repo, srcs)
    pins2(repo, srcs)
    c = Compiler2(srcs, {})
    for key in WANT:
        c.sig(*key)
    # every method of StreamParams is known: the four translated here and from_control
    ms = sorted(k[2] for k in srcs["handle"].fns if k[0] == "StreamParams")
    if ms != sorted(["new", "maximum_payload_size", "payload_transfer_sizes", "from_control"]):
        raise ShapeError("StreamParams has the methods %r" % ms)
    from_control(c, repo)
    stream_handle_steps(c)
    return c


def render_file(c):
    o = ["(* GENERATED by tools/translate_streamparams.py from cameleon/src/u3v/stream_handle.rs (StreamParams, read_leader /",
         "   read_payload / read_trailer) - do not edit.  Operations: model/RdOps.v, model/SpOps.v; integer arithmetic:",
         "   lib/RustInt.v (debug build).  A `&mut [u8]` parameter is its length; `res k` is the result of the k-th submit. *)",
         "From Cam Require Import Outcome RustInt Bytes RdOps SpOps RegTables.", ""]
    for d in c.out:
        o.append(d)
        o.append("")
    o.append("#[global] Hint Unfold %s : srcprm." % " ".join(c.names))
    o.append("")
    return "\n".join(o)


def regenerate(repo=None, out=None):
    repo = repo or os.environ.get("VERIF_REPO", "/repo")
    out = out or OUT
    text = render_file(translate(repo))
    old = open(out).read() if os.path.exists(out) else None
    if old != text:
        with open(out, "w") as f:
            f.write(text)
        return True
    return False


if __name__ == "__main__":
    try:
        ch = regenerate(sys.argv[1] if len(sys.argv) > 1 else None, sys.argv[2] if len(sys.argv) > 2 else None)
    except (ShapeError, OSError) as e:
        print("translate_streamparams: ShapeError: %s" % e)
        sys.exit(3)
    print("gen/StreamParamsSrc.v", "rewritten" if ch else "unchanged")
