#!/usr/bin/env python3
"""tools/translate_gentl.py -- CODE translator for the buffer protocol of the GenTL C API (property C19):
gentl/src/ffi/mod.rs -> coq/theories/gen/GenTLSrc.v, regenerated on every run.  proofs/P_C19s.v proves the translated
functions equal to the protocol answer of the hand-written model model/GenTL.v (copy_to / str_copy_to / code_of).

What is translated (own tokenizer / statement parser / emitter below; vocabulary model/GtlOps.v):

  impl From<&GenTlError> for GC_ERROR   Inductive gentl_error (the variants named by the match, payloads dropped; the `use
                                        GenTlError::{..}` list and the enum of gentl/src/lib.rs must name exactly these) and
                                        src_gc_error_code; the four forwarding impls (owned error, GenTlResult by value /
                                        by reference) are pinned and give src_gc_ok_code
  newtype_enum! INFO_DATATYPE           src_idt_<NAME> : Z
  trait CopyTo                          pinned (Destination, copy_to(&self, dst, dst_size), info_data_type())
  impl CopyTo for &str / &[u8] / bool8_t / imp::port::TlType / imp::port::ModuleType / imp::device::DeviceAccessStatus
  macro_rules! impl_copy_to_for_numeric with EVERY invocation (the body is expanded from the parsed definition by
                                        substituting $ty / $info_data_type)
                                        src_copy_to_<T> : <value> -> gm unit   and   src_info_type_<T> : Z
  fn copy_info                          pinned; src_copy_info
  the set of `impl CopyTo for` blocks must be exactly the one above, each with exactly the three items of the trait.

Statements of a copy_to body (anything else: ShapeError - the check reports C19_*_from_source as broken):
  let x = e;                 if c { .. }  (no else; the rest of the function follows both ways)      unsafe { .. }
  return Err(GenTlError::X) / Err(GenTlError::X("..".into()))     g_err (code of X in the translated table)
  *dst_size = e;             g_store_size          *dst = e;          g_store_val (size of Destination) e
  std::ptr::copy_nonoverlapping(self.as_ptr()[.cast::<i8>()], dst, n);     g_copy self n
  dst.add(n).write(b);       g_write_at n [b]
  Ok(())                     g_ret tt              x.copy_to(dst, dst_size)     the translated impl for the type of x
expressions: usize literals, locals, self.len(), self.is_ascii(), dst.is_null(), *dst_size, *self, self.0,
  std::mem::size_of::<T>(), `!`, `+ -` (usize, debug build: r_add / r_sub 64), comparisons, `*self as Self::Destination`
  of a fieldless enum (the value is its discriminant), `match self { Self::V => "text", .. }`.
"""
import os
import re
import sys

HERE = os.path.dirname(os.path.abspath(__file__))
OUT = os.path.join(os.path.dirname(HERE), "coq", "theories", "gen", "GenTLSrc.v")
REL = os.path.join("gentl", "src", "ffi", "mod.rs")


class ShapeError(Exception):
    pass


def strip_comments(s):
    s = re.sub(r"/\*.*?\*/", "", s, flags=re.S)
    return re.sub(r"//[^\n]*", "", s)


def norm(s):
    return re.sub(r"\s+", "", s)


def block_after(src, start):
    i = src.index("{", start)
    depth = 0
    for j in range(i, len(src)):
        if src[j] == "{":
            depth += 1
        elif src[j] == "}":
            depth -= 1
            if depth == 0:
                return src[i + 1:j], j + 1
    raise ShapeError("unbalanced braces")


TOK = re.compile(r"""\s*(
    "(?:[^"\\]|\\.)*" |
    [A-Za-z_][A-Za-z0-9_]*(?:::[A-Za-z_][A-Za-z0-9_]*)* |
    \d[\d_]*(?:_?(?:[iu](?:8|16|32|64|128|size)))? |
    => | -> | :: | == | != | <= | >= | && | \|\| | \+= | -= | \*= | \.\. |
    [(){}\[\],;:.|&^!\-+*/%<>=?\#]
)""", re.X)
INT = {"u8": ("u", 1), "i8": ("s", 1), "u16": ("u", 2), "i16": ("s", 2), "u32": ("u", 4), "i32": ("s", 4),
       "u64": ("u", 8), "i64": ("s", 8), "usize": ("u", 8)}
KEYWORDS = {"let", "mut", "fn", "loop", "while", "for", "move", "else", "in", "ref", "break", "continue", "struct",
            "impl", "use", "mod", "pub", "if", "match", "unsafe", "return", "as"}


def tokenize(s):
    out, pos = [], 0
    s = s.strip()
    while pos < len(s):
        m = TOK.match(s, pos)
        if not m:
            raise ShapeError("cannot tokenize %r" % s[pos:pos + 40])
        tok = m.group(1)
        end = m.end()
        if tok[0].isdigit() and end < len(s) and (s[end].isalnum() or s[end] == "_"):
            raise ShapeError("numeric token not understood near %r" % s[pos:pos + 40])
        out.append(tok)
        pos = end
        while pos < len(s) and s[pos].isspace():
            pos += 1
    return out


# ------------------------------------------------------------------------------------------------ parser --
class P:
    def __init__(self, toks):
        self.t, self.i = toks, 0

    def peek(self, k=0):
        return self.t[self.i + k] if self.i + k < len(self.t) else None

    def eat(self, x=None):
        tok = self.peek()
        if tok is None or (x is not None and tok != x):
            raise ShapeError("expected %r, found %r near %r" % (x, tok, " ".join(self.t[max(0, self.i - 6):self.i + 6])))
        self.i += 1
        return tok

    def block(self):
        """stmt* up to the closing brace (not consumed)"""
        out = []
        while self.peek() not in ("}", None):
            tok = self.peek()
            if tok == "let":
                self.eat()
                name = self.eat()
                if not re.fullmatch(r"[a-z_][a-z0-9_]*", name) or name in KEYWORDS or name in ("self", "_"):
                    raise ShapeError("let pattern %r" % name)
                self.eat("=")
                e = self.expr()
                self.eat(";")
                out.append(("let", name, e))
            elif tok == "if":
                self.eat()
                c = self.expr()
                self.eat("{")
                b = self.block()
                self.eat("}")
                if self.peek() == "else":
                    raise ShapeError("`if` .. `else` statement")
                out.append(("if", c, b))
            elif tok == "unsafe":
                self.eat()
                self.eat("{")
                b = self.block()
                self.eat("}")
                out.append(("unsafe", b))
            elif tok == "return":
                self.eat()
                e = self.expr()
                self.eat(";")
                out.append(("return", e))
            else:
                e = self.expr()
                if self.peek() == "=":
                    self.eat()
                    r = self.expr()
                    self.eat(";")
                    out.append(("assign", e, r))
                elif self.peek() == ";":
                    self.eat()
                    out.append(("expr", e))
                elif self.peek() in ("}", None):
                    out.append(("tail", e))
                else:
                    raise ShapeError("statement not understood near %r" % self.peek())
        return out

    def expr(self):
        a = self.add()
        if self.peek() in ("<", "<=", ">", ">=", "==", "!="):
            op = self.eat()
            b = self.add()
            if self.peek() in ("<", "<=", ">", ">=", "==", "!="):
                raise ShapeError("chained comparison")
            return ("bin", op, a, b)
        if self.peek() in ("&&", "||", "|", "&", "^", "*", "/", "%", "+=", "-=", "*=", ".."):
            raise ShapeError("operator %r" % self.peek())
        return a

    def add(self):
        e = self.cast()
        while self.peek() in ("+", "-"):
            op = self.eat()
            e = ("bin", op, e, self.cast())
        return e

    def cast(self):
        e = self.unary()
        while self.peek() == "as":
            self.eat()
            e = ("as", e, self.eat())
        return e

    def unary(self):
        if self.peek() in ("!", "*"):
            op = self.eat()
            return ("un", op, self.unary())
        if self.peek() in ("-", "&", "&&"):
            raise ShapeError("unary %r" % self.peek())
        return self.postfix()

    def turbofish(self):
        if self.peek() == "::":
            self.eat()
            self.eat("<")
            ty = self.eat()
            self.eat(">")
            return ty
        return None

    def args(self):
        self.eat("(")
        out = []
        while self.peek() != ")":
            out.append(self.expr())
            if self.peek() == ",":
                self.eat()
            elif self.peek() != ")":
                raise ShapeError("argument list near %r" % self.peek())
        self.eat(")")
        return out

    def postfix(self):
        e = self.atom()
        while self.peek() in (".", "?"):
            if self.eat() == "?":
                e = ("try", e)
                continue
            name = self.eat()
            if re.fullmatch(r"\d+", name):
                e = ("field", e, name)
                continue
            if not re.fullmatch(r"[a-z_][a-z0-9_]*", name):
                raise ShapeError("method name %r" % name)
            tf = self.turbofish()
            if self.peek() != "(":
                raise ShapeError("field access .%s" % name)
            e = ("mcall", e, name, tf, self.args())
        return e

    def atom(self):
        tok = self.eat()
        if tok == "(":
            if self.peek() == ")":
                self.eat()
                return ("unit",)
            e = self.expr()
            self.eat(")")
            return e
        if tok == "match":
            s = self.expr()
            self.eat("{")
            arms = []
            while self.peek() != "}":
                pat = self.eat()
                if not re.fullmatch(r"Self::[A-Z][A-Za-z0-9]*", pat):
                    raise ShapeError("match pattern %r" % pat)
                self.eat("=>")
                arms.append((pat[len("Self::"):], self.expr()))
                if self.peek() == ",":
                    self.eat()
                elif self.peek() != "}":
                    raise ShapeError("match arm not followed by a comma")
            self.eat("}")
            return ("match", s, arms)
        if tok.startswith('"'):
            return ("str", tok)
        if tok[0].isdigit():
            m = re.fullmatch(r"(\d[\d_]*?)(?:_?([iu](?:8|16|32|64|128|size)))?", tok)
            return ("lit", int(m.group(1).replace("_", "")), m.group(2))
        if re.fullmatch(r"[A-Za-z_][A-Za-z0-9_:]*", tok):
            if tok in KEYWORDS:
                raise ShapeError("keyword %r in expression position" % tok)
            tf = self.turbofish()
            if self.peek() == "(":
                return ("call", tok, tf, self.args())
            if tf is not None:
                raise ShapeError("turbofish without a call")
            return ("id", tok)
        raise ShapeError("unexpected token %r" % tok)


# ----------------------------------------------------------------------------------------------- emitter --
def str_bytes(tok):
    body = tok[1:-1]
    if "\\" in body or any(ord(c) > 126 or ord(c) < 32 for c in body):
        raise ShapeError("string literal %s with escapes / non-ASCII" % tok)
    return "[" + "; ".join(str(ord(c)) for c in body) + "]"


class Em:
    """one copy_to body.  kind: ('str',) ('bytes',) ('num', T) ('bool8',) ('enum_str', ctor prefix, variants) ('enum_disc',)
    dest: the integer type behind Destination; errs: {variant: has payload}; impls: {type key: Gallina head}"""

    def __init__(self, kind, dest, errs, impls):
        self.kind, self.dest, self.errs, self.impls = kind, dest, errs, impls
        self.n = 0

    def fresh(self, b="t"):
        self.n += 1
        return "%s%d_" % (b, self.n)

    def lit(self, v, ty):
        if ty not in INT:
            raise ShapeError("literal %d at type %r" % (v, ty))
        sg, w = INT[ty]
        if not 0 <= v < 2 ** (8 * w - (1 if sg == "s" else 0)):
            raise ShapeError("literal %d does not fit %s" % (v, ty))
        return ("g_ret %d" % v, ty)

    def is_lit(self, e):
        return e[0] == "lit" and e[2] is None

    def ex(self, e, env, want=None):
        k = e[0]
        if k == "lit":
            ty = e[2] or want
            if ty is None:
                raise ShapeError("the type of the literal %d cannot be determined" % e[1])
            return self.lit(e[1], ty)
        if k == "id":
            if e[1] in env:
                return ("g_ret %s" % env[e[1]][0], env[e[1]][1])
            raise ShapeError("unknown identifier %r" % e[1])
        if k == "un" and e[1] == "!":
            a = self.ex(e[2], env, "bool")
            if a[1] != "bool":
                raise ShapeError("`!` of a %r" % (a[1],))
            x = self.fresh()
            return ("let! %s := %s in g_ret (negb %s)" % (x, a[0], x), "bool")
        if k == "un" and e[1] == "*":
            if e[2] == ("id", "dst_size"):
                return ("g_load_size", "usize")
            if e[2] == ("id", "self") and self.kind[0] == "num":
                return ("g_ret self", self.kind[1])
            if e[2] == ("id", "self") and self.kind[0] == "enum_disc":
                return ("g_ret self", "enum_disc")
            raise ShapeError("dereference of %r" % (e[2],))
        if k == "field":
            if e[1] == ("id", "self") and e[2] == "0" and self.kind[0] == "bool8":
                return ("g_ret self", "u8")
            raise ShapeError("field access %r" % (e[2],))
        if k == "as":
            a = self.ex(e[1], env, None)
            if a[1] != "enum_disc":
                raise ShapeError("`as` applied to a %r" % (a[1],))
            ty = self.dest if e[2] == "Self::Destination" else e[2]
            if ty != "i32":
                raise ShapeError("enum cast to %r" % (e[2],))
            return (a[0], ty)
        if k == "mcall":
            recv, name, tf, args = e[1], e[2], e[3], e[4]
            if recv == ("id", "self") and not args and tf is None:
                if name == "len" and self.kind[0] in ("str", "bytes"):
                    return ("g_ret (zlen self)", "usize")
                if name == "is_ascii" and self.kind[0] == "str":
                    return ("g_ret (s_is_ascii self)", "bool")
            if recv == ("id", "dst") and name == "is_null" and not args and tf is None:
                return ("g_is_null", "bool")
            raise ShapeError("method call .%s(..) in value position" % name)
        if k == "call":
            if e[1] == "std::mem::size_of" and not e[3]:
                if e[2] not in INT:
                    raise ShapeError("size_of::<%s>" % e[2])
                return ("g_ret %d" % INT[e[2]][1], "usize")
            raise ShapeError("call of %r" % e[1])
        if k == "bin":
            op, l, r = e[1], e[2], e[3]
            if self.is_lit(l) and not self.is_lit(r):
                b = self.ex(r, env, None)
                a = self.ex(l, env, b[1])
            else:
                a = self.ex(l, env, want if op in ("+", "-") else None)
                b = self.ex(r, env, a[1])
            if a[1] != b[1] or a[1] != "usize":
                raise ShapeError("operands of %s have types %r and %r" % (op, a[1], b[1]))
            x, y = self.fresh(), self.fresh()
            if op in ("+", "-"):
                return ("let! %s := %s in let! %s := %s in g_lift (%s 64 %s %s)"
                        % (x, a[0], y, b[0], "r_add" if op == "+" else "r_sub", x, y), "usize")
            c = {"==": "%s =? %s", "!=": "negb (%s =? %s)", "<": "%s <? %s", ">": "%s >? %s", "<=": "%s <=? %s",
                 ">=": "%s >=? %s"}[op] % (x, y)
            return ("let! %s := %s in let! %s := %s in g_ret (%s)" % (x, a[0], y, b[0], c), "bool")
        if k == "match":
            if e[1] != ("id", "self") or self.kind[0] != "enum_str":
                raise ShapeError("match on something other than self of a text enum")
            pre, variants = self.kind[1], self.kind[2]
            names = [a[0] for a in e[2]]
            if sorted(names) != sorted(variants) or len(set(names)) != len(names):
                raise ShapeError("match arms %r do not cover the enum %r exactly" % (names, variants))
            arms = []
            for v, body in e[2]:
                if body[0] != "str":
                    raise ShapeError("match arm that is not a string literal")
                arms.append("%s%s => %s" % (pre, v, str_bytes(body[1])))
            return ("g_ret (match self with %s end)" % " | ".join(arms), "str")
        raise ShapeError("expression kind %r" % k)

    def err(self, e):
        """Err(GenTlError::X) / Err(GenTlError::X("..".into()))"""
        if e[0] == "call" and e[1] == "Err" and e[2] is None and len(e[3]) == 1:
            x = e[3][0]
            if x[0] == "id" and x[1].startswith("GenTlError::"):
                v = x[1][len("GenTlError::"):]
                if v in self.errs and not self.errs[v]:
                    return "g_err (src_gc_error_code GE_%s)" % v
            if x[0] == "call" and x[1].startswith("GenTlError::") and x[2] is None and len(x[3]) == 1:
                v = x[1][len("GenTlError::"):]
                a = x[3][0]
                if v in self.errs and self.errs[v] and a[0] == "mcall" and a[1][0] == "str" and a[2] == "into" \
                        and not a[4]:
                    return "g_err (src_gc_error_code GE_%s)" % v
        raise ShapeError("`return` of something other than Err(GenTlError::..)")

    def comp(self, stmts, env, k):
        """the statements followed by the continuation k (a term of type gm unit, or None at the end of the function)"""
        if not stmts:
            if k is None:
                raise ShapeError("function body without a tail expression")
            return k
        st, rest = stmts[0], stmts[1:]
        if st[0] == "let":
            if self.is_lit(st[2]):
                raise ShapeError("the type of `let %s = <literal>` is not determined locally" % st[1])
            v = self.ex(st[2], env, None)
            env2 = dict(env)
            env2[st[1]] = ("v_" + st[1], v[1])
            return "let! v_%s := %s in %s" % (st[1], v[0], self.comp(rest, env2, k))
        if st[0] == "if":
            c = self.ex(st[1], env, "bool")
            if c[1] != "bool":
                raise ShapeError("condition of type %r" % (c[1],))
            if any(s[0] == "let" for s in st[2]):
                raise ShapeError("`let` inside a nested block")
            after = self.comp(rest, env, k)
            x = self.fresh("c")
            return "let! %s := %s in if %s then (%s) else (%s)" % (x, c[0], x, self.comp(st[2], env, after), after)
        if st[0] == "unsafe":
            if any(s[0] == "let" for s in st[1]):
                raise ShapeError("`let` inside a nested block")
            return self.comp(st[1] + rest, env, k)
        if st[0] == "return":
            return self.err(st[1])
        if st[0] == "assign":
            lhs = st[1]
            if lhs == ("un", "*", ("id", "dst_size")):
                v = self.ex(st[2], env, "usize")
                if v[1] != "usize":
                    raise ShapeError("*dst_size = <%r>" % (v[1],))
                x = self.fresh()
                return "let! %s := %s in let! _ := g_store_size %s in %s" % (x, v[0], x, self.comp(rest, env, k))
            if lhs == ("un", "*", ("id", "dst")):
                v = self.ex(st[2], env, self.dest)
                if v[1] != self.dest:
                    raise ShapeError("*dst = <%r> where Destination = %r" % (v[1], self.dest))
                x = self.fresh()
                return "let! %s := %s in let! _ := g_store_val %d %s in %s" % (x, v[0], INT[self.dest][1], x,
                                                                            self.comp(rest, env, k))
            raise ShapeError("assignment to %r" % (lhs,))
        if st[0] == "expr":
            e = st[1]
            if e[0] == "call" and e[1] == "std::ptr::copy_nonoverlapping" and e[2] is None and len(e[3]) == 3:
                src, dst, n = e[3]
                asptr = ("mcall", ("id", "self"), "as_ptr", None, [])
                ok_src = (self.kind[0] == "bytes" and self.dest == "u8" and src == asptr) or \
                         (self.kind[0] == "str" and self.dest == "i8" and src == ("mcall", asptr, "cast", "i8", []))
                if not ok_src or dst != ("id", "dst"):
                    raise ShapeError("copy_nonoverlapping with other pointers than self.as_ptr() / dst")
                v = self.ex(n, env, "usize")
                if v[1] != "usize":
                    raise ShapeError("copy_nonoverlapping count of type %r" % (v[1],))
                x = self.fresh()
                return "let! %s := %s in let! _ := g_copy self %s in %s" % (x, v[0], x, self.comp(rest, env, k))
            if e[0] == "mcall" and e[2] == "write" and e[3] is None and len(e[4]) == 1 and e[1][0] == "mcall" \
                    and e[1][1] == ("id", "dst") and e[1][2] == "add" and e[1][3] is None and len(e[1][4]) == 1:
                if INT[self.dest][1] != 1:
                    raise ShapeError("dst.add(..) on a destination wider than a byte")
                off = self.ex(e[1][4][0], env, "usize")
                b = self.ex(e[4][0], env, self.dest)
                if off[1] != "usize" or b[1] != self.dest:
                    raise ShapeError("dst.add(<%r>).write(<%r>)" % (off[1], b[1]))
                x, y = self.fresh(), self.fresh()
                return "let! %s := %s in let! %s := %s in let! _ := g_write_at %s [%s] in %s" % (
                    x, off[0], y, b[0], x, y, self.comp(rest, env, k))
            raise ShapeError("expression statement %r" % (e[:3],))
        if st[0] == "tail":
            if rest:
                raise ShapeError("tail expression followed by statements")
            e = st[1]
            if k is not None:
                raise ShapeError("value expression at the end of a nested block")
            if e == ("call", "Ok", None, [("unit",)]):
                return "g_ret tt"
            if e[0] == "mcall" and e[2] == "copy_to" and e[3] is None and e[4] == [("id", "dst"), ("id", "dst_size")] \
                    and e[1][0] == "id" and e[1][1] in env:
                var, ty = env[e[1][1]]
                if ty not in self.impls:
                    raise ShapeError("copy_to of a %r" % (ty,))
                want_dest = "i8" if ty == "str" else ty
                if want_dest != self.dest:
                    raise ShapeError("forwarding to an impl with another Destination")
                return "%s %s" % (self.impls[ty], var)
            raise ShapeError("tail expression %r" % (e[:3],))
        raise ShapeError("statement kind %r" % st[0])


# --------------------------------------------------------------------------------------------- translate --
TRAIT = norm("""trait CopyTo { type Destination;
    fn copy_to(&self, dst: *mut Self::Destination, dst_size: *mut libc::size_t) -> GenTlResult<()>;
    fn info_data_type() -> INFO_DATATYPE; }""")
COPY_INFO = norm("""fn copy_info<T: CopyTo>( src: T, dst: *mut libc::c_void, dst_size: *mut libc::size_t, )
    -> GenTlResult<INFO_DATATYPE> { src.copy_to(dst.cast::<<T as CopyTo>::Destination>(), dst_size)?;
    Ok(T::info_data_type()) }""")
FORWARD = [norm(x) for x in (
    "impl From<GenTlError> for GC_ERROR { fn from(val: GenTlError) -> Self { (&val).into() } }",
    "impl<T> From<GenTlResult<T>> for GC_ERROR { fn from(val: GenTlResult<T>) -> Self { match val { Ok(..) => GC_ERROR(0), Err(e) => e.into(), } } }",
    "impl<T> From<&GenTlResult<T>> for GC_ERROR { fn from(val: &GenTlResult<T>) -> Self { match val { Ok(..) => GC_ERROR(0), Err(e) => e.into(), } } }")]
SIG = norm("fn copy_to(&self, dst: *mut Self::Destination, dst_size: *mut libc::size_t) -> GenTlResult<()>")
DEST = {"libc::c_char": "i8", "u8": "u8", "i16": "i16", "u16": "u16", "i32": "i32", "u32": "u32", "i64": "i64",
        "u64": "u64"}
TEXT_ENUMS = {"imp::port::TlType": ("TlType", "TL_", os.path.join("gentl", "src", "imp", "port.rs")),
              "imp::port::ModuleType": ("ModuleType", "MT_", os.path.join("gentl", "src", "imp", "port.rs"))}
DISC_ENUM = ("imp::device::DeviceAccessStatus", "DeviceAccessStatus", os.path.join("gentl", "src", "imp", "device", "mod.rs"))
NUMERIC = ["i16", "u16", "i32", "u32", "i64", "u64"]


def enum_variants(repo, rel, name, with_disc=False):
    src = strip_comments(open(os.path.join(repo, rel)).read())
    ms = list(re.finditer(r"enum\s+%s\s*\{" % name, src))
    if len(ms) != 1:
        raise ShapeError("%d definitions of enum %s in %s" % (len(ms), name, rel))
    body, _ = block_after(src, ms[0].end() - 1)
    out = []
    for item in body.split(","):
        item = item.strip()
        if not item:
            continue
        m = re.fullmatch(r"([A-Z][A-Za-z0-9]*)\s*(?:=\s*(\d+))?", item)
        if not m or (with_disc and m.group(2) is None) or (not with_disc and m.group(2) is not None):
            raise ShapeError("enum %s: variant %r" % (name, item))
        out.append((m.group(1), int(m.group(2))) if with_disc else m.group(1))
    return out


def parse_error_table(repo, src):
    ms = list(re.finditer(r"impl\s+From<&GenTlError>\s+for\s+GC_ERROR\s*\{", src))
    if len(ms) != 1:
        raise ShapeError("impl From<&GenTlError> for GC_ERROR not found once")
    body, _ = block_after(src, ms[0].end() - 1)
    m = re.fullmatch(r"\s*fn from\(val: &GenTlError\) -> Self \{\s*use GenTlError::\{([^}]*)\};\s*let code: i32 = match val \{(.*?)\};"
                     r"\s*GC_ERROR\(code\)\s*\}\s*", body, flags=re.S)
    if not m:
        raise ShapeError("From<&GenTlError> for GC_ERROR is not `use ..; let code: i32 = match val {..}; GC_ERROR(code)`")
    used = [x.strip() for x in m.group(1).split(",") if x.strip()]
    table = []
    for arm in m.group(2).split(","):
        arm = arm.strip()
        if not arm:
            continue
        am = re.fullmatch(r"([A-Z][A-Za-z0-9]*)(\(\.\.\))?\s*=>\s*(-?\d+)", arm)
        if not am:
            raise ShapeError("error code arm %r" % arm)
        v = int(am.group(3))
        if not -2 ** 31 <= v < 2 ** 31:
            raise ShapeError("error code %d is not an i32" % v)
        table.append((am.group(1), am.group(2) is not None, v))
    names = [t[0] for t in table]
    if len(set(names)) != len(names) or sorted(names) != sorted(used):
        raise ShapeError("the arms of the error code match and the `use GenTlError::{..}` list differ")
    # the enum itself (gentl/src/lib.rs): the same variants, payload exactly where the arm says `(..)`
    lib = strip_comments(open(os.path.join(repo, "gentl", "src", "lib.rs")).read())
    em = list(re.finditer(r"\benum GenTlError\s*\{", lib))
    if len(em) != 1:
        raise ShapeError("enum GenTlError not found once in gentl/src/lib.rs")
    ebody, _ = block_after(lib, em[0].end() - 1)
    ebody = re.sub(r"#\[[^\]]*\]", "", ebody)
    decl = []
    depth, cur = 0, ""
    for ch in ebody:
        if ch in "(<":
            depth += 1
        elif ch in ")>":
            depth -= 1
        if ch == "," and depth == 0:
            decl.append(cur.strip())
            cur = ""
        else:
            cur += ch
    if cur.strip():
        decl.append(cur.strip())
    dv = []
    for d in decl:
        dm = re.fullmatch(r"([A-Z][A-Za-z0-9]*)\s*(\(.*\))?", d, flags=re.S)
        if not dm:
            raise ShapeError("enum GenTlError: variant %r" % d)
        dv.append((dm.group(1), dm.group(2) is not None))
    if sorted(dv) != sorted((t[0], t[1]) for t in table):
        raise ShapeError("enum GenTlError and the error code match name different variants / payloads")
    nsrc = norm(src)
    for f in FORWARD:
        if nsrc.count(f) != 1:
            raise ShapeError("a forwarding From impl for GC_ERROR is not the pinned one")
    if len(re.findall(r"\bfor\s+GC_ERROR\b", src)) != 4:
        raise ShapeError("number of From impls for GC_ERROR")
    return table


def parse_idt(src):
    ms = list(re.finditer(r"newtype_enum!\s*\{\s*pub enum INFO_DATATYPE\s*\{", src))
    if len(ms) != 1:
        raise ShapeError("newtype_enum! INFO_DATATYPE not found once")
    body, _ = block_after(src, ms[0].end() - 1)
    out = []
    for item in body.split(","):
        item = item.strip()
        if not item:
            continue
        m = re.fullmatch(r"(INFO_DATATYPE_[A-Z0-9]+)\s*=\s*(\d+)", item)
        if not m:
            raise ShapeError("INFO_DATATYPE item %r" % item)
        out.append((m.group(1), int(m.group(2))))
    if len(set(n for n, _ in out)) != len(out):
        raise ShapeError("INFO_DATATYPE: repeated name")
    return out


def impl_items(body, what):
    """(Destination as written, copy_to body text, info_data_type body text) of one impl block"""
    m = re.match(r"\s*type Destination = ([A-Za-z0-9_:]+);\s*", body)
    if not m:
        raise ShapeError("%s: `type Destination = ..;` first" % what)
    pos = m.end()
    fm = re.compile(r"\s*fn copy_to\s*\(").match(body, pos)
    if not fm:
        raise ShapeError("%s: fn copy_to second" % what)
    brace = body.index("{", fm.start())
    if norm(body[fm.start():brace]).replace(",)", ")") != SIG:
        raise ShapeError("%s: signature of copy_to" % what)
    cbody, pos = block_after(body, brace)
    im = re.compile(r"\s*fn info_data_type\(\) -> INFO_DATATYPE\s*\{").match(body, pos)
    if not im:
        raise ShapeError("%s: fn info_data_type third" % what)
    ibody, pos = block_after(body, im.end() - 1)
    if body[pos:].strip():
        raise ShapeError("%s: items after info_data_type" % what)
    return m.group(1), cbody, ibody.strip()


def translate(repo):
    raw = open(os.path.join(repo, REL)).read()
    src = strip_comments(raw)
    table = parse_error_table(repo, src)
    errs = {n: p for n, p, _ in table}
    idt = dict(parse_idt(src))
    nsrc = norm(src)
    if nsrc.count(TRAIT) != 1 or len(re.findall(r"\btrait\s+CopyTo\b", src)) != 1:
        raise ShapeError("trait CopyTo is not the pinned one")
    if nsrc.count(COPY_INFO) != 1:
        raise ShapeError("fn copy_info is not the pinned one")
    if "bool8_t(u8);" not in nsrc or norm("pub struct bool8_t(u8);") not in nsrc:
        raise ShapeError("struct bool8_t(u8)")

    # the macro and its invocations, expanded textually into impl blocks
    mm = list(re.finditer(r"macro_rules!\s*impl_copy_to_for_numeric\s*\{", src))
    if len(mm) != 1:
        raise ShapeError("macro_rules! impl_copy_to_for_numeric not found once")
    mtext, mend = block_after(src, mm[0].end() - 1)
    rm = re.fullmatch(r"\s*\(\s*\$ty:ty\s*,\s*\$info_data_type:expr\s*\)\s*=>\s*\{(.*)\}\s*;?\s*", mtext, flags=re.S)
    if not rm:
        raise ShapeError("impl_copy_to_for_numeric! is not the single rule ($ty:ty, $info_data_type:expr)")
    mbody = rm.group(1)
    outside = src[:mm[0].start()] + src[mend:]
    invs = re.findall(r"\bimpl_copy_to_for_numeric!\s*\(\s*([A-Za-z0-9_]+)\s*,\s*([A-Za-z0-9_:]+)\s*\)\s*;", outside)
    if len(invs) != len(re.findall(r"\bimpl_copy_to_for_numeric!", outside)):
        raise ShapeError("an invocation of impl_copy_to_for_numeric! is not (<type>, <path>)")
    if [i[0] for i in invs] != NUMERIC:
        raise ShapeError("impl_copy_to_for_numeric! is invoked for %r, not %r" % ([i[0] for i in invs], NUMERIC))
    expanded = []
    for ty, info in invs:
        t = re.sub(r"\$ty\b", ty, mbody)
        t = re.sub(r"\$info_data_type\b", info, t)
        if "$" in t:
            raise ShapeError("macro variable left after the expansion")
        expanded.append(t)

    impls = []          # (type as written, block body)
    for text, origin in [(outside, "file")] + [(t, "macro") for t in expanded]:
        for m in re.finditer(r"\bimpl\s+CopyTo\s+for\s+([^{]+?)\s*\{", text):
            body, _ = block_after(text, m.end() - 1)
            impls.append((m.group(1).strip(), body))
        if len(re.findall(r"\bCopyTo\s+for\b", text)) != len(list(re.finditer(r"\bimpl\s+CopyTo\s+for\s+([^{]+?)\s*\{", text))):
            raise ShapeError("an `impl .. CopyTo for` of another shape")
    expect = ["&str", "&[u8]", "imp::port::TlType", "imp::port::ModuleType", "bool8_t", DISC_ENUM[0]] + NUMERIC
    if [i[0] for i in impls] != expect:
        raise ShapeError("the implementations of CopyTo are %r, not %r" % ([i[0] for i in impls], expect))
    by = dict(impls)

    def info_type(ibody, what):
        m = re.fullmatch(r"INFO_DATATYPE::(INFO_DATATYPE_[A-Z0-9]+)", ibody)
        if not m or m.group(1) not in idt:
            raise ShapeError("%s: info_data_type() returns %r" % (what, ibody))
        return m.group(1)

    defs = []           # (name, parameter text, body term, info type name)
    heads = {}

    def one(key, tykey, kind, name, param, want_dest=None):
        dest_w, cbody, ibody = impl_items(by[key], "impl CopyTo for " + key)
        if dest_w not in DEST:
            raise ShapeError("impl CopyTo for %s: Destination = %s" % (key, dest_w))
        dest = DEST[dest_w]
        if want_dest is not None and dest != want_dest:
            raise ShapeError("impl CopyTo for %s: Destination = %s" % (key, dest_w))
        p = P(tokenize(cbody))
        stmts = p.block()
        if p.peek() is not None:
            raise ShapeError("impl CopyTo for %s: trailing tokens" % key)
        em = Em(kind, dest, errs, dict(heads))
        term = em.comp(stmts, {}, None)
        defs.append((name, param, term, info_type(ibody, key)))
        if tykey:
            heads[tykey] = "src_copy_to_" + name

    one("&str", "str", ("str",), "str", "(self : list Z)", "i8")
    one("&[u8]", None, ("bytes",), "bytes", "(self : list Z)", "u8")
    one("bool8_t", None, ("bool8",), "bool8", "(self : Z)", "u8")
    for ty in NUMERIC:
        one(ty, ty, ("num", ty), ty, "(self : Z)", ty)
    enums = []
    for key in ("imp::port::TlType", "imp::port::ModuleType"):
        ename, pre, rel = TEXT_ENUMS[key]
        vs = enum_variants(repo, rel, ename)
        enums.append((ename, pre, vs))
        one(key, None, ("enum_str", pre, vs), ename, "(self : src_%s)" % ename, "i8")
    disc = enum_variants(repo, DISC_ENUM[2], DISC_ENUM[1], with_disc=True)
    for _, v in disc:
        if not 0 <= v < 2 ** 31:
            raise ShapeError("discriminant %d of DeviceAccessStatus is not an i32" % v)
    one(DISC_ENUM[0], None, ("enum_disc",), DISC_ENUM[1], "(self : Z)", "i32")
    return dict(table=table, idt=sorted(idt.items(), key=lambda x: x[1]), defs=defs, enums=enums, disc=disc)


def wrap(s, width=116, ind="    "):
    out, line = [], ""
    for w in s.split(" "):
        if len(line) + len(w) + 1 > width and line:
            out.append(line)
            line = ind + w
        else:
            line = (line + " " + w) if line else w
    out.append(line)
    return "\n".join(out)


def render(t):
    o = []
    o.append("(* GENERATED by tools/translate_gentl.py from gentl/src/ffi/mod.rs - do not edit.\n"
             "   Raw-pointer operations of model/GtlOps.v (state = the NULL flag of dst, the cell behind dst_size, the caller's\n"
             "   buffer); debug-build usize arithmetic of lib/RustInt.v.  gentl_error = the variants of GenTlError named by\n"
             "   `impl From<&GenTlError> for GC_ERROR` (payloads dropped); the error class of a failing copy_to is the C code of\n"
             "   its GenTlError.  A `&str` / `&[u8]` is the list of its bytes, an integer its value, a bool8_t its field 0,\n"
             "   a DeviceAccessStatus its discriminant (src_DeviceAccessStatus_discriminants). *)")
    o.append("From Cam Require Import Outcome RustInt Bytes GtlOps.\n")
    o.append(wrap("Inductive gentl_error := " + " | ".join("GE_" + n for n, _, _ in t["table"]) + "."))
    o.append(wrap("Definition src_gentl_errors : list gentl_error := [" + "; ".join("GE_" + n for n, _, _ in t["table"]) + "]."))
    o.append("Definition src_gc_error_code (e : gentl_error) : Z :=\n  match e with\n" +
             "\n".join("  | GE_%s => %d" % (n, v) for n, _, v in t["table"]) + "\n  end.")
    o.append("Definition src_gc_ok_code : Z := 0.\n")
    for n, v in t["idt"]:
        o.append("Definition src_idt_%s : Z := %d." % (n[len("INFO_DATATYPE_"):], v))
    o.append("")
    for ename, pre, vs in t["enums"]:
        o.append("Inductive src_%s := %s." % (ename, " | ".join(pre + v for v in vs)))
    o.append(wrap("Definition src_DeviceAccessStatus_discriminants : list Z := [" + "; ".join(str(v) for _, v in t["disc"]) + "]."))
    o.append("")
    order = {"TlType": 100, "ModuleType": 101, "DeviceAccessStatus": 102}
    for name, param, term, info in sorted(t["defs"], key=lambda d: order.get(d[0], 0)):
        o.append(wrap("Definition src_copy_to_%s %s : gm unit :=" % (name, param)))
        o.append(wrap(term + ".", ind="    "))
        o.append("Definition src_info_type_%s : Z := src_idt_%s.\n" % (name, info[len("INFO_DATATYPE_"):]))
    o.append("(* fn copy_info<T: CopyTo>(src, dst, dst_size): src.copy_to(dst.cast(), dst_size)?; Ok(T::info_data_type()) *)")
    o.append("Definition src_copy_info {A} (copy_to : A -> gm unit) (info_type : Z) (src : A) : gm Z :=\n"
             "  let! _ := copy_to src in g_ret info_type.")
    return "\n".join(o) + "\n"


def regenerate(repo=None, out=None):
    repo = repo or os.environ.get("VERIF_REPO", "/repo")
    out = out or OUT
    t = translate(repo)
    text = render(t)
    old = open(out).read() if os.path.exists(out) else None
    if old != text:
        with open(out, "w") as f:
            f.write(text)
    return t


if __name__ == "__main__":
    try:
        regenerate(sys.argv[1] if len(sys.argv) > 1 else None, sys.argv[2] if len(sys.argv) > 2 else None)
    except ShapeError as e:
        print("ShapeError:", e)
        sys.exit(1)
    print(open(sys.argv[2] if len(sys.argv) > 2 else OUT).read())
