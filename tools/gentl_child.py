#!/usr/bin/env python3
"""Out-of-process driver of libcameleon_gentl.so (C19).

The GenTL producer keeps process-global state (library init flag, one static system module with
one interface module, thread-local last error) and a Rust panic inside `extern "C"` aborts the
process.  Every case (one call sequence) therefore runs in its own process: this driver loads the
library once with ctypes (dlopen runs no Rust code; the lazy statics are created by the first
call) and forks one child per input line.  The child performs the calls, streams one length-prefixed
result per call through a pipe and exits; a child that dies (abort, SIGSEGV) or hangs is itself
the observation: the parent appends the marker -9 (died) / -8 (hung) after the results of the
calls that completed.

environment: GENTL_SO = path of the shared library, GENTL_CWD = directory to run in
             (<repo>/gentl; SystemModule::full_path canonicalises ../gentl/src/imp/system/mod.rs)
stdin : one JSON array of calls per line; a call is [name, args...]:
   ["GCInitLib"] ["GCCloseLib"] ["CGCGetInfo"] ["TLOpen"] ["TLClose",h] ["IFClose",h]
   ["GCGetLastError",cap]                         cap = -1: NULL text buffer
   ["TLGetInfo",h,cmd,cap] ["IFGetInfo",h,cmd,cap] ["GCGetPortInfo",h,cmd,cap]
   ["GCGetPortURL",h,cap] ["GCGetPortURLInfo",h,idx,cmd,cap]
   ["TLGetInterfaceID",h,idx,cap] ["TLGetInterfaceInfo",h,idhex,cmd,cap] ["TLOpenInterface",h,idhex]
   ["TLGetNumInterfaces",h] ["IFGetNumDevices",h] ["GCGetNumPortURLs",h]
   ["TLUpdateInterfaceList",h] ["IFUpdateDeviceList",h] ["IFGetParentTL",h]
   ["IFGetDeviceID",h,idx,cap] ["IFGetDeviceInfo",h,idhex,cmd,cap] ["IFOpenDevice",h,idhex,flag]
   ["GCReadPort",h,addr,size] ["GCWritePort",h,addr,datahex,extra]
   ["GCReadPortStacked",h,[[addr,size],...]] ["GCWritePortStacked",h,[[addr,datahex],...]]
   ["thread", [calls...]]                         the calls run on a second thread (own last error)
 h = index of the handle in the order the API handed handles out (0,1,..), -1 = NULL.  A call
 naming a handle that does not exist or was closed is NOT made (dangling pointer = undefined
 behaviour, outside the property): result [-7].
 cap = -1 passes a NULL buffer (and *piSize = 0); otherwise a buffer of cap bytes followed by 16
 guard bytes, everything pre-filled with 0xA5.
stdout: per line one line of integers: for each call  n r1..rn ; then -9 / -8 if the child died / hung.
"""
import ctypes as C
import json
import os
import select
import signal
import sys

GUARD = 16
FILL = 0xA5
MAXREAL = 65536        # port buffers up to this size are real; a larger claimed size gets 64 real bytes:
                       # a correct library never dereferences it (both register maps are far smaller)


def real_len(n):
    return n if n <= MAXREAL else 64

lib = None


def load():
    global lib
    os.chdir(os.environ["GENTL_CWD"])
    lib = C.CDLL(os.environ["GENTL_SO"])
    vp, sz, i32, u32, u64 = C.c_void_p, C.c_size_t, C.c_int32, C.c_uint32, C.c_uint64
    P = C.POINTER
    sig = {
        "GCInitLib": [], "GCCloseLib": [],
        "CGCGetInfo": [i32, i32, vp, P(sz)],
        "GCGetLastError": [P(i32), vp, P(sz)],
        "TLOpen": [P(vp)], "TLClose": [vp],
        "TLGetInfo": [vp, i32, P(i32), vp, P(sz)],
        "TLGetInterfaceID": [vp, u32, vp, P(sz)],
        "TLGetInterfaceInfo": [vp, C.c_char_p, i32, P(i32), vp, P(sz)],
        "TLGetNumInterfaces": [vp, P(u32)],
        "TLOpenInterface": [vp, C.c_char_p, P(vp)],
        "TLUpdateInterfaceList": [vp, P(C.c_uint8), u64],
        "IFClose": [vp],
        "IFGetInfo": [vp, i32, P(i32), vp, P(sz)],
        "IFGetDeviceID": [vp, u32, vp, P(sz)],
        "IFGetDeviceInfo": [vp, C.c_char_p, i32, P(i32), vp, P(sz)],
        "IFGetNumDevices": [vp, P(u32)],
        "IFOpenDevice": [vp, C.c_char_p, i32, P(vp)],
        "IFUpdateDeviceList": [vp, P(C.c_uint8), u64],
        "IFGetParentTL": [vp, P(vp)],
        "GCGetPortInfo": [vp, i32, P(i32), vp, P(sz)],
        "GCGetPortURL": [vp, vp, P(sz)],
        "GCGetNumPortURLs": [vp, P(u32)],
        "GCGetPortURLInfo": [vp, u32, i32, P(i32), vp, P(sz)],
        "GCReadPort": [vp, u64, vp, P(sz)],
        "GCWritePort": [vp, u64, vp, P(sz)],
        "GCReadPortStacked": [vp, vp, P(sz)],
        "GCWritePortStacked": [vp, vp, P(sz)],
    }
    for n, a in sig.items():
        f = getattr(lib, n)
        f.argtypes = a
        f.restype = i32


class Entry(C.Structure):
    _fields_ = [("Address", C.c_uint64), ("pBuffer", C.c_void_p), ("Size", C.c_size_t)]


class Buf:
    """cap real bytes + guard, pre-filled; NULL when cap < 0."""

    def __init__(self, cap, real=None):
        self.cap = cap
        if cap < 0:
            self.raw = None
            self.ptr = None
            self.real = 0
        else:
            self.real = cap if real is None else real
            self.raw = (C.c_ubyte * (self.real + GUARD))(*([FILL] * (self.real + GUARD)))
            self.ptr = C.cast(self.raw, C.c_void_p)

    def bytes(self):
        return [] if self.raw is None else list(self.raw[:self.real])

    def guard_ok(self):
        if self.raw is None:
            return 1
        return 1 if all(b == FILL for b in self.raw[self.real:self.real + GUARD]) else 0


class Runner:
    def __init__(self):
        self.handles = []     # [pointer value, live, parent pointer value]

    def h(self, i):
        """-> (usable, pointer)"""
        if i == -1:
            return True, None
        if 0 <= i < len(self.handles) and self.handles[i][1]:
            return True, self.handles[i][0]
        return False, None

    def info(self, fn, pre, cap):
        """common shape of the info queries: fn(*pre, &type, buf, &size)"""
        b = Buf(cap)
        ty = C.c_int32(-77)
        sz = C.c_size_t(max(cap, 0))
        r = fn(*pre, C.byref(ty), b.ptr, C.byref(sz))
        return [r, ty.value, sz.value] + b.bytes() + [b.guard_ok()]

    def strq(self, fn, pre, cap):
        """string queries without a type: fn(*pre, buf, &size)"""
        b = Buf(cap)
        sz = C.c_size_t(max(cap, 0))
        r = fn(*pre, b.ptr, C.byref(sz))
        return [r, sz.value] + b.bytes() + [b.guard_ok()]

    def call(self, c):
        n = c[0]
        if n == "thread":
            import threading
            out = []

            def body():
                for cc in c[1]:
                    r = self.call(cc)
                    out.extend([len(r)] + r)
            t = threading.Thread(target=body)
            t.start()
            t.join()
            return out
        if n in ("GCInitLib", "GCCloseLib"):
            return [getattr(lib, n)()]
        if n == "CGCGetInfo":
            sz = C.c_size_t(0)
            return [lib.CGCGetInfo(0, 0, None, C.byref(sz))]
        if n == "GCGetLastError":
            cap = c[1]
            b = Buf(cap)
            code = C.c_int32(12345)
            sz = C.c_size_t(max(cap, 0))
            r = lib.GCGetLastError(C.byref(code), b.ptr, C.byref(sz))
            ok = 1
            if r == 0:
                if cap >= 0:
                    bs = b.bytes()
                    n_ = sz.value
                    ok = 1 if (1 <= n_ <= cap and bs[n_ - 1] == 0 and 0 not in bs[:n_ - 1]
                               and all(x == FILL for x in bs[n_:]) and b.guard_ok()) else 0
                else:
                    ok = 1 if sz.value >= 1 else 0
            else:
                ok = 1 if (all(x == FILL for x in b.bytes()) and b.guard_ok() and sz.value == max(cap, 0)) else 0
            return [r, code.value, ok]
        if n == "TLOpen":
            hp = C.c_void_p(0)
            r = lib.TLOpen(C.byref(hp))
            if r == 0 and hp.value:
                self.handles.append([hp.value, True, None])
                return [r, len(self.handles) - 1]
            return [r, -1]
        ok, p = self.h(c[1])
        if not ok:
            return [-7]
        if n in ("TLClose", "IFClose"):
            r = getattr(lib, n)(p)
            if r == 0 and c[1] >= 0:
                self.handles[c[1]][1] = False
            return [r]
        if n == "TLOpenInterface":
            hp = C.c_void_p(0)
            r = lib.TLOpenInterface(p, bytes.fromhex(c[2]), C.byref(hp))
            if r == 0 and hp.value:
                self.handles.append([hp.value, True, p])
                return [r, len(self.handles) - 1]
            return [r, -1]
        if n == "IFOpenDevice":
            hp = C.c_void_p(0)
            r = lib.IFOpenDevice(p, bytes.fromhex(c[2]), c[3], C.byref(hp))
            if r == 0 and hp.value:
                self.handles.append([hp.value, True, p])
                return [r, len(self.handles) - 1]
            return [r, -1]
        if n in ("TLGetNumInterfaces", "IFGetNumDevices", "GCGetNumPortURLs"):
            v = C.c_uint32(0xDEAD)
            r = getattr(lib, n)(p, C.byref(v))
            return [r, v.value]
        if n in ("TLUpdateInterfaceList", "IFUpdateDeviceList"):
            v = C.c_uint8(0x5A)
            r = getattr(lib, n)(p, C.byref(v), 0)
            return [r, v.value]
        if n == "IFGetParentTL":
            hp = C.c_void_p(0x1)
            r = lib.IFGetParentTL(p, C.byref(hp))
            same = 0
            if r == 0 and c[1] >= 0:
                same = 1 if hp.value == self.handles[c[1]][2] else 0
            return [r, same]
        if n in ("TLGetInfo", "IFGetInfo", "GCGetPortInfo"):
            return self.info(getattr(lib, n), (p, c[2]), c[3])
        if n == "GCGetPortURLInfo":
            return self.info(lib.GCGetPortURLInfo, (p, c[2], c[3]), c[4])
        if n in ("TLGetInterfaceInfo", "IFGetDeviceInfo"):
            return self.info(getattr(lib, n), (p, bytes.fromhex(c[2]), c[3]), c[4])
        if n == "GCGetPortURL":
            return self.strq(lib.GCGetPortURL, (p,), c[2])
        if n in ("TLGetInterfaceID", "IFGetDeviceID"):
            return self.strq(getattr(lib, n), (p, c[2]), c[3])
        if n == "GCReadPort":
            addr, size = c[2], c[3]
            b = Buf(size, real=real_len(size))
            sz = C.c_size_t(size)
            r = lib.GCReadPort(p, addr, b.ptr, C.byref(sz))
            return [r, sz.value] + b.bytes() + [b.guard_ok()]
        if n == "GCWritePort":
            addr, data, extra = c[2], bytes.fromhex(c[3]), c[4]
            total = len(data) + extra
            real = data + (bytes(extra) if extra <= MAXREAL else b"")
            raw = (C.c_ubyte * (len(real) + GUARD))(*(list(real) + [0] * GUARD))
            sz = C.c_size_t(total)
            r = lib.GCWritePort(p, addr, C.cast(raw, C.c_void_p), C.byref(sz))
            return [r, sz.value]
        if n == "GCReadPortStacked":
            ents = c[2]
            arr = (Entry * max(1, len(ents)))()
            bufs = []
            for i, (a, s) in enumerate(ents):
                b = Buf(s, real=real_len(s))
                bufs.append(b)
                arr[i].Address, arr[i].pBuffer, arr[i].Size = a, b.ptr.value, s
            num = C.c_size_t(len(ents))
            r = lib.GCReadPortStacked(p, C.cast(arr, C.c_void_p), C.byref(num))
            out = [r, num.value]
            for b in bufs:
                out += b.bytes() + [b.guard_ok()]
            return out
        if n == "GCWritePortStacked":
            ents = c[2]
            arr = (Entry * max(1, len(ents)))()
            keep = []
            for i, (a, dh) in enumerate(ents):
                d = bytes.fromhex(dh)
                raw = (C.c_ubyte * (len(d) + GUARD))(*(list(d) + [0] * GUARD))
                keep.append(raw)
                arr[i].Address, arr[i].pBuffer, arr[i].Size = a, C.cast(raw, C.c_void_p).value, len(d)
            num = C.c_size_t(len(ents))
            r = lib.GCWritePortStacked(p, C.cast(arr, C.c_void_p), C.byref(num))
            return [r, num.value]
        raise ValueError("unknown call %r" % (n,))


def run_case(calls, wfd):
    r = Runner()
    for c in calls:
        res = r.call(c)
        if c[0] != "thread":
            res = [len(res)] + res
        os.write(wfd, (" ".join(str(x) for x in res) + " ").encode())


def main():
    load()
    timeout = float(os.environ.get("GENTL_CASE_TIMEOUT", "20"))
    devnull = os.open(os.devnull, os.O_WRONLY)
    for line in sys.stdin:
        line = line.strip()
        if not line:
            print("")
            continue
        calls = json.loads(line)
        rfd, wfd = os.pipe()
        pid = os.fork()
        if pid == 0:
            try:
                os.close(rfd)
                os.dup2(devnull, 2)          # panic messages are not part of the observation
                run_case(calls, wfd)
                os._exit(0)
            except BaseException:
                os._exit(3)
        os.close(wfd)
        chunks = []
        hung = False
        while True:
            rl, _, _ = select.select([rfd], [], [], timeout)
            if not rl:
                hung = True
                os.kill(pid, signal.SIGKILL)
                break
            d = os.read(rfd, 1 << 16)
            if not d:
                break
            chunks.append(d)
        os.close(rfd)
        _, st = os.waitpid(pid, 0)
        out = b"".join(chunks).decode().split()
        if hung:
            out.append("-8")
        elif os.WIFEXITED(st) and os.WEXITSTATUS(st) == 3:
            out.append("-6")                 # the driver itself failed (not an observation)
        elif not (os.WIFEXITED(st) and os.WEXITSTATUS(st) == 0):
            out.append("-9")
        sys.stdout.write(" ".join(out) + "\n")
        sys.stdout.flush()


if __name__ == "__main__":
    main()
