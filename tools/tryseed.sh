#!/bin/sh
# usage: tools/tryseed.sh <patch.diff> <Cxx> [more Cxx...]   — apply a seeded change to /repo, run quick checks, undo.
P="$(realpath "$1")"; shift
cd /verif
git -C /repo apply "$P" || { echo "patch does not apply"; exit 3; }
for c in "$@"; do
  ./check "$c" quick 2>&1 | tail -8
  echo "== $c rc=$?"
done
git -C /repo checkout -- .
git -C /repo status --short | head
