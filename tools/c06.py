"""C06 — device memory transfers are exact for any size under any negotiated limits."""
import json
import sys

from ctlcase import (OPEN, READ, WRITEPAT, DUMP, RETRY, CLOSE, ctl_case, model_term, parse_output, show_data, std_world,
                     pattern)
from vplib import Check, Rng, _clip

DATA = 0x100000
DATA_LEN = 0x48000          # 288 KiB of patterned device memory


def build(max_cmd, max_ack, ops, pend=None, retry=None, resp_ms=5, addr_base=DATA, data_len=None, busy=None, slow=None):
    """ops: list of ('r', addr, n) | ('w', addr, n, seed).  pend: list of pending counts per
    transaction after open (cycled)."""
    w = std_world(max_cmd, max_ack, resp_ms)
    # device memory just large enough for the history (the model's cost grows with the image size)
    ext = max([o[1] + o[2] - addr_base for o in ops] + [0]) + 64
    if data_len is None:
        data_len = min(DATA_LEN, (ext + 255) // 256 * 256)
    w.fill(addr_base, data_len, 11)
    toks = []
    expect = []
    wtoks = list(w.toks)
    optoks = []
    if retry is not None:
        optoks += [RETRY, retry]
        expect.append(("ok", None))
    optoks += [OPEN]
    expect.append(("ok", None))
    chunk_r = max(1, min(max_ack - 12, 65535))
    chunk_w = max(1, max_cmd - 20)
    ntx_open = 6
    plans = []
    ntx = 0
    for op in ops:
        if op[0] == "r":
            _, a, n = op
            optoks += [READ, a, n]
            expect.append(("ok", show_data(w.read(a, n))))
            ntx += -(-n // chunk_r)
        else:
            _, a, n, seed = op
            optoks += [WRITEPAT, a, n, seed]
            w.write(a, pattern(n, seed))
            expect.append(("ok", None))
            ntx += sum(-(-min(65527, n - o) // chunk_w) for o in range(0, n, 65527))
            lo = max(addr_base, a - 8)
            hi = min(addr_base + data_len, a + n + 8)
            optoks += [DUMP, lo, hi - lo]
            expect.append(("ok", show_data(w.read(lo, hi - lo))))
    if pend:
        wtoks += [6, ntx_open]
        for k in range(ntx):
            p = pend[k % len(pend)]
            if busy:
                # a device that really is busy: every pending acknowledge announces `announce` ms and the device stays
                # silent for `silent` (< announce) real milliseconds afterwards - longer than the response time
                announce, silent = busy
                wtoks += [5, -1, 2 * p + 1] + [0, announce, 4, silent] * p + [1, 0]
            else:
                wtoks += [5, -1, p + 1] + [0, 1] * p + [1, 0]
    if slow and not pend:
        # a slow but conforming device: the first transaction of the operations is answered, without any pending
        # acknowledge, after `slow` real milliseconds of silence - less than the response time it advertises
        wtoks += [6, ntx_open, 5, -1, 2, 4, slow, 1, 0]
    meta = dict(max_cmd=max_cmd, max_ack=max_ack, ops=ops, expect=expect, ntx=ntx, pend=pend or [], retry=retry)
    return ctl_case(wtoks, optoks, meta)


def predicate(c, out):
    m = c.meta
    po = parse_output(out)
    if po is None:
        return "harness output unreadable / harness died: %r" % (_clip(out),)
    res, events, writes = po
    if any(r[0] == "panic" for r in res):
        return "operation %d panicked" % [r[0] for r in res].index("panic")
    exp = m["expect"]
    if len(res) != len(exp):
        return "expected %d results, got %d" % (len(exp), len(res))
    for i, (r, e) in enumerate(zip(res, exp)):
        if r[0] != "ok":
            return "operation %d failed with error class %r against a conforming device" % (i, r[1:])
        if e[1] is not None and list(r[1]) != list(e[1]):
            return "operation %d returned / left other bytes than device memory [a, a+n)" % i
    # wire discipline after the bootstrap (limits are negotiated by open: 6 transactions at 128/128)
    sends = [e for e in events if e[0] == "send"]
    recvs = [e for e in events if e[0] == "recv"]
    for k, s in enumerate(sends):
        lim = 128 if k < 6 else m["max_cmd"]
        if s[1] > lim:
            return "command %d is %d bytes, negotiated maximum is %d" % (k, s[1], lim)
    k = -1
    for e in events:
        if e[0] == "send":
            k += 1
        elif e[0] == "recv":
            lim = 128 if k < 6 else m["max_ack"]
            # a WriteMem acknowledge is 16 bytes whatever the host does; only data acknowledges are sized by the host
            if e[1] > lim and not (sends[k][2] == 0x0802 and e[1] == 16):
                return "acknowledge to command %d is %d bytes, negotiated maximum is %d" % (k, e[1], lim)
    for k, s in enumerate(sends):
        if s[3] != k % 65536:
            return "command %d carries request id %d, expected %d" % (k, s[3], k % 65536)
    if len(sends) != 6 + m["ntx"]:
        return "%d commands on the wire, %d expected for minimal chunking" % (len(sends), 6 + m["ntx"])
    # writes reach the device only inside the requested ranges
    wr = [(o[1], o[2]) for o in m["ops"] if o[0] == "w"]
    for a, n, _ in writes:
        if not any(a >= wa and a + n <= wa + wn for wa, wn in wr):
            return "device write [%d,+%d) outside every requested range" % (a, n)
    return None


def nontrivial(c, out):
    return c.meta["ntx"] >= 2


# ---- the session around the transfers: open negotiates the advertised limits; a failing open, a closed
# ---- handle and a command limit below 24 bytes are refused before anything is put on the wire
NOT_OPENED, INVALID_DEVICE = 5, 6


def build_session(steps, max_cmd=64, max_ack=64, sbrm=None, open_err=None, data_len=1024):
    """steps: 'open' | 'close' | ('r', off, n) | ('w', off, n, seed).  The expectation is computed by a
    small state machine written from the property text (opened flag, negotiated limits, memory mirror)."""
    kw = {} if sbrm is None else {"sbrm": sbrm}
    w = std_world(max_cmd, max_ack, 5, **kw)
    w.fill(DATA, data_len, 23)
    wtoks = list(w.toks)
    if open_err is not None:
        wtoks += [7, open_err]
    optoks, expect = [], []
    opened = False
    sends = 0           # expected number of commands on the wire
    abrm_cached = False
    lims = []           # per expected command: (max_cmd, max_ack) in force
    cur = (128, 128)
    for st in steps:
        if st == "open":
            optoks += [OPEN]
            if opened:
                expect.append(("ok", None))
            elif open_err is not None:
                expect.append(("err", None))
            else:
                # bootstrap reads of open: ABRM capability (8 bytes, cached in the handle after the first open), SBRM
                # address (8), U3VCP capability (8), response time (4), maximum command / acknowledge length (4, 4) -
                # read under the limits IN FORCE (a reopened handle still has the negotiated ones), hence chunked
                sizes = ([] if abrm_cached else [8]) + [8, 8, 4, 4, 4]
                per = max(1, min(cur[1] - 12, 65535))
                n = sum(-(-sz // per) for sz in sizes)
                lims += [cur] * n
                sends += n
                abrm_cached = True
                opened = True
                cur = (max_cmd, max_ack)
                expect.append(("ok", None))
        elif st == "close":
            optoks += [CLOSE]
            opened = False
            expect.append(("ok", None))
        elif st[0] == "r":
            _, off, n = st
            optoks += [READ, DATA + off, n]
            if not opened:
                expect.append(("err", NOT_OPENED))
            elif cur[0] < 24 and n > 0:
                expect.append(("err", INVALID_DEVICE))
            else:
                k = -(-n // max(1, min(cur[1] - 12, 65535)))
                lims += [cur] * k
                sends += k
                expect.append(("ok", show_data(w.read(DATA + off, n))))
        else:
            _, off, n, seed = st
            optoks += [WRITEPAT, DATA + off, n, seed]
            if not opened:
                expect.append(("err", NOT_OPENED))
            elif cur[0] <= 20 and n > 0:
                expect.append(("err", None))
            else:
                k = -(-n // max(1, cur[0] - 20))
                lims += [cur] * k
                sends += k
                w.write(DATA + off, pattern(n, seed))
                expect.append(("ok", None))
    optoks += [DUMP, DATA, data_len]        # the device memory itself, not through the handle
    expect.append(("ok", show_data(w.read(DATA, data_len))))
    meta = dict(session=True, steps=steps, max_cmd=max_cmd, max_ack=max_ack, expect=expect, sends=sends, lims=lims,
                open_err=open_err, ntx=sends)
    return ctl_case(wtoks, optoks, meta)


def predicate_session(c, out):
    m = c.meta
    po = parse_output(out)
    if po is None:
        return "harness output unreadable / harness died: %r" % (_clip(out),)
    res, events, writes = po
    if any(r[0] == "panic" for r in res):
        return "operation %d panicked" % [r[0] for r in res].index("panic")
    exp = m["expect"]
    if len(res) != len(exp):
        return "expected %d results, got %d" % (len(exp), len(res))
    for i, (r, e) in enumerate(zip(res, exp)):
        if r[0] != e[0]:
            return "step %d: expected %s, got %r" % (i, e[0], r[:2])
        if e[0] == "err" and e[1] is not None and list(r[1:]) != [e[1]]:
            return "step %d: refused with error class %r, expected %d" % (i, r[1:], e[1])
        if e[0] == "ok" and e[1] is not None and list(r[1]) != list(e[1]):
            return "step %d returned other bytes than device memory" % i
    sends = [e for e in events if e[0] == "send"]
    if len(sends) != m["sends"]:
        return "%d commands on the wire, %d expected (a refused operation must send nothing)" % (len(sends), m["sends"])
    # request ids: one greater (mod 2^16) than the previous completed transaction of this handle - also across a
    # close / reopen of the same handle (every transaction of these sessions completes)
    for k, sd in enumerate(sends):
        if sd[3] != k % 65536:
            return ("command %d carries request id %d, expected %d (one greater than the previous completed "
                    "transaction of the handle, across close / reopen too)" % (k, sd[3], k % 65536))
    k = -1
    for e in events:
        if e[0] == "send":
            k += 1
            if e[1] > m["lims"][k][0]:
                return "command %d is %d bytes, limit in force is %d" % (k, e[1], m["lims"][k][0])
        elif e[0] == "recv":
            if e[1] > m["lims"][k][1] and not (sends[k][2] == 0x0802 and e[1] == 16):
                return "acknowledge to command %d is %d bytes, limit in force is %d" % (k, e[1], m["lims"][k][1])
    return None


def gen_sessions(ck):
    rng = Rng(ck.seed + 77)
    cases = []
    rd = ("r", 5, 100)
    wr = ("w", 9, 50, 4)
    # a failing open: nothing on the wire, the handle stays closed
    for e in (1, 2, 3, 4, 5, 6):
        cases.append(build_session(["open", rd, wr], open_err=e))
    # closed handle, close / reopen
    cases.append(build_session([rd, wr]))
    cases.append(build_session(["open", rd, "close", rd, wr, "open", rd, wr]))
    cases.append(build_session(["open", "open", rd, "close", "close", "open", wr]))
    # advertised limits are the limits used, wherever the SBRM lies
    for (mc, ma) in [(24, 13), (30, 40), (128, 128), (129, 127), (500, 20), (4096, 70000), (1 << 16, 1 << 16)]:
        for sb in (None, 0x8000, 0x7FFF0000, (1 << 40) + 8):
            cases.append(build_session(["open", ("r", 1, 700), ("w", 3, 300, 9)], max_cmd=mc, max_ack=ma, sbrm=sb))
    # a command limit below a ReadMem command: reads refused, nothing sent
    for mc in (0, 1, 12, 20, 21, 23):
        cases.append(build_session(["open", rd, ("r", 0, 0)], max_cmd=mc, max_ack=64))
    for _ in range(6 if ck.tier == "quick" else 80):
        steps = []
        for _i in range(rng.range(2, 8)):
            steps.append(rng.choice(["open", "close", ("r", rng.below(200), rng.below(300)),
                                     ("w", rng.below(200), rng.below(300), rng.below(256))]))
        cases.append(build_session(steps, max_cmd=rng.choice([24, 31, 64, 300]), max_ack=rng.choice([13, 20, 64, 300]),
                                   open_err=rng.choice([None, None, None, 2])))
    return cases


def gen_cases(ck):
    rng = Rng(ck.seed)
    quick = ck.tier == "quick"
    cases = []
    limits = [(24, 16), (25, 17), (27, 19), (64, 64), (128, 128), (1024, 1024), (65535 + 12, 65535 + 12),
              (1 << 20, 1 << 20), (33, 1024), (1024, 29), (24, 13), (24, 14)]
    for (mc, ma) in limits:
        cr = min(ma - 12, 65535)
        cw = mc - 20
        sizes_r = sorted({0, 1, 2, cr - 1, cr, cr + 1, 2 * cr - 1, 2 * cr, 2 * cr + 1, 2 * cr + 2, 3 * cr, 5 * cr + 1})
        sizes_w = sorted({0, 1, 2, cw - 1, cw, cw + 1, 2 * cw - 1, 2 * cw, 2 * cw + 1, 2 * cw + 2, 3 * cw, 5 * cw + 1})
        sizes_r = [s for s in sizes_r if 0 <= s <= 200000 and -(-s // max(cr, 1)) <= 3000]
        sizes_w = [s for s in sizes_w if 0 <= s <= 200000 and -(-s // max(cw, 1)) <= 3000]
        ops = []
        for s in sizes_r:
            ops.append(("r", DATA + rng.below(1000), s))
        cases.append(build(mc, ma, ops))
        ops = []
        for s in sizes_w:
            ops.append(("w", DATA + 16 + rng.below(1000), s, rng.below(256)))
        cases.append(build(mc, ma, ops))
    # large transfers crossing the 16-bit limits
    for n in (65527, 65528, 65535, 65536, 70000, 131054, 131055, 200 * 1024):
        cases.append(build(1 << 20, 1 << 20, [("w", DATA + 3, n, 7), ("r", DATA, n + 8)]))
    cases.append(build(70000, 70000, [("w", DATA + 3, 150000, 9), ("r", DATA + 1, 150000)]))
    # pending acknowledges below the retry limit
    for retry in (1, 2, 3, 5):
        for p in range(retry):
            cases.append(build(64, 64, [("r", DATA + 5, 130), ("w", DATA + 9, 100, 3), ("r", DATA, 200)],
                               pend=[p], retry=None if retry == 3 else retry))
    cases.append(build(40, 40, [("r", DATA + 5, 300), ("w", DATA + 9, 200, 3)], pend=[0, 1, 2, 0, 2]))
    # pending acknowledges that MEAN it: the device announces more time than the maximum response time and uses most
    # of it (real time; the fake transport keeps silent meanwhile).  The announced time replaces the response time:
    # the transfer must succeed.  (One-sided timing: a slow machine only makes the host later, never too early.)
    cases.append(build(64, 64, [("r", DATA + 5, 40), ("w", DATA + 9, 30, 3)], pend=[1], resp_ms=40, busy=(400, 300)))
    cases.append(build(64, 64, [("r", DATA + 5, 40)], pend=[2], resp_ms=30, busy=(250, 200)))
    # devices that advertise a long maximum response time and use it (no pending acknowledge): "all response-time values"
    cases.append(build(64, 64, [("r", DATA + 5, 40), ("w", DATA + 9, 30, 3)], resp_ms=2600, slow=2150))
    cases.append(build(1024, 1024, [("w", DATA + 2, 100, 5)], resp_ms=60000, slow=2050))
    # pending acknowledges (16 bytes) on the shortest data acknowledges: whole reads of 1..3 bytes and tail chunks of
    # 1..3 bytes, single-byte writes
    for p in (1, 2):
        cases.append(build(64, 64, [("r", DATA + 5, 1), ("r", DATA + 6, 2), ("r", DATA + 7, 3), ("r", DATA, 52 + 1),
                                    ("r", DATA, 104 + 2), ("r", DATA + 1, 52 + 3), ("w", DATA + 9, 1, 3), ("r", DATA + 8, 4)],
                           pend=[p]))
    cases.append(build(24, 16, [("r", DATA + 5, 3), ("w", DATA + 9, 2, 3)], pend=[2, 1, 0]))
    # mixed random histories
    for _ in range(12 if quick else 200):
        mc = rng.choice([24, 25, 37, 64, 100, 512, 4096])
        ma = rng.choice([13, 15, 37, 64, 100, 512, 4096])
        ops = []
        for _i in range(rng.range(2, 6)):
            n = rng.choice([0, 1, rng.below(40), rng.below(400)])
            if mc > 100 and ma > 100:
                n = rng.choice([n, rng.below(20000)])
            a = DATA + rng.below(30000)
            ops.append(("r", a, n) if rng.chance(1, 2) else ("w", a, n, rng.below(256)))
        cases.append(build(mc, ma, ops, resp_ms=rng.choice([0, 1, 5, 1000])))
    # request-id wrap: more than 65536 transactions
    wrap = build(24, 13, [("r", DATA, 4000)] * 17 + [("w", DATA + 2, 3, 1), ("r", DATA, 8)])
    wrap.meta["model"] = not quick      # 68,000 transactions: ~2.5 min in the kernel VM; quick runs code + predicate only
    cases.append(wrap)
    # top of the address space
    top = (1 << 64) - 4096
    cases.append(build(64, 64, [("r", top + 4096 - 100, 100), ("w", top + 4096 - 60, 60, 5)], addr_base=top, data_len=4096))
    return cases


def main():
    ck = Check("C06")
    ck.rule = ("real ControlHandle (unmodified /repo/cameleon sources compiled against the scripted USB layer rust/shim) "
               "vs the Gallina model run_ctl on the same token stream: conforming device, limits "
               "{24/13 .. 2^20}, every length around 0,1,2,3,5 chunk multiples, 65527..200 KiB, pending counts below "
               "retry limits 1,2,3,5, random mixed read/write histories, request-id wrap (>65536 transactions), top of "
               "the address space; predicate = Python mirror of device memory + wire discipline (lengths, ids, "
               "minimal chunk count, writes inside requested ranges); non-trivial = at least two transactions")
    ck.trusted += ["rust/shim (scripted conforming U3V device written from the wire layout) and its transcription "
                   "in model/Control.v (conform/on_send/on_recv)", "tools/c06.py, tools/ctlcase.py, tools/u3vworld.py"]
    ck.prove()
    ck.phase("prove")
    binary, log = ck.cargo_build("h_u3v")
    ck.phase("cargo")
    if binary is None:
        path = ck.write_replay({"kind": "build", "property": "C06", "unchecked": "correspondence via rust/h_u3v",
                                "log": log[-6000:]})
        ck.violations.append((path, True, "harness rust/h_u3v does not build against /repo"))
        ck.finish()
    if ck.replay:
        r = json.load(open(ck.replay))
        if r.get("kind") != "case":
            print(json.dumps(r, indent=1)[:4000])
            sys.exit(0)
        if r.get("ckind") in ("enum", "chan") or "end to end" in (r.get("family") or ""):   # USB layer (tools/usbenum.py)
            import usbenum
            usbenum.replay(ck, r)
        from vplib import Case
        c = Case("ctl", r["mtoks"].split(), meta=r.get("meta"))
        impl = ck.run_impl(binary, [c.line], big_stack=True)
        model = ck.run_model_terms(["ControlRun"], [model_term(c)])
        print("impl :", _clip(impl[0], 200))
        print("model:", _clip(model[0], 200))
        print("agree:", impl[0] == model[0])
        sys.exit(0 if impl[0] == model[0] else 1)
    cases = gen_cases(ck)
    ck.phase("generate")
    impl = ck.run_impl(binary, [c.line for c in cases], jobs=16, big_stack=True)
    ck.phase("impl")
    both = [i for i, c in enumerate(cases) if c.meta.get("model", True)]
    only = [i for i, c in enumerate(cases) if not c.meta.get("model", True)]
    model = ck.run_model_terms(["ControlRun"], [model_term(cases[i]) for i in both], per_eval=1, jobs=16)
    ck.phase("model")
    ck.compare([cases[i] for i in both], [impl[i] for i in both], model, predicate, nontrivial,
               family="conforming device histories")
    if only:
        ck.compare([cases[i] for i in only], [impl[i] for i in only], None, predicate, nontrivial,
                   family="request-id wrap (implementation + predicate only in the quick tier)")
    sess = gen_sessions(ck)
    impl_s = ck.run_impl(binary, [c.line for c in sess], jobs=16, big_stack=True)
    model_s = ck.run_model_terms(["ControlRun"], [model_term(c) for c in sess], per_eval=1, jobs=16)
    ck.compare(sess, impl_s, model_s, predicate_session, lambda c, out: True,
               family="sessions: open negotiates the advertised limits / refused before the wire")
    ck.dist["transactions"] = sum(c.meta["ntx"] for c in cases)
    ck.dist["session cases"] = len(sess)
    # USB layer (device/src/u3v/channel.rs, device.rs): the real cameleon-device crate
    # over a scripted fake libusb (rust/h_usb) vs model/UsbChannel.v, see tools/usbenum.py
    import usbenum
    usbenum.run_chan(ck)
    usbenum.run_ctlreal(ck, [cases[i] for i in both + only], [impl[i] for i in both + only], predicate, nontrivial)
    usbenum.run_ctlreal(ck, sess, impl_s, predicate_session, lambda c, out: True, label="sessions end to end")
    ck.finish()
