#!/usr/bin/env python3
"""tools/translate_parseorder.py -- CODE translator for the element schedules of the GenApi XML parser (property C17).

Re-run on every `./check C17`.  Reads every `impl Parse for X` of genapi/src/parser/*.rs, the struct / enum definitions
of genapi/src/*.rs (field types decide which element parser a `node.parse*()` call runs) and the `impl Default` blocks of
parser/elem_type.rs, and writes coq/theories/gen/ParseOrderSrc.v over the vocabulary of coq/theories/model/PoOps.v:
for every covered impl the ORDERED schedule [(local, step)] of its cursor operations in program order plus the struct
literal [(field, local)] it ends with (or, for the enum impls, the sniffing condition / the tag match / the
parse_if-else shape).  Tags refer to the constants of gen/ElemNames.v (tools/translate_names.py).

Anything outside the accepted shapes in a COVERED impl raises ShapeError - the check then reports the proof obligations
of C17 as broken instead of translating something else.  Leaf impls (String, NodeId, bool, i64, ...) are PINNED: their
token text must be the one recorded here.  Impls that are neither covered nor pinned are listed in the generated file
as a comment.  proofs/P_C17s.v proves the injected parsers of model/GenApiParse.v closed under the translated
schedules."""
import os
import re
import struct
import sys

HERE = os.path.dirname(os.path.abspath(__file__))
VERIF = os.path.dirname(HERE)
OUT = os.path.join(VERIF, "coq", "theories", "gen", "ParseOrderSrc.v")


class ShapeError(Exception):
    pass


# ------------------------------------------------------------------------------------------------ tokens --
def strip_comments(s):
    s = re.sub(r"/\*.*?\*/", " ", s, flags=re.S)
    return re.sub(r"//[^\n]*", "", s)


TOK = re.compile(r"""\s*(
    "(?:[^"\\]|\\.)*" |
    '(?:[^'\\]|\\.)' |
    '[a-z_]+(?!') |
    [A-Za-z_][A-Za-z0-9_]* |
    \d[\d_]*(?:\.\d+)?(?:_?[iuf](?:8|16|32|64|size))? |
    :: | -> | => | == | != | <= | >= | \|\| | && | \.\. |
    [(){}\[\],;:.|&^!\-+*/%<>=\#?$@]
)""", re.X)


def tokenize(s):
    out, pos = [], 0
    s = strip_comments(s).strip()
    while pos < len(s):
        m = TOK.match(s, pos)
        if not m:
            raise ShapeError("cannot tokenize near %r" % s[pos:pos + 40])
        out.append(m.group(1))
        pos = m.end()
    return out


OPEN = {"(": ")", "{": "}", "[": "]"}


def match_close(toks, i):
    """index of the token closing the bracket at toks[i]"""
    depth = 0
    for j in range(i, len(toks)):
        if toks[j] in OPEN:
            depth += 1
        elif toks[j] in (")", "}", "]"):
            depth -= 1
            if depth == 0:
                return j
    raise ShapeError("unbalanced bracket")


def is_ident(t):
    return re.fullmatch(r"[A-Za-z_][A-Za-z0-9_]*", t) is not None


# ------------------------------------------------------------------------------------------- expressions --
class Parser:
    """expression / statement parser for the bodies of the Parse impls (a small subset of Rust)"""

    def __init__(self, toks, where):
        self.t, self.i, self.where = toks, 0, where

    def err(self, msg):
        raise ShapeError("%s: %s near `%s`" % (self.where, msg, " ".join(self.t[self.i:self.i + 12])))

    def peek(self, k=0):
        return self.t[self.i + k] if self.i + k < len(self.t) else None

    def eat(self, tok=None):
        if self.i >= len(self.t):
            self.err("unexpected end")
        x = self.t[self.i]
        if tok is not None and x != tok:
            self.err("expected `%s`" % tok)
        self.i += 1
        return x

    def at_end(self):
        return self.i >= len(self.t)

    # types: Name, Name<T, ..>, a::b::Name<T>, &T, &mut T
    def ty(self):
        while self.peek() in ("&", "mut", "dyn") or (self.peek() or "").startswith("'"):
            self.eat()
        name = self.eat()
        if not is_ident(name):
            self.err("type expected")
        while self.peek() == "::":
            self.eat()
            name = self.eat()
        args = []
        if self.peek() == "<":
            self.eat()
            while True:
                if (self.peek() or "").startswith("'"):
                    self.eat()
                else:
                    args.append(self.ty())
                if self.peek() == ",":
                    self.eat()
                    continue
                break
            self.eat(">")
        return (name, tuple(args))

    def block(self):
        """{ stmts; tail? } -> ('block', stmts, tail)"""
        self.eat("{")
        stmts, tail = [], None
        while self.peek() != "}":
            s = self.stmt()
            if s[0] == "expr_tail":
                tail = s[1]
                if self.peek() != "}":
                    self.err("expression without `;` in the middle of a block")
            else:
                stmts.append(s)
        self.eat("}")
        return ("block", stmts, tail)

    def stmt(self):
        if self.peek() == "let":
            self.eat()
            mut = False
            if self.peek() == "mut":
                self.eat()
                mut = True
            name = self.eat()
            if not is_ident(name):
                self.err("`let` with a pattern")
            ty = None
            if self.peek() == ":":
                self.eat()
                ty = self.ty()
            self.eat("=")
            e = self.expr()
            self.eat(";")
            return ("let", mut, name, ty, e)
        if self.peek() == "while":
            self.eat()
            self.eat("let")
            pat = []
            while self.peek() != "=":
                pat.append(self.eat())
            self.eat("=")
            e = self.expr(nostruct=True)
            b = self.block()
            return ("whilelet", tuple(pat), e, b)
        if self.peek() == "use":
            toks = []
            while self.peek() != ";":
                toks.append(self.eat())
            self.eat(";")
            return ("use", tuple(toks))
        e = self.expr()
        if self.peek() == ";":
            self.eat()
            return ("expr", e)
        if e[0] in ("if", "match", "block") and self.peek() != "}":
            return ("expr", e)
        return ("expr_tail", e)

    def expr(self, nostruct=False):
        return self.binary(0, nostruct)

    PREC = [["||"], ["&&"], ["==", "!="]]

    def binary(self, lvl, nostruct):
        if lvl == len(self.PREC):
            return self.unary(nostruct)
        a = self.binary(lvl + 1, nostruct)
        while self.peek() in self.PREC[lvl] and not (self.peek() == "||" and False):
            op = self.eat()
            b = self.binary(lvl + 1, nostruct)
            a = ("binary", op, a, b)
        return a

    def unary(self, nostruct):
        if self.peek() == "!":
            self.eat()
            return ("not", self.unary(nostruct))
        if self.peek() == "&":
            self.eat()
            mut = False
            if self.peek() == "mut":
                self.eat()
                mut = True
            return ("ref", mut, self.unary(nostruct))
        if self.peek() == "*":
            self.eat()
            return ("deref", self.unary(nostruct))
        return self.postfix(self.primary(nostruct), nostruct)

    def args(self):
        self.eat("(")
        out = []
        while self.peek() != ")":
            out.append(self.expr())
            if self.peek() == ",":
                self.eat()
        self.eat(")")
        return tuple(out)

    def postfix(self, e, nostruct):
        while True:
            if self.peek() == ".":
                self.eat()
                name = self.eat()
                if not is_ident(name):
                    self.err("field / method name expected")
                if self.peek() == "::":
                    self.err("turbofish")
                if self.peek() == "(":
                    e = ("mcall", e, name, self.args())
                else:
                    e = ("field", e, name)
            elif self.peek() == "(":
                e = ("call", e, self.args())
            elif self.peek() == "?":
                self.err("`?`")
            else:
                return e

    def closure(self):
        params = []
        if self.peek() == "||":
            self.eat()
        else:
            self.eat("|")
            while self.peek() != "|":
                p = self.eat()
                if not is_ident(p):
                    self.err("closure parameter pattern")
                params.append(p)
                if self.peek() == ",":
                    self.eat()
            self.eat("|")
        body = self.block() if self.peek() == "{" else self.expr()
        return ("closure", tuple(params), body)

    def primary(self, nostruct):
        t = self.peek()
        if t is None:
            self.err("expression expected")
        if t in ("|", "||"):
            return self.closure()
        if t == "(":
            self.eat()
            e = self.expr()
            self.eat(")")
            return e
        if t == "{":
            return self.block()
        if t == "if":
            self.eat()
            c = self.expr(nostruct=True)
            a = self.block()
            b = None
            if self.peek() == "else":
                self.eat()
                b = self.block()
            return ("if", c, a, b)
        if t == "match":
            self.eat()
            s = self.expr(nostruct=True)
            self.eat("{")
            arms = []
            while self.peek() != "}":
                pat = []
                while self.peek() != "=>":
                    pat.append(self.eat())
                self.eat("=>")
                e = self.expr()
                if self.peek() == ",":
                    self.eat()
                arms.append((tuple(pat), e))
            self.eat("}")
            return ("match", s, tuple(arms))
        if t.startswith('"'):
            self.eat()
            return ("str", t[1:-1])
        if re.fullmatch(r"\d[\d_]*", t):
            self.eat()
            return ("int", int(t.replace("_", "")))
        if is_ident(t):
            segs = [self.eat()]
            while self.peek() == "::":
                self.eat()
                s = self.eat()
                if not is_ident(s):
                    self.err("path segment")
                segs.append(s)
            if self.peek() == "!":
                self.eat()
                j = match_close(self.t, self.i)
                inner = self.t[self.i + 1:j]
                self.i = j + 1
                return ("macro", segs[-1], tuple(inner))
            if self.peek() == "{" and not nostruct and segs[-1][0].isupper():
                self.eat()
                fields = []
                while self.peek() != "}":
                    f = self.eat()
                    if not is_ident(f):
                        self.err("struct literal field")
                    if self.peek() == ":":
                        self.eat()
                        fields.append((f, self.expr()))
                    else:
                        fields.append((f, ("path", (f,))))
                    if self.peek() == ",":
                        self.eat()
                self.eat("}")
                return ("struct", tuple(segs), tuple(fields))
            return ("path", tuple(segs))
        self.err("unexpected token")


def split_commas(toks):
    out, cur, depth = [], [], 0
    for t in toks:
        if t in OPEN:
            depth += 1
        elif t in (")", "}", "]"):
            depth -= 1
        if t == "," and depth == 0:
            out.append(cur)
            cur = []
        else:
            cur.append(t)
    if cur:
        out.append(cur)
    return out


# ------------------------------------------------------------------------------------------------- items --
def read(repo, rel):
    return open(os.path.join(repo, rel)).read()


def cut_tests(src):
    i = src.find("#[cfg(test)]")
    return src if i < 0 else src[:i]


def top_items(toks):
    """yield (start, end) token ranges of the top-level items (attributes included in the following item)"""
    i, n = 0, len(toks)
    while i < n:
        start = i
        while True:
            # skip attributes
            while i < n and toks[i] == "#":
                i = match_close(toks, i + 1) + 1
            break
        # an item ends at `;` (depth 0) or at the `}` closing its first `{` (depth 0)
        j = i
        while j < n:
            if toks[j] == ";":
                break
            if toks[j] == "{":
                j = match_close(toks, j)
                break
            if toks[j] in ("(", "["):
                j = match_close(toks, j)
            j += 1
        if j >= n:
            raise ShapeError("unterminated item near `%s`" % " ".join(toks[i:i + 8]))
        # `macro_name!{..}` / `name!(..);` handled by the same rule; a trailing `;` after `}` / `)` belongs to it
        if j + 1 < n and toks[j] in ("}", ")") and toks[j + 1] == ";":
            j += 1
        yield start, i, j + 1
        i = j + 1


def parse_type_tokens(toks, where):
    p = Parser(list(toks), where)
    t = p.ty()
    if not p.at_end():
        p.err("trailing tokens in a type")
    return t


def struct_defs(toks, where):
    """struct Name[<T>] { [pub(..)] field: Type, .. } and enum Name[<T>] { Variant, Variant(T), Variant { f: T } }"""
    structs, enums = {}, {}
    for _, i, j in top_items(toks):
        it = toks[i:j]
        k = 0
        if it and it[0] == "pub":
            k = 1
            if it[k] == "(":
                k = match_close(it, k) + 1
        if k < len(it) and it[k] in ("struct", "enum"):
            kind, name = it[k], it[k + 1]
            k += 2
            if it[k] == "<":
                while it[k] != ">":
                    k += 1
                k += 1
            if it[k] != "{":
                continue     # tuple struct / unit struct
            body = it[k + 1:match_close(it, k)]
            entries = []
            for part in split_commas(body):
                # drop attributes and visibility
                while part and part[0] == "#":
                    part = part[match_close(part, 1) + 1:]
                if part and part[0] == "pub":
                    part = part[1:]
                    if part and part[0] == "(":
                        part = part[match_close(part, 0) + 1:]
                if not part:
                    continue
                if kind == "struct":
                    if len(part) < 3 or part[1] != ":":
                        raise ShapeError("%s: field of struct %s" % (where, name))
                    entries.append((part[0], parse_type_tokens(part[2:], where)))
                else:
                    v = part[0]
                    if len(part) == 1:
                        entries.append((v, "unit", None))
                    elif part[1] == "(":
                        inner = part[2:match_close(part, 1)]
                        tys = [parse_type_tokens(x, where) for x in split_commas(inner)]
                        entries.append((v, "tuple", tys))
                    elif part[1] == "{":
                        inner = part[2:match_close(part, 1)]
                        fs = []
                        for f in split_commas(inner):
                            fs.append((f[0], parse_type_tokens(f[2:], where)))
                        entries.append((v, "record", fs))
                    else:
                        raise ShapeError("%s: variant of enum %s" % (where, name))
            (structs if kind == "struct" else enums)[name] = entries
    return structs, enums


A3 = (("path", ("node_builder",)), ("path", ("value_builder",)), ("path", ("cache_builder",)))


def find_impls(toks, where):
    """-> (parse_impls [(type, generics, body_tokens, raw_tokens)], defaults {enum: variant}, macros {name: tokens},
           macro_calls [(name, args_tokens)])"""
    impls, defaults, macros, calls = [], {}, {}, []
    for start, i, j in top_items(toks):
        it = toks[i:j]
        if it[0] == "macro_rules":
            macros[it[2]] = tuple(it)
            continue
        if len(it) > 2 and is_ident(it[0]) and it[1] == "!" and it[0] != "macro_rules":
            calls.append((it[0], tuple(it[3:match_close(it, 2)])))
            continue
        if it[0] != "impl":
            continue
        k = 1
        generics = []
        if it[k] == "<":
            k += 1
            while it[k] != ">":
                if is_ident(it[k]):
                    generics.append(it[k])
                k += 1
            k += 1
        # trait path up to `for`
        if "for" not in it[k:it.index("{")]:
            continue                                  # inherent impl
        f = it.index("for", k)
        trait = it[k:f]
        brace = f
        depth = 0
        tend = None
        for q in range(f + 1, len(it)):
            if it[q] == "<":
                depth += 1
            elif it[q] == ">":
                depth -= 1
            elif depth == 0 and it[q] in ("where", "{"):
                tend = q
                break
        tytoks = it[f + 1:tend]
        brace = it.index("{", tend)
        inner = it[brace + 1:match_close(it, brace)]
        if trait == ["Default"]:
            # fn default() -> Self { Self::X }
            m = re.fullmatch(r"fn default \( \) -> Self \{ Self :: (\w+) \}", " ".join(inner))
            if not m:
                raise ShapeError("%s: impl Default for %s" % (where, " ".join(tytoks)))
            defaults[tytoks[0]] = m.group(1)
            continue
        if trait != ["Parse"]:
            continue
        ty = parse_type_tokens(tytoks, where)
        # [#[..]] fn parse(node: &mut xml::Node, <3 params>) -> Self { body }
        q = 0
        while inner[q] == "#":
            q = match_close(inner, q + 1) + 1
        if inner[q:q + 3] != ["fn", "parse", "("]:
            raise ShapeError("%s: impl Parse for %s does not start with fn parse" % (where, type_name(ty)))
        pe = match_close(inner, q + 2)
        params = split_commas(inner[q + 3:pe])
        if len(params) != 4 or params[0] != ["node", ":", "&", "mut", "xml", "::", "Node"]:
            raise ShapeError("%s: parameters of %s::parse" % (where, type_name(ty)))
        want = ["node_builder", "value_builder", "cache_builder"]
        kinds = ["NodeStoreBuilder", "ValueStoreBuilder", "CacheStoreBuilder"]
        for pn, w, kd in zip(params[1:], want, kinds):
            if pn[0] not in (w, "_") or pn[1:] != [":", "&", "mut", "impl", kd]:
                raise ShapeError("%s: parameter %s of %s::parse" % (where, w, type_name(ty)))
        if inner[pe + 1:pe + 4] != ["->", "Self", "{"]:
            raise ShapeError("%s: result type of %s::parse" % (where, type_name(ty)))
        be = match_close(inner, pe + 3)
        if be != len(inner) - 1:
            raise ShapeError("%s: impl Parse for %s has more than fn parse" % (where, type_name(ty)))
        impls.append((ty, generics, inner[pe + 3:be + 1], tuple(it)))
    return impls, defaults, macros, calls


def type_name(ty):
    n, a = ty
    return n if not a else "%s<%s>" % (n, ", ".join(type_name(x) for x in a))


# ----------------------------------------------------------------------------------------- translation ----
DEF_FILES = ["boolean.rs", "category.rs", "command.rs", "converter.rs", "elem_type.rs", "enumeration.rs", "float.rs",
             "float_reg.rs", "int_converter.rs", "int_reg.rs", "int_swiss_knife.rs", "integer.rs", "masked_int_reg.rs",
             "node.rs", "node_base.rs", "port.rs", "register.rs", "register_base.rs", "register_description.rs",
             "string.rs", "string_reg.rs", "swiss_knife.rs", "parser/struct_reg.rs"]

LEAF = {"String": "TString", "NodeId": "TNodeId", "bool": "TBool", "i64": "TI64", "u64": "TU64", "f64": "TF64",
        "IntegerId": "TIntegerId", "FloatId": "TFloatId", "Expr": "TExpr"}

# impls translated into schedules (a ShapeError is raised for anything unexpected inside them)
COVERED = ["NodeAttributeBase", "NodeElementBase", "RegisterBase", "IntegerNode", "IntRegNode", "MaskedIntRegNode",
           "FloatNode", "FloatRegNode", "Node", "CategoryNode", "CommandNode", "BooleanNode", "StringNode",
           "StringRegNode", "RegisterNode", "PortNode", "ConverterNode", "IntConverterNode", "SwissKnifeNode",
           "IntSwissKnifeNode", "EnumerationNode", "EnumEntryNode", "StructRegNode", "StructEntryNode",
           "RegisterDescription", "Formula",
           "ImmOrPNode<i64>", "ImmOrPNode<f64>", "ImmOrPNode<bool>", "NamedValue<T>", "ValueKind<T>", "PValue<T>",
           "PIndex<T>", "ValueIndexed<T>", "AddressKind", "RegPIndex", "BitMask"]

# leaf impls: the token text of the whole impl block is pinned
PINNED = {
    "bool": "impl Parse for bool { fn parse ( node : & mut xml :: Node , _ : & mut impl NodeStoreBuilder , _ : & mut impl ValueStoreBuilder , _ : & mut impl CacheStoreBuilder , ) -> Self { let text = node . next_text ( ) . unwrap ( ) ; convert_to_bool ( & text . view ( ) ) } }",
    "i64": "impl Parse for i64 { fn parse ( node : & mut xml :: Node , _ : & mut impl NodeStoreBuilder , _ : & mut impl ValueStoreBuilder , _ : & mut impl CacheStoreBuilder , ) -> Self { let value = node . next_text ( ) . unwrap ( ) ; convert_to_int ( & value . view ( ) ) } }",
    "u64": "impl Parse for u64 { fn parse ( node : & mut xml :: Node , _ : & mut impl NodeStoreBuilder , _ : & mut impl ValueStoreBuilder , _ : & mut impl CacheStoreBuilder , ) -> Self { let value = node . next_text ( ) . unwrap ( ) ; convert_to_uint ( & value . view ( ) ) } }",
    "f64": "impl Parse for f64 { fn parse ( node : & mut xml :: Node , _ : & mut impl NodeStoreBuilder , _ : & mut impl ValueStoreBuilder , _ : & mut impl CacheStoreBuilder , ) -> Self { let value = node . next_text ( ) . unwrap ( ) . view ( ) ; if value == \"INF\" { f64 :: INFINITY } else if value == \"-INF\" { f64 :: NEG_INFINITY } else { value . parse ( ) . unwrap ( ) } } }",
    "String": "impl Parse for String { fn parse ( node : & mut xml :: Node , _ : & mut impl NodeStoreBuilder , _ : & mut impl ValueStoreBuilder , _ : & mut impl CacheStoreBuilder , ) -> Self { node . next_text ( ) . unwrap ( ) . view ( ) . into ( ) } }",
    "NodeId": "impl Parse for NodeId { fn parse ( node : & mut xml :: Node , node_builder : & mut impl NodeStoreBuilder , _ : & mut impl ValueStoreBuilder , _ : & mut impl CacheStoreBuilder , ) -> Self { let text = node . next_text ( ) . unwrap ( ) ; node_builder . get_or_intern ( text . view ( ) ) } }",
    "Expr": "impl Parse for Expr { fn parse ( node : & mut xml :: Node , _ : & mut impl NodeStoreBuilder , _ : & mut impl ValueStoreBuilder , _ : & mut impl CacheStoreBuilder , ) -> Self { let text = node . next_text ( ) . unwrap ( ) ; parse ( & text . view ( ) ) } }",
}
PINNED_MACROS = {
    "impl_parse_for_imm_or_pnode_id": "macro_rules ! impl_parse_for_imm_or_pnode_id { ( $ id : ty , $ value_ty : ty ) => { impl Parse for ImmOrPNode < $ id > { fn parse ( node : & mut xml :: Node , node_builder : & mut impl NodeStoreBuilder , value_builder : & mut impl ValueStoreBuilder , cache_builder : & mut impl CacheStoreBuilder , ) -> Self { let node : ImmOrPNode < $ value_ty > = node . parse ( node_builder , value_builder , cache_builder ) ; match node { ImmOrPNode :: Imm ( i ) => { let id = value_builder . store ( i ) ; ImmOrPNode :: Imm ( id ) } ImmOrPNode :: PNode ( id ) => ImmOrPNode :: PNode ( id ) , } } } } ; }",
    "impl_parse_for_value_id": "macro_rules ! impl_parse_for_value_id { ( $ id : ty , $ value_ty : ty ) => { impl Parse for $ id { fn parse ( node : & mut xml :: Node , node_builder : & mut impl NodeStoreBuilder , value_builder : & mut impl ValueStoreBuilder , cache_builder : & mut impl CacheStoreBuilder , ) -> Self { let value : $ value_ty = node . parse ( node_builder , value_builder , cache_builder ) ; let id = value_builder . store ( value ) ; id } } } ; }",
}
PINNED_CALLS = [("impl_parse_for_imm_or_pnode_id", ("IntegerId", ",", "i64")),
                ("impl_parse_for_imm_or_pnode_id", ("FloatId", ",", "f64")),
                ("impl_parse_for_value_id", ("IntegerId", ",", "i64")),
                ("impl_parse_for_value_id", ("FloatId", ",", "f64"))]

F64_BITS = {"MIN": struct.unpack("<Q", struct.pack("<d", -sys.float_info.max))[0],
            "MAX": struct.unpack("<Q", struct.pack("<d", sys.float_info.max))[0]}


def zs(s):
    return "[%s]" % "; ".join(str(b) for b in s.encode())


def qs(s):
    return '"%s"' % s


def coq_list(items):
    return "[%s]" % "; ".join(items)


class Ctx:
    """everything the translation of one impl needs"""

    def __init__(self, repo):
        self.repo = repo
        self.structs, self.enums = {}, {}
        for rel in DEF_FILES:
            toks = tokenize(cut_tests(read(repo, "genapi/src/" + rel)))
            s, e = struct_defs(toks, rel)
            for k, v in list(s.items()) + list(e.items()):
                if k in self.structs or k in self.enums:
                    raise ShapeError("type %s defined twice" % k)
            self.structs.update(s)
            self.enums.update(e)
        fsrc = " ".join(tokenize(cut_tests(read(repo, "genapi/src/formula.rs"))))
        if "pub struct Formula { pub ( crate ) expr : Expr , }" not in fsrc:
            raise ShapeError("formula.rs: struct Formula is no longer { expr: Expr }")
        self.structs["Formula"] = [("expr", ("Expr", ()))]
        # element / attribute name constants
        import translate_names
        try:
            self.consts = dict(translate_names.consts(repo))
            self.lits = translate_names.lits(repo)
        except translate_names.ShapeError as e:
            raise ShapeError("translate_names: %s" % e)
        self.impls, self.defaults, self.macros, self.calls = {}, {}, {}, []
        self.order = []
        pdir = os.path.join(repo, "genapi/src/parser")
        for fn in sorted(os.listdir(pdir)):
            if not fn.endswith(".rs") or fn in ("elem_name.rs", "xml.rs", "utils.rs"):
                continue
            toks = tokenize(cut_tests(read(repo, "genapi/src/parser/" + fn)))
            impls, d, m, c = find_impls(toks, "parser/" + fn)
            for ty, gen, body, raw in impls:
                n = type_name(ty)
                if n in self.impls:
                    raise ShapeError("two Parse impls for %s" % n)
                self.impls[n] = (ty, gen, body, raw, "parser/" + fn)
                self.order.append(n)
            self.defaults.update(d)
            self.macros.update(m)
            self.calls += c
        # text enums with a Parse impl
        self.text_enums = [e for e in self.lits if e in self.impls]

    # ---- types ----
    def ety(self, ty, gen, where):
        n, a = ty
        if n in gen:
            if a:
                raise ShapeError("%s: generic parameter with arguments" % where)
            return "TVar"
        if n in LEAF and not a:
            return LEAF[n]
        if n in self.lits and not a:
            if n not in self.impls:
                raise ShapeError("%s: %s has no Parse impl" % (where, n))
            return "(TEnum %s)" % qs(n)
        if n in ("Option", "Vec", "Box"):
            raise ShapeError("%s: unexpected %s here" % (where, type_name(ty)))
        if len(a) > 1:
            raise ShapeError("%s: more than one type argument in %s" % (where, type_name(ty)))
        if a:
            inner = self.ety(a[0], gen, where)
            if inner.startswith("(TRef"):
                raise ShapeError("%s: nested generic type %s" % (where, type_name(ty)))
            return "(TRef %s (Some %s))" % (qs(n), inner)
        return "(TRef %s None)" % qs(n)

    def tag(self, e, where):
        if e[0] == "path" and len(e[1]) == 1 and e[1][0] in self.consts:
            return "src_" + e[1][0]
        raise ShapeError("%s: element / attribute name is not a constant of elem_name.rs: %r" % (where, e))

    def default_of(self, ty, where):
        """T::default() as a val"""
        n, a = ty
        if n == "bool" and not a:
            return "(VBool false)"
        if n in self.defaults and not a:
            variants = [v for v, _, _ in self.enums.get(n, [])]
            if self.defaults[n] not in variants:
                raise ShapeError("%s: Default of %s is not a variant" % (where, n))
            return "(VEnum %s (* %s *))" % (zs(self.defaults[n]), self.defaults[n])
        raise ShapeError("%s: no translated Default for %s" % (where, type_name(ty)))


def is_path(e, *segs):
    return e[0] == "path" and e[1] == tuple(segs)


def is_a3(args):
    return tuple(args) == A3


def node_call(e, method):
    """node.<method>(args) -> args or None"""
    if e[0] == "mcall" and is_path(e[1], "node") and e[2] == method:
        return e[3]
    return None


OPT = "Option"


def unwrap_ty(ty, outer, where, what):
    if ty is None:
        raise ShapeError("%s: cannot determine the type of %s" % (where, what))
    if ty[0] != outer or len(ty[1]) != 1:
        raise ShapeError("%s: %s has type %s, expected %s<..>" % (where, what, type_name(ty), outer))
    return ty[1][0]


class StructBody:
    """translation of a straight-line body ending in a struct literal"""

    def __init__(self, ctx, name, gen, where, self_names):
        self.ctx, self.name, self.gen, self.where = ctx, name, gen, where
        self.self_names = self_names          # names the final literal may use: Self, <TypeName>
        self.raw = []                         # raw steps in program order
        self.cur = {}                         # local -> current binding id
        self.types = {}                       # binding id -> rust type
        self.nbind = 0
        self.pending_vec = {}                 # local -> annotated type, after `let mut v = vec![]`
        self.tag = None
        self.inv = False
        self.result = None
        self.result_struct = None
        self.aliases = {}                     # `let next_node = node.peek().unwrap();`

    def err(self, msg):
        raise ShapeError("%s: %s" % (self.where, msg))

    def bind(self, local, ty=None):
        self.nbind += 1
        self.cur[local] = self.nbind
        if ty is not None:
            self.types[self.nbind] = ty
        return self.nbind

    def use(self, local):
        if local not in self.cur:
            self.err("use of unknown local `%s`" % local)
        return self.cur[local]

    def local_of(self, e):
        if e[0] == "ref":
            e = e[2]
        if e[0] == "path" and len(e[1]) == 1:
            return e[1][0]
        self.err("a local variable expected, got %r" % (e,))

    def add(self, kind, local, ty=None, **kw):
        b = self.bind(local, ty)
        kw.update(kind=kind, local=local, bind=b)
        self.raw.append(kw)
        return b

    # ---- chains: node.parse_if(T, A3)[.or_else(|| node.parse_if(T, A3))]* -> tags or None
    def parse_if_chain(self, e):
        tags = []
        while e[0] == "mcall" and e[2] == "or_else":
            if len(e[3]) != 1 or e[3][0][0] != "closure" or e[3][0][1] != ():
                self.err("or_else argument")
            inner = e[3][0][2]
            a = node_call(inner, "parse_if")
            if a is None or len(a) != 4 or not is_a3(a[1:]):
                self.err("or_else(|| ..) is not node.parse_if(TAG, builders)")
            tags.insert(0, self.ctx.tag(a[0], self.where))
            e = e[1]
        a = node_call(e, "parse_if")
        if a is None:
            return None
        if len(a) != 4 or not is_a3(a[1:]):
            self.err("arguments of node.parse_if")
        tags.insert(0, self.ctx.tag(a[0], self.where))
        return tags

    def attr_base(self, e):
        """node.attribute_of(A) / <alias>.attribute_of(A) / node.peek().unwrap().attribute_of(A) -> (peek?, attr) or None"""
        if e[0] == "mcall" and e[2] == "attribute_of" and len(e[3]) == 1:
            r = e[1]
            attr = self.ctx.tag(e[3][0], self.where)
            if is_path(r, "node"):
                return (False, attr)
            if r[0] == "path" and len(r[1]) == 1 and r[1][0] in self.aliases:
                return (True, attr)
            if (r[0] == "mcall" and r[2] == "unwrap" and r[3] == () and r[1][0] == "mcall" and r[1][2] == "peek"
                    and r[1][3] == () and is_path(r[1][1], "node")):
                return (True, attr)
        return None

    def conv_of_closure(self, f):
        """the function mapped over an attribute text -> conversion name or 'into'"""
        if is_path(f, "convert_to_bool"):
            return "CvBool"
        if is_path(f, "Into", "into"):
            return "into"
        if f[0] == "closure" and len(f[1]) == 1:
            x, b = f[1][0], f[2]
            if b == ("mcall", ("path", (x,)), "into", ()):
                return "into"
            if (b[0] == "call" and is_path(b[1], "ImmOrPNode", "Imm") and len(b[2]) == 1
                    and b[2][0] == ("call", ("path", ("convert_to_int",)), (("path", (x,)),))):
                return "CvImmInt"
            if (b[0] == "call" and is_path(b[1], "ImmOrPNode", "PNode") and len(b[2]) == 1
                    and b[2][0] == ("mcall", ("path", ("node_builder",)), "get_or_intern", (("path", (x,)),))):
                return "CvPNode"
        self.err("unsupported conversion of an attribute text: %r" % (f,))

    def let(self, mut, name, ty, e):
        w = self.where
        # vec![]
        if e[0] == "macro" and e[1] == "vec" and e[2] == ():
            if not mut:
                self.err("`let %s = vec![]` is not mutable" % name)
            self.pending_vec[name] = ty
            return
        # let next_node = node.peek().unwrap();
        if e == ("mcall", ("mcall", ("path", ("node",)), "peek", ()), "unwrap", ()):
            self.aliases[name] = True
            return
        # node.parse(A3)
        a = node_call(e, "parse")
        if a is not None:
            if not is_a3(a):
                self.err("arguments of node.parse")
            self.add("req", name, ty)
            return
        # Type::parse(node, A3)
        if e[0] == "call" and e[1][0] == "path" and len(e[1][1]) == 2 and e[1][1][1] == "parse":
            if tuple(e[2]) != (("path", ("node",)),) + A3:
                self.err("arguments of %s::parse" % e[1][1][0])
            t = (e[1][1][0], ())
            if ty is not None and ty != t:
                self.err("annotation of `%s` disagrees with %s::parse" % (name, t[0]))
            self.add("req", name, t)
            return
        # node.parse_while(T, A3)
        a = node_call(e, "parse_while")
        if a is not None:
            if len(a) != 4 or not is_a3(a[1:]):
                self.err("arguments of node.parse_while")
            self.add("rep", name, ty, tags=[self.ctx.tag(a[0], w)])
            return
        # parse_if chains with an optional default
        d, base = None, e
        if e[0] == "mcall" and e[2] in ("unwrap_or_default", "unwrap_or", "unwrap_or_else"):
            tags = self.parse_if_chain(e[1])
            if tags is not None:
                d, base = (e[2], e[3]), e[1]
        tags = self.parse_if_chain(base)
        if tags is not None:
            self.add("opt", name, ty, tags=tags, dflt=d)
            return
        # node.next_if(T).map(|n| u64::from_str_radix(&n.text().view(), 16).unwrap())
        if e[0] == "mcall" and e[2] == "map" and node_call(e[1], "next_if") is not None and len(e[3]) == 1:
            a = node_call(e[1], "next_if")
            f = e[3][0]
            if len(a) == 1 and f[0] == "closure" and len(f[1]) == 1 and f[2] == self.hex_of(f[1][0]):
                self.add("opthex", name, ty, tag=self.ctx.tag(a[0], w))
                return
            self.err("node.next_if(..).map(..) is not the hexadecimal reader")
        # node.next_if(T).map_or_else(no, yes)
        if e[0] == "mcall" and e[2] == "map_or_else" and node_call(e[1], "next_if") is not None and len(e[3]) == 2:
            a = node_call(e[1], "next_if")
            if len(a) != 1:
                self.err("arguments of node.next_if")
            self.map_or_else(name, ty, self.ctx.tag(a[0], w), e[3][0], e[3][1])
            return
        # attributes
        if self.attr_let(name, ty, e):
            return
        # node_builder.get_or_intern(x)
        if e[0] == "mcall" and is_path(e[1], "node_builder") and e[2] == "get_or_intern" and len(e[3]) == 1:
            x = self.local_of(e[3][0])
            self.add("intern", name, ("NodeId", ()), src=self.use(x), srcname=x)
            return
        # format!("${}_{}", symbolic, node_builder.fresh_id())
        if e[0] == "macro" and e[1] == "format":
            parts = split_commas(list(e[2]))
            if (len(parts) == 3 and parts[0] == ['"${}_{}"'] and len(parts[1]) == 1
                    and parts[2] == ["node_builder", ".", "fresh_id", "(", ")"]):
                x = parts[1][0]
                self.add("fresh", name, ("String", ()), src=self.use(x), srcname=x)
                return
            self.err("format! is not \"${}_{}\" of a local and node_builder.fresh_id()")
        # a struct literal over locals
        if e[0] == "struct":
            if len(e[1]) != 1 or e[1][0] not in self.ctx.structs:
                self.err("struct literal of an unknown type %r" % (e[1],))
            fs = []
            for f, v in e[2]:
                x = self.local_of(v)
                fs.append((f, x, self.use(x)))
            self.check_fields(e[1][0], [f for f, _, _ in fs])
            self.add("record", name, (e[1][0], ()), fields=fs)
            return
        # std::mem::take(&mut r.f)
        if e[0] == "call" and is_path(e[1], "std", "mem", "take") and len(e[2]) == 1:
            x = e[2][0]
            if x[0] == "ref" and x[1] and x[2][0] == "field" and x[2][1][0] == "path" and len(x[2][1][1]) == 1:
                r, f = x[2][1][1][0], x[2][2]
                rb = self.use(r)
                self.add("take", name, ty, rec=rb, recname=r, field=f)
                self.add("cleared", r, None, rec=rb, recname=r, field=f)
                return
            self.err("std::mem::take argument")
        # x.unwrap_or_else(|| { let id = value_builder.store(Y.fn()); ImmOrPNode::Imm(id) })
        if e[0] == "mcall" and e[2] == "unwrap_or_else" and e[1][0] == "path" and len(e[1][1]) == 1 and len(e[3]) == 1:
            x = e[1][1][0]
            f = e[3][0]
            if f[0] == "closure" and f[1] == () and f[2][0] == "block" and len(f[2][1]) == 1:
                st, tail = f[2][1][0], f[2][2]
                if (st[0] == "let" and st[4][0] == "mcall" and is_path(st[4][1], "value_builder") and st[4][2] == "store"
                        and len(st[4][3]) == 1 and st[4][3][0][0] == "mcall" and st[4][3][0][3] == ()
                        and st[4][3][0][1][0] == "path" and len(st[4][3][0][1][1]) == 1
                        and tail == ("call", ("path", ("ImmOrPNode", "Imm")), (("path", (st[2],)),))):
                    y, fn = st[4][3][0][1][1][0], st[4][3][0][2]
                    if fn not in ("deduce_min", "deduce_max"):
                        self.err("unknown deduction %s" % fn)
                    self.add("deduce", name, ty, fn=fn, x=self.use(x), xname=x, src=self.use(y), srcname=y)
                    return
            self.err("unwrap_or_else on a local is not the min / max deduction")
        # match v { ImmOrPNode::Imm(imm) => {..}, ImmOrPNode::PNode(p) => ImmOrPNode::PNode(p) }
        if e[0] == "match":
            self.bool_sel(name, ty, e)
            return
        # a.xor(b)
        if e[0] == "mcall" and e[2] == "xor" and len(e[3]) == 1:
            a, b = self.local_of(e[1]), self.local_of(e[3][0])
            self.add("xor", name, ty, a=self.use(a), aname=a, b=self.use(b), bname=b)
            return
        self.err("unsupported right-hand side of `let %s`: %r" % (name, e))

    def hex_of(self, x):
        """u64::from_str_radix(&x.text().view(), 16).unwrap()"""
        view = ("mcall", ("mcall", ("path", (x,)), "text", ()), "view", ())
        return ("mcall", ("call", ("path", ("u64", "from_str_radix")), (("ref", False, view), ("int", 16))), "unwrap", ())

    def map_or_else(self, name, ty, tag, no, yes):
        if no[0] != "closure" or no[1] != () or yes[0] != "closure" or len(yes[1]) != 1:
            self.err("map_or_else closures")
        n = yes[1][0]
        nview = ("mcall", ("mcall", ("path", (n,)), "text", ()), "view", ())
        # StringNode: value
        no_s = ("call", ("path", ("ImmOrPNode", "PNode")),
                (("mcall", ("path", ("node_builder",)), "get_or_intern",
                  (("mcall", ("mcall", ("mcall", ("path", ("node",)), "next_text", ()), "unwrap", ()), "view", ()),)),))
        yes_s = ("block", [("let", False, "id", None,
                            ("mcall", ("path", ("value_builder",)), "store", (("mcall", nview, "into_owned", ()),)))],
                 ("call", ("path", ("ImmOrPNode", "Imm")), (("path", ("id",)),)))
        if no[2] == no_s and yes[2] == yes_s:
            self.add("valueorref", name, ty, tag=tag)
            return
        # PortNode: chunk_id
        if no[2][0] == "block" and no[2][1] == [] and no[2][2] is not None:
            inner = no[2][2]
            if inner[0] == "mcall" and inner[2] == "map" and node_call(inner[1], "next_if") is not None:
                a = node_call(inner[1], "next_if")
                f = inner[3][0] if len(inner[3]) == 1 else None
                if f and f[0] == "closure" and len(f[1]) == 1:
                    m = f[1][0]
                    mview = ("mcall", ("mcall", ("path", (m,)), "text", ()), "view", ())
                    body = f[2]
                    if body[0] == "block" and body[1] == [] and body[2] is not None:
                        body = body[2]
                    want_no = ("call", ("path", ("ImmOrPNode", "PNode")),
                               (("mcall", ("path", ("node_builder",)), "get_or_intern", (mview,)),))
                    ybody = yes[2]
                    if ybody[0] == "block" and ybody[1] == [] and ybody[2] is not None:
                        ybody = ybody[2]
                    want_yes = ("call", ("path", ("Some",)),
                                (("call", ("path", ("ImmOrPNode", "Imm")), (self.hex_of(n),)),))
                    if len(a) == 1 and body == want_no and ybody == want_yes:
                        self.add("hexorref", name, ty, tag=tag, ptag=self.ctx.tag(a[0], self.where))
                        return
        self.err("node.next_if(..).map_or_else(..) has an unsupported shape")

    def bool_sel(self, name, ty, e):
        v = self.local_of(e[1])
        arms = e[2]
        ok = len(arms) == 2
        if ok:
            p1, b1 = arms[0]
            p2, b2 = arms[1]
            ok = (len(p1) == 6 and p1[:4] == ("ImmOrPNode", "::", "Imm", "(") and p1[5] == ")"
                  and len(p2) == 6 and p2[:4] == ("ImmOrPNode", "::", "PNode", "(") and p2[5] == ")")
        if ok:
            imm, pn = p1[4], p2[4]
            ok = b2 == ("call", ("path", ("ImmOrPNode", "PNode")), (("path", (pn,)),))
            ok = ok and b1[0] == "block" and len(b1[1]) == 2
        if ok:
            s1, s2 = b1[1]
            ok = (s1[0] == "let" and s1[4][0] == "if" and s1[4][1] == ("path", (imm,))
                  and s1[4][2][1] == [] and s1[4][3] is not None and s1[4][3][1] == []
                  and s1[4][2][2][0] == "path" and s1[4][3][2][0] == "path"
                  and s2[0] == "let" and s2[4] == ("mcall", ("path", ("value_builder",)), "store", (("path", (s1[2],)),))
                  and b1[2] == ("call", ("path", ("ImmOrPNode", "Imm")), (("path", (s2[2],)),)))
        if not ok:
            self.err("match is not the OnValue / OffValue selection of a Boolean")
        on, off = s1[4][2][2][1][0], s1[4][3][2][1][0]
        self.add("boolsel", name, ty, v=self.use(v), vname=v, on=self.use(on), onname=on, off=self.use(off), offname=off)

    def attr_let(self, name, ty, e):
        # convert_to_uint(node.attribute_of(A).unwrap()) / convert_to_int(..)
        if e[0] == "call" and e[1][0] == "path" and e[1][1] in (("convert_to_uint",), ("convert_to_int",)) and len(e[2]) == 1:
            x = e[2][0]
            if x[0] == "mcall" and x[2] == "unwrap" and x[3] == ():
                ab = self.attr_base(x[1])
                if ab:
                    cv = "CvUint" if e[1][1][0] == "convert_to_uint" else "CvInt"
                    self.add("attr", name, ty or (("u64", ()) if cv == "CvUint" else ("i64", ())),
                             peek=ab[0], attr=ab[1], req=True, cv=cv, dflt=None)
                    return True
            self.err("%s of something that is not a required attribute" % e[1][1][0])
        # strip a trailing .unwrap_or_default()
        d = None
        x = e
        if x[0] == "mcall" and x[2] == "unwrap_or_default" and x[3] == ():
            d, x = "default", x[1]
        # required: A.unwrap()[.into() | .to_string()]
        y = x
        if y[0] == "mcall" and y[2] in ("into", "to_string") and y[3] == ():
            y = y[1]
        if y[0] == "mcall" and y[2] == "unwrap" and y[3] == ():
            ab = self.attr_base(y[1])
            if ab:
                if d:
                    self.err("default on a required attribute")
                cv = "into" if y is not x and x[2] == "into" else "CvRaw"
                t = ty or (("String", ()) if (y is not x and x[2] == "to_string") else None)
                self.add("attr", name, t, peek=ab[0], attr=ab[1], req=True, cv=cv, dflt=None, raw=(y is x))
                return True
        # optional: A.map(f)
        if x[0] == "mcall" and x[2] == "map" and len(x[3]) == 1:
            ab = self.attr_base(x[1])
            if ab:
                cv = self.conv_of_closure(x[3][0])
                self.add("attr", name, ty, peek=ab[0], attr=ab[1], req=False, cv=cv, dflt=d)
                return True
        return False

    def check_fields(self, sname, fields):
        decl = [f for f, _ in self.ctx.structs[sname]]
        if sorted(decl) != sorted(fields) or len(set(fields)) != len(fields):
            self.err("struct literal of %s does not list exactly its fields" % sname)

    # ---- statements ----
    def macro_stmt(self, e):
        name, toks = e[1], list(e[2])
        if name in ("debug", "trace"):
            if not toks or not toks[0].startswith('"'):
                self.err("%s! without a literal message" % name)
            return
        if name == "debug_assert_eq":
            parts = split_commas(toks)
            if len(parts) == 2 and parts[0] == ["node", ".", "tag_name", "(", ")"] and len(parts[1]) == 1:
                if self.tag is not None or self.raw:
                    self.err("the tag assertion is not the first statement")
                c = parts[1][0]
                if c not in self.ctx.consts:
                    self.err("tag assertion against %s, not a constant of elem_name.rs" % c)
                self.tag = "src_" + c
                return
            self.err("debug_assert_eq! is not a tag assertion")
        if name == "debug_assert":
            if toks[:6] == ["node", ".", "tag_name", "(", ")", "=="] and len(toks) == 7 and toks[6].startswith('"'):
                if self.tag is not None or self.raw:
                    self.err("the tag assertion is not the first statement")
                self.tag = "%s (* %s *)" % (zs(toks[6][1:-1]), toks[6])
                return
            if len(toks) == 7 and toks[1] == "." and toks[3:] == [".", "is_empty", "(", ")"]:
                r, f = toks[0], toks[2]
                self.add("assertempty", r, None, rec=self.use(r), recname=r, field=f)
                return
            self.err("unsupported debug_assert!")
        self.err("unsupported macro %s!" % name)

    def whilelet(self, pat, e, blk):
        stmts, tail = blk[1], blk[2]
        if tail is not None:
            self.err("while let body with a value")
        # while let Some(x) = CHAIN { v.push(x); }
        if len(pat) == 4 and pat[0] == "Some" and pat[1] == "(" and pat[3] == ")":
            x = pat[2]
            tags = self.parse_if_chain(e)
            if tags is not None:
                if (len(stmts) == 1 and stmts[0][0] == "expr" and stmts[0][1][0] == "mcall" and stmts[0][1][2] == "push"
                        and stmts[0][1][3] == (("path", (x,)),)):
                    v = self.local_of(stmts[0][1][1])
                    self.take_vec(v)
                    self.add("rep", v, self.pending_ty, tags=tags)
                    return
                self.err("while let over parse_if does not just push the result")
        if len(pat) == 5 and pat[:3] == ("Some", "(", "mut") and pat[4] == ")":
            n = pat[3]
            nparse = ("mcall", ("path", (n,)), "parse", A3)
            # while let Some(mut n) = node.next() { let e = n.parse(A3); v.push(e); }
            if e == ("mcall", ("path", ("node",)), "next", ()):
                if (len(stmts) == 2 and stmts[0][0] == "let" and stmts[0][4] == nparse and stmts[1][0] == "expr"
                        and stmts[1][1][0] == "mcall" and stmts[1][1][2] == "push"
                        and stmts[1][1][3] == (("path", (stmts[0][2],)),)):
                    v = self.local_of(stmts[1][1][1])
                    self.take_vec(v)
                    self.add("repall", v, self.pending_ty, ety=stmts[0][3])
                    return
                self.err("while let over node.next() has an unsupported body")
            # while let Some(mut n) = node.next_if(T) { let e: Impl = n.parse(A3); let id = e.a.b;
            #                                            node_builder.store_node(id, NodeData::V(e.into())); v.push(id); }
            a = node_call(e, "next_if")
            if a is not None and len(a) == 1 and len(stmts) == 4:
                s0, s1, s2, s3 = stmts
                ok = s0[0] == "let" and s0[3] is not None and s0[4] == nparse and s1[0] == "let"
                if ok:
                    en, idn = s0[2], s1[2]
                    pth, f = [], s1[4]
                    while f[0] == "field":
                        pth.insert(0, f[2])
                        f = f[1]
                    ok = f == ("path", (en,)) and pth
                    ok = ok and s2[0] == "expr" and s2[1][0] == "mcall" and is_path(s2[1][1], "node_builder") \
                        and s2[1][2] == "store_node" and len(s2[1][3]) == 2 and s2[1][3][0] == ("path", (idn,)) \
                        and s2[1][3][1][0] == "call" and s2[1][3][1][1][0] == "path" and len(s2[1][3][1][1][1]) == 2 \
                        and s2[1][3][1][1][1][0] == "NodeData" \
                        and s2[1][3][1][2] == (("mcall", ("path", (en,)), "into", ()),)
                    ok = ok and s3[0] == "expr" and s3[1][0] == "mcall" and s3[1][2] == "push" \
                        and s3[1][3] == (("path", (idn,)),)
                if ok:
                    v = self.local_of(s3[1][1])
                    self.take_vec(v)
                    self.add("repnested", v, self.pending_ty, tag=self.ctx.tag(a[0], self.where), impl=s0[3],
                             variant=s2[1][3][1][1][1][1], idpath=pth)
                    return
                self.err("while let over node.next_if(..) has an unsupported body")
        self.err("unsupported while let")

    def take_vec(self, v):
        if v not in self.pending_vec:
            self.err("`%s` is not a fresh `let mut %s = vec![]`" % (v, v))
        self.pending_ty = self.pending_vec.pop(v)

    def expr_stmt(self, e):
        if e[0] == "macro":
            self.macro_stmt(e)
            return
        if e[0] == "mcall" and e[2] == "extend" and len(e[3]) == 1:
            a, b = self.local_of(e[1]), self.local_of(e[3][0])
            ab, bb = self.use(a), self.use(b)
            self.add("extend", a, None, a=ab, aname=a, b=bb, bname=b)
            return
        self.err("unsupported statement %r" % (e,))

    def final(self, e):
        if e[0] != "struct" or len(e[1]) != 1 or e[1][0] not in self.self_names:
            self.err("the body does not end in a literal of the parsed type")
        sname = self.self_names[-1]
        res = []
        for f, v in e[2]:
            if is_path(v, "PhantomData"):
                continue
            x = self.local_of(v)
            res.append((f, x, self.use(x)))
        decl = [(f, t) for f, t in self.ctx.structs[sname] if t[0] != "PhantomData"]
        if sorted(f for f, _ in decl) != sorted(f for f, _, _ in res) or len(e[2]) != len(self.ctx.structs[sname]):
            self.err("the final literal does not list exactly the fields of %s" % sname)
        # the order of the fields in a struct literal has no meaning: declaration order of the struct
        pos = {f: i for i, (f, _) in enumerate(decl)}
        self.result = sorted(res, key=lambda r: pos[r[0]])
        self.result_struct = sname

    def run(self, blk):
        stmts, tail = list(blk[1]), blk[2]
        # `let node = Self {..}; node.register_base.store_invalidators(node.attr_base.id, cache_builder); node`
        if (tail is not None and tail[0] == "path" and len(tail[1]) == 1 and len(stmts) >= 2
                and stmts[-2][0] == "let" and stmts[-2][2] == tail[1][0] and stmts[-2][4][0] == "struct"):
            n = tail[1][0]
            want = ("expr", ("mcall", ("field", ("path", (n,)), "register_base"), "store_invalidators",
                             (("field", ("field", ("path", (n,)), "attr_base"), "id"), ("path", ("cache_builder",)))))
            if stmts[-1] != want:
                self.err("the statement before the result is not register_base.store_invalidators(attr_base.id, cache_builder)")
            self.inv = True
            tail = stmts[-2][4]
            stmts = stmts[:-2]
        if tail is None:
            self.err("no result expression")
        for s in stmts:
            if s[0] == "let":
                self.let(s[1], s[2], s[3], s[4])
            elif s[0] == "whilelet":
                self.whilelet(s[1], s[2], s[3])
            elif s[0] == "expr":
                self.expr_stmt(s[1])
            else:
                self.err("unsupported statement kind %s" % s[0])
        if self.pending_vec:
            self.err("vec![] locals never filled: %s" % sorted(self.pending_vec))
        self.final(tail)
        self.infer()
        return self

    # ---- types of the locals ----
    def settype(self, b, ty):
        if ty is None:
            return False
        if b in self.types:
            if self.types[b] != ty:
                self.err("conflicting types %s / %s for one local" % (type_name(self.types[b]), type_name(ty)))
            return False
        self.types[b] = ty
        return True

    def infer(self):
        fields = dict(self.ctx.structs[self.result_struct])
        for f, x, b in self.result:
            self.settype(b, fields[f])
        changed = True
        while changed:
            changed = False
            for r in self.raw:
                b, k = r["bind"], r["kind"]
                t = self.types.get(b)
                if k == "deduce" and t is not None:
                    changed |= self.settype(r["x"], (OPT, (t,)))
                elif k == "extend":
                    for u, w in ((b, r["a"]), (r["a"], b), (r["a"], r["b"]), (r["b"], r["a"])):
                        changed |= self.settype(u, self.types.get(w))
                elif k in ("cleared", "assertempty"):
                    changed |= self.settype(b, self.types.get(r["rec"]))
                    changed |= self.settype(r["rec"], self.types.get(b))
                elif k == "take":
                    rt = self.types.get(r["rec"])
                    if rt is not None:
                        if rt[0] not in self.ctx.structs:
                            self.err("std::mem::take on a field of %s" % type_name(rt))
                        ft = dict(self.ctx.structs[rt[0]]).get(r["field"])
                        if ft is None:
                            self.err("%s has no field %s" % (rt[0], r["field"]))
                        changed |= self.settype(b, ft)
                elif k == "record":
                    st = dict(self.ctx.structs[t[0]])
                    for f, x, xb in r["fields"]:
                        changed |= self.settype(xb, st[f])
                elif k == "xor":
                    for u, w in ((r["a"], b), (r["b"], b), (b, r["a"])):
                        changed |= self.settype(u, self.types.get(w))

    def ty_of(self, b, what):
        t = self.types.get(b)
        if t is None:
            self.err("cannot determine the type of %s" % what)
        return t

    def dflt_val(self, d, T):
        kind, args = d
        w = self.where
        if kind == "unwrap_or_default":
            if args != ():
                self.err("unwrap_or_default with arguments")
            return self.ctx.default_of(T, w)
        if len(args) != 1:
            self.err("%s arguments" % kind)
        e = args[0]
        if kind == "unwrap_or":
            if e[0] == "path" and len(e[1]) == 2 and e[1][0] == T[0] and T[0] in self.ctx.enums \
                    and (e[1][1], "unit", None) in self.ctx.enums[T[0]]:
                return "(VEnum %s (* %s *))" % (zs(e[1][1]), e[1][1])
            if e[0] == "int" and T in (("i64", ()), ("u64", ())):
                return "(VInt %d)" % e[1]
            if e[0] == "call" and is_path(e[1], "ImmOrPNode", "Imm") and len(e[2]) == 1 and e[2][0][0] == "int" \
                    and T == ("ImmOrPNode", (("i64", ()),)):
                return "(VCtor \"Imm\" [VInt %d])" % e[2][0][1]
            self.err("unsupported default %r for %s" % (e, type_name(T)))
        if kind == "unwrap_or_else":
            if e[0] == "closure" and e[1] == () and e[2][0] == "block" and len(e[2][1]) == 1:
                st, tail = e[2][1][0], e[2][2]
                if (st[0] == "let" and st[4][0] == "mcall" and is_path(st[4][1], "value_builder") and st[4][2] == "store"
                        and len(st[4][3]) == 1 and st[4][3][0][0] == "path" and len(st[4][3][0][1]) == 2
                        and st[4][3][0][1][0] == "f64" and st[4][3][0][1][1] in F64_BITS
                        and tail == ("call", ("path", ("ImmOrPNode", "Imm")), (("path", (st[2],)),))
                        and T == ("ImmOrPNode", (("FloatId", ()),))):
                    c = st[4][3][0][1][1]
                    return "(VCtor \"Imm\" [VFlt (FvBits %d)] (* f64::%s *))" % (F64_BITS[c], c)
            self.err("unsupported unwrap_or_else default for %s" % type_name(T))
        self.err("unknown default kind %s" % kind)

    def conv(self, cv, T, what):
        """conversion of an attribute text to a value of type T"""
        if cv in ("into", "CvRaw"):
            if T is None:
                return "CvRaw"            # a &str only used through get_or_intern / format!
            if T in (("String", ()), ("str", ())):
                return "CvRaw"
            if T[0] in self.ctx.lits and not T[1]:
                if cv != "into":
                    self.err("%s: an enum from a raw attribute text" % what)
                return "(CvEnum %s)" % qs(T[0])
            self.err("%s: attribute text converted into %s" % (what, type_name(T)))
        want = {"CvBool": ("bool", ()), "CvUint": ("u64", ()), "CvInt": ("i64", ()),
                "CvImmInt": ("ImmOrPNode", (("i64", ()),)), "CvPNode": ("ImmOrPNode", (("i64", ()),))}[cv]
        if T is not None and T != want:
            self.err("%s: %s yields %s, the local has type %s" % (what, cv, type_name(want), type_name(T)))
        return cv

    def emit(self):
        out = []
        g = self.gen
        for r in self.raw:
            b, k, x = r["bind"], r["kind"], r["local"]
            what = "`%s`" % x
            if k == "req":
                s = "SReq %s" % self.ctx.ety(self.ty_of(b, what), g, self.where)
            elif k == "opt":
                T = self.ty_of(b, what)
                if r["dflt"] is None:
                    T = unwrap_ty(T, OPT, self.where, what)
                    d = "DNone"
                else:
                    d = "(DVal %s)" % self.dflt_val(r["dflt"], T)
                s = "SOpt %s %s %s" % (coq_list(r["tags"]), self.ctx.ety(T, g, self.where), d)
            elif k == "rep":
                T = unwrap_ty(self.ty_of(b, what), "Vec", self.where, what)
                s = "SRep %s %s" % (coq_list(r["tags"]), self.ctx.ety(T, g, self.where))
            elif k == "opthex":
                if self.ty_of(b, what) != (OPT, (("u64", ()),)):
                    self.err("%s: hexadecimal reader into %s" % (what, type_name(self.types[b])))
                s = "SOptHex %s" % r["tag"]
            elif k == "valueorref":
                if self.ty_of(b, what) != ("ImmOrPNode", (("StringId", ()),)):
                    self.err("%s: value-or-reference into %s" % (what, type_name(self.types[b])))
                s = "SValueOrRef %s \"Imm\" \"PNode\"" % r["tag"]
            elif k == "hexorref":
                if self.ty_of(b, what) != (OPT, (("ImmOrPNode", (("u64", ()),)),)):
                    self.err("%s: hexadecimal-or-reference into %s" % (what, type_name(self.types[b])))
                s = "SHexOrRef %s %s \"Imm\" \"PNode\"" % (r["tag"], r["ptag"])
            elif k == "attr":
                T = self.types.get(b)
                if r["req"]:
                    cv = self.conv(r["cv"], T, what)
                    s = "%s %s %s" % ("SPeekAttrReq" if r["peek"] else "SAttrReq", r["attr"], cv)
                else:
                    if r["dflt"]:
                        if T is None:
                            self.err("cannot determine the type of %s" % what)
                        cv = self.conv(r["cv"], T, what)
                        d = "(DVal %s)" % self.ctx.default_of(T, self.where)
                    else:
                        cv = self.conv(r["cv"], unwrap_ty(T, OPT, self.where, what) if T is not None else None, what)
                        d = "DNone"
                    if r["peek"]:
                        if d != "DNone":
                            self.err("%s: default on an attribute of the next child" % what)
                        s = "SPeekAttrOpt %s %s" % (r["attr"], cv)
                    else:
                        s = "SAttrOpt %s %s %s" % (r["attr"], cv, d)
            elif k == "repall":
                T = unwrap_ty(self.ty_of(b, what), "Vec", self.where, what)
                if r["ety"] is not None and r["ety"] != T:
                    self.err("%s: annotated element type" % what)
                if T[1] or T[0] not in self.ctx.impls:
                    self.err("%s: no Parse impl for %s" % (what, type_name(T)))
                s = "SRepAllNested %s" % qs(T[0])
            elif k == "repnested":
                if self.ty_of(b, what) != ("Vec", (("NodeId", ()),)):
                    self.err("%s: ids pushed into %s" % (what, type_name(self.types[b])))
                T = r["impl"]
                if T[1] or T[0] not in self.ctx.impls:
                    self.err("%s: no Parse impl for %s" % (what, type_name(T)))
                pt = T
                for f in r["idpath"]:
                    ft = dict(self.ctx.structs.get(pt[0], [])).get(f)
                    if ft is None:
                        self.err("%s: %s has no field %s" % (what, type_name(pt), f))
                    pt = ft
                if pt != ("NodeId", ()):
                    self.err("%s: the id path does not end in a NodeId" % what)
                s = "SRepNested %s %s %s %s" % (r["tag"], qs(T[0]), qs(r["variant"]), coq_list(qs(f) for f in r["idpath"]))
            elif k == "intern":
                s = "SIntern %s" % qs(r["srcname"])
            elif k == "fresh":
                s = "SFreshName %s" % qs(r["srcname"])
            elif k == "record":
                s = "SRecord %s" % coq_list("(%s, %s)" % (qs(f), qs(l)) for f, l, _ in r["fields"])
            elif k == "deduce":
                T = self.ty_of(b, what)
                if T != ("ImmOrPNode", (("IntegerId", ()),)) or \
                        self.ty_of(r["src"], r["srcname"]) != ("IntegerRepresentation", ()):
                    self.err("%s: %s of %s into %s" % (what, r["fn"], r["srcname"], type_name(T)))
                s = "SDeduce %s %s %s" % (qs(r["fn"]), qs(r["xname"]), qs(r["srcname"]))
            elif k == "extend":
                s = "SExtend %s %s" % (qs(r["aname"]), qs(r["bname"]))
            elif k == "take":
                self.ty_of(b, what)
                s = "STake %s %s" % (qs(r["recname"]), qs(r["field"]))
            elif k == "cleared":
                T = self.ty_of(b, what)
                ft = dict(self.ctx.structs[T[0]])[r["field"]]
                if ft[0] != "Vec":
                    self.err("std::mem::take of a non-Vec field")
                s = "SCleared %s %s" % (qs(r["recname"]), qs(r["field"]))
            elif k == "boolsel":
                if (self.ty_of(r["v"], r["vname"]) != ("ImmOrPNode", (("bool", ()),))
                        or self.ty_of(r["on"], r["onname"]) != ("i64", ()) or self.ty_of(r["off"], r["offname"]) != ("i64", ())
                        or self.ty_of(b, what) != ("ImmOrPNode", (("IntegerId", ()),))):
                    self.err("%s: types of the OnValue / OffValue selection" % what)
                s = "SBoolSel %s %s %s" % (qs(r["vname"]), qs(r["onname"]), qs(r["offname"]))
            elif k == "xor":
                s = "SXor %s %s" % (qs(r["aname"]), qs(r["bname"]))
            elif k == "assertempty":
                T = self.ty_of(b, what)
                ft = dict(self.ctx.structs.get(T[0], [])).get(r["field"])
                if ft is None or ft[0] != "Vec":
                    self.err("is_empty() assertion on %s.%s" % (type_name(T), r["field"]))
                s = "SAssertEmpty %s %s" % (qs(r["recname"]), qs(r["field"]))
            else:
                self.err("internal: step kind %s" % k)
            out.append("(%s, %s)" % (qs(x), s))
        return out


# ------------------------------------------------------------------------------------------- enum impls ----
PEEK_TEXT = ("mcall", ("mcall", ("mcall", ("path", ("node",)), "peek", ()), "unwrap", ()), "text", ())
NODE_PARSE = ("mcall", ("path", ("node",)), "parse", A3)


def subst_ty(ty, var, arg):
    n, a = ty
    if n == var and not a:
        return arg
    return (n, tuple(subst_ty(x, var, arg) for x in a))


def variant_payload(ctx, ename, ctor, where):
    for v, kind, payload in ctx.enums.get(ename, []):
        if v == ctor:
            return kind, payload
    raise ShapeError("%s: %s has no variant %s" % (where, ename, ctor))


def ctor_call(e, ename, where):
    """Self::C(x) / Enum::C(x) -> (C, x)"""
    if e[0] == "block" and e[1] == [] and e[2] is not None:
        e = e[2]
    if e[0] == "call" and e[1][0] == "path" and len(e[1][1]) == 2 and e[1][1][0] in ("Self", ename) and len(e[2]) == 1:
        return e[1][1][1], e[2][0]
    raise ShapeError("%s: a branch is not <enum>::Variant(node.parse(..)): %r" % (where, e))


def translate_cond(e, tv, where):
    if e[0] == "binary" and e[1] == "||":
        return "(COr %s %s)" % (translate_cond(e[2], tv, where), translate_cond(e[3], tv, where))
    if e[0] == "not":
        return "(CNot %s)" % translate_cond(e[1], tv, where)
    if e[0] == "binary" and e[1] == "==" and e[2] == tv and e[3][0] == "str":
        return "(CTextEq %s (* \"%s\" *))" % (zs(e[3][1]), e[3][1])
    view = ("mcall", tv, "view", ())
    if e == ("mcall", ("mcall", ("mcall", ("mcall", view, "chars", ()), "next", ()), "unwrap", ()), "is_alphabetic", ()):
        return "CAlpha"
    if e == ("mcall", ("call", ("path", ("convert_to_bool_opt",)), (("ref", False, ("mcall", PEEK_TEXT, "view", ())),)),
             "is_some", ()):
        return "CBoolWord"
    raise ShapeError("%s: unsupported sniffing condition %r" % (where, e))


def translate_sniff(ctx, name, ty, gen, blk, where):
    stmts, tail = blk[1], blk[2]
    tv = PEEK_TEXT
    if len(stmts) == 1 and stmts[0][0] == "let" and stmts[0][4] == PEEK_TEXT and not stmts[0][1]:
        tv = ("path", (stmts[0][2],))
    elif stmts:
        raise ShapeError("%s: statements before the sniffing `if`" % where)
    if tail is None or tail[0] != "if" or tail[3] is None:
        raise ShapeError("%s: the body is not if / else" % where)
    c = translate_cond(tail[1], tv, where)
    out = []
    for br in (tail[2], tail[3]):
        ctor, arg = ctor_call(br, ty[0], where)
        if arg != NODE_PARSE:
            raise ShapeError("%s: the branch %s does not hold node.parse(builders)" % (where, ctor))
        kind, payload = variant_payload(ctx, ty[0], ctor, where)
        if kind != "tuple" or len(payload) != 1:
            raise ShapeError("%s: payload of %s" % (where, ctor))
        pt = subst_ty(payload[0], "T", ty[1][0]) if ty[1] else payload[0]
        out.append("(%s, %s)" % (qs(ctor), ctx.ety(pt, gen, where)))
    if out[0].split(",")[0] == out[1].split(",")[0]:
        raise ShapeError("%s: both branches build the same variant" % where)
    return "BSniff %s %s %s" % (c, out[0], out[1])


def check_id_accessor(ctx, impl, where):
    """x.node_base().id() of <impl> is x.attr_base.id"""
    relmap = {"IntSwissKnifeNode": "int_swiss_knife.rs"}
    if impl not in relmap:
        raise ShapeError("%s: node_base().id() of %s is not pinned" % (where, impl))
    a = " ".join(tokenize(cut_tests(read(ctx.repo, "genapi/src/" + relmap[impl]))))
    b = " ".join(tokenize(cut_tests(read(ctx.repo, "genapi/src/node_base.rs"))))
    if ("impl INode for %s { fn node_base ( & self ) -> NodeBase { NodeBase :: new ( & self . attr_base , & self . elem_base ) }" % impl) not in a:
        raise ShapeError("%s::node_base is no longer NodeBase::new(&self.attr_base, &self.elem_base)" % impl)
    if "pub ( crate ) fn new ( attr : & 'a NodeAttributeBase , elem : & 'a NodeElementBase ) -> Self { Self { attr , elem } }" not in b \
            or "pub fn id ( & self ) -> NodeId { self . attr . id }" not in b:
        raise ShapeError("NodeBase::new / NodeBase::id no longer have the pinned shape")


def translate_tagmatch(ctx, name, ty, gen, blk, where):
    stmts, tail = blk[1], blk[2]
    if not (len(stmts) == 1 and stmts[0][0] == "let" and stmts[0][4] == ("mcall", ("mcall", ("path", ("node",)), "peek", ()), "unwrap", ())):
        raise ShapeError("%s: the body does not start with `let x = node.peek().unwrap();`" % where)
    pk = stmts[0][2]
    if tail is None or tail[0] != "match" or tail[1] != ("mcall", ("path", (pk,)), "tag_name", ()):
        raise ShapeError("%s: the body is not a match on the tag of the next child" % where)
    arms = []
    seen = set()
    for i, (pat, e) in enumerate(tail[2]):
        if pat == ("_",):
            if i != len(tail[2]) - 1 or e != ("macro", "unreachable", ()):
                raise ShapeError("%s: the catch-all arm is not a final unreachable!()" % where)
            continue
        tags = []
        for part in " ".join(pat).split(" | "):
            if part not in ctx.consts:
                raise ShapeError("%s: arm pattern %s is not a constant of elem_name.rs" % (where, part))
            if part in seen:
                raise ShapeError("%s: tag %s in two arms" % (where, part))
            seen.add(part)
            tags.append("src_" + part)
        # { let x = node.parse(A3); C(x) }  ==  C(node.parse(A3))
        if e[0] == "block" and len(e[1]) == 1 and e[1][0][0] == "let" and e[1][0][4] == NODE_PARSE and e[2] is not None:
            ctor, arg = ctor_call(e[2], ty[0], where)
            if arg != ("path", (e[1][0][2],)):
                raise ShapeError("%s: arm %s" % (where, ctor))
            arg = NODE_PARSE
        elif e[0] == "block" and len(e[1]) == 3:
            s0, s1, s2 = e[1]
            ctor, arg = ctor_call(e[2], ty[0], where)
            ok = (s0[0] == "let" and s0[3] is not None and not s0[3][1]
                  and s0[4] == ("mcall", ("mcall", ("mcall", ("path", ("node",)), "next", ()), "unwrap", ()), "parse", A3)
                  and s1[0] == "let"
                  and s1[4] == ("mcall", ("mcall", ("path", (s0[2],)), "node_base", ()), "id", ())
                  and arg == ("path", (s1[2],))
                  and s2[0] == "expr" and s2[1][0] == "mcall" and is_path(s2[1][1], "node_builder")
                  and s2[1][2] == "store_node" and len(s2[1][3]) == 2 and s2[1][3][0] == ("path", (s1[2],))
                  and s2[1][3][1][0] == "call" and s2[1][3][1][1][0] == "path" and len(s2[1][3][1][1][1]) == 2
                  and s2[1][3][1][1][1][0] == "NodeData"
                  and s2[1][3][1][2] == (("mcall", ("path", (s0[2],)), "into", ()),))
            if not ok:
                raise ShapeError("%s: arm %s is not the nested-node shape" % (where, ctor))
            impl = s0[3][0]
            if impl not in ctx.impls:
                raise ShapeError("%s: no Parse impl for %s" % (where, impl))
            check_id_accessor(ctx, impl, where)
            kind, payload = variant_payload(ctx, ty[0], ctor, where)
            if kind != "tuple" or payload != [("NodeId", ())]:
                raise ShapeError("%s: payload of %s" % (where, ctor))
            arms.append("(%s, ANested %s %s %s [\"attr_base\"; \"id\"])"
                        % (coq_list(tags), qs(ctor), qs(impl), qs(s2[1][3][1][1][1][1])))
            continue
        else:
            ctor, arg = ctor_call(e, ty[0], where)
        if arg != NODE_PARSE:
            raise ShapeError("%s: arm %s does not hold node.parse(builders)" % (where, ctor))
        kind, payload = variant_payload(ctx, ty[0], ctor, where)
        if kind != "tuple" or len(payload) != 1:
            raise ShapeError("%s: payload of %s" % (where, ctor))
        arms.append("(%s, AParse %s %s)" % (coq_list(tags), qs(ctor), ctx.ety(payload[0], gen, where)))
    return "BTagMatch\n    [%s]" % ";\n     ".join(arms)


def translate_optelse(ctx, name, ty, gen, blk, where):
    stmts, tail = blk[1], blk[2]
    if stmts or tail is None or tail[0] != "mcall" or tail[2] != "map_or_else" or len(tail[3]) != 2:
        raise ShapeError("%s: the body is not node.parse_if(..).map_or_else(.., ..)" % where)
    a = node_call(tail[1], "parse_if")
    if a is None or len(a) != 4 or not is_a3(a[1:]):
        raise ShapeError("%s: receiver of map_or_else" % where)
    tag = ctx.tag(a[0], where)
    no, yes = tail[3]
    if yes[0] != "path" or len(yes[1]) != 2 or yes[1][0] not in ("Self", ty[0]):
        raise ShapeError("%s: second argument of map_or_else is not a variant constructor" % where)
    ctor = yes[1][1]
    kind, payload = variant_payload(ctx, ty[0], ctor, where)
    if kind != "tuple" or len(payload) != 1:
        raise ShapeError("%s: payload of %s" % (where, ctor))
    if no[0] != "closure" or no[1] != () or no[2][0] != "block" or no[2][2] is None or no[2][2][0] != "struct":
        raise ShapeError("%s: first argument of map_or_else" % where)
    lit = no[2][2]
    if len(lit[1]) != 2 or lit[1][0] not in ("Self", ty[0]):
        raise ShapeError("%s: literal in the closure" % where)
    ctor2 = lit[1][1]
    kind2, fields2 = variant_payload(ctx, ty[0], ctor2, where)
    if kind2 != "record":
        raise ShapeError("%s: %s is not a struct-like variant" % (where, ctor2))
    ft = dict(fields2)
    steps, bound = [], {}
    for s in no[2][1]:
        if s[0] != "let" or s[4] != NODE_PARSE or s[1]:
            raise ShapeError("%s: statement in the closure is not `let x = node.parse(builders);`" % where)
        bound[s[2]] = len(steps)
        steps.append([s[2], s[3]])
    res = []
    for f, v in lit[2]:
        if v[0] != "path" or len(v[1]) != 1 or v[1][0] not in bound or f not in ft:
            raise ShapeError("%s: field %s of the literal" % (where, f))
        i = bound[v[1][0]]
        if steps[i][1] is not None and steps[i][1] != ft[f]:
            raise ShapeError("%s: type of %s" % (where, f))
        steps[i][1] = ft[f]
        res.append("(%s, %s)" % (qs(f), qs(v[1][0])))
    if sorted(f for f, _ in lit[2]) != sorted(ft):
        raise ShapeError("%s: the literal does not list the fields of %s" % (where, ctor2))
    for x, t in steps:
        if t is None:
            raise ShapeError("%s: unused local %s" % (where, x))
    st = ["(%s, SReq %s)" % (qs(x), ctx.ety(t, gen, where)) for x, t in steps]
    return "BOptElse %s %s %s\n    %s %s %s" % (tag, ctx.ety(payload[0], gen, where), qs(ctor), coq_list(st), qs(ctor2),
                                                coq_list(res))


# ------------------------------------------------------------------------------------------------ driver ----
ENUM_SHAPES = {"ImmOrPNode<i64>": translate_sniff, "ImmOrPNode<f64>": translate_sniff, "ImmOrPNode<bool>": translate_sniff,
               "ValueKind<T>": translate_tagmatch, "AddressKind": translate_tagmatch, "BitMask": translate_optelse}


def coq_name(n):
    return re.sub(r"[^A-Za-z0-9]+", "_", n.replace("<T>", "")).strip("_")


def translate(repo):
    ctx = Ctx(repo)
    # pinned leaves and macros
    for n, want in PINNED.items():
        if n not in ctx.impls:
            raise ShapeError("the Parse impl of the leaf type %s has disappeared" % n)
        got = " ".join(ctx.impls[n][3])
        if got != want:
            raise ShapeError("the Parse impl of the leaf type %s is no longer the pinned text" % n)
    for n, want in PINNED_MACROS.items():
        if " ".join(ctx.macros.get(n, ())) != want:
            raise ShapeError("macro %s is no longer the pinned text" % n)
    if sorted(c for c in ctx.calls if c[0] in PINNED_MACROS) != sorted(PINNED_CALLS):
        raise ShapeError("the invocations of the id macros changed: %r" % (ctx.calls,))
    for e in ctx.text_enums:
        body = " ".join(ctx.impls[e][2])
        if not re.fullmatch(r"\{ (?:use \w+ :: \{ [\w ,]+ \} ; )?let (\w+) = node \. next_text \( \) \. unwrap \( \) ; "
                            r"match_text_view ! [({] \1 , (?:\"[^\"]*\" => [\w: ]+ , )+[)}] \}", body):
            raise ShapeError("the Parse impl of the text enum %s is no longer next_text + match_text_view!" % e)
    mt = " ".join(ctx.macros.get("match_text_view", ()))
    if mt != ("macro_rules ! match_text_view { ( $ text : expr , $ s1 : expr => $ var1 : expr , $ ( $ s : expr => $ var : expr , ) * ) "
              "=> { if $ text == $ s1 { $ var1 } $ ( else if $ text == $ s { $ var } ) * else { unreachable ! ( ) } } }"):
        raise ShapeError("macro match_text_view is no longer the pinned text")
    out, tags, invs, uncovered = [], [], [], []
    for n in ctx.order:
        ty, gen, body, raw, rel = ctx.impls[n]
        where = "%s: impl Parse for %s" % (rel, n)
        if n in PINNED or n in ctx.text_enums:
            continue
        if n not in COVERED:
            uncovered.append((n, rel))
            continue
        p = Parser(list(body), where)
        blk = p.block()
        if not p.at_end():
            p.err("trailing tokens")
        cn = coq_name(n)
        if n in ENUM_SHAPES:
            out.append((cn, n, rel, ENUM_SHAPES[n](ctx, n, ty, gen, blk, where)))
            continue
        if ty[0] not in ctx.structs:
            raise ShapeError("%s: %s is not a known struct" % (where, ty[0]))
        sb = StructBody(ctx, n, gen, where, ["Self", ty[0]]).run(blk)
        steps = sb.emit()
        res = coq_list("(%s, %s)" % (qs(f), qs(x)) for f, x, _ in sb.result)
        out.append((cn, n, rel, "BStruct\n    [%s]\n    %s" % (";\n     ".join(steps), res)))
        if sb.tag is not None:
            tags.append((cn, sb.tag))
        if sb.inv:
            invs.append(cn)
    # a nested element is handed to an impl only under the tag that impl asserts at its head
    tagd = dict(tags)
    for cn, n, rel, body in out:
        for tag, impl in re.findall(r'SRepNested (src_\w+) "(\w+)"', body) + \
                re.findall(r'\(\[(src_\w+)\], ANested "\w+" "(\w+)"', body):
            if tagd.get(impl) != tag:
                raise ShapeError("%s: impl Parse for %s: a nested %s is parsed under %s but asserts %s"
                                 % (rel, n, impl, tag, tagd.get(impl)))
        if re.search(r'ANested', body) and len(re.findall(r'ANested', body)) != \
                len(re.findall(r'\(\[src_\w+\], ANested', body)):
            raise ShapeError("%s: impl Parse for %s: a nested arm with several tags" % (rel, n))
    missing = [n for n in COVERED if n not in ctx.impls]
    if missing:
        raise ShapeError("covered Parse impls have disappeared: %r" % missing)
    return ctx, out, tags, invs, uncovered


def render(ctx, out, tags, invs, uncovered):
    L = ["(* GENERATED by tools/translate_parseorder.py from genapi/src/parser/*.rs - do not edit.",
         "   The element schedule of every covered `impl Parse for X`, over the vocabulary of model/PoOps.v; tags are the",
         "   constants of gen/ElemNames.v.",
         "   Pinned leaf impls (token text asserted by the translator): %s;" % ", ".join(sorted(PINNED)),
         "   the macros %s with their invocations for IntegerId / FloatId;" % ", ".join(sorted(PINNED_MACROS)),
         "   the text enums (next_text + match_text_view!, tables in gen/ElemNames.v): %s." % ", ".join(ctx.text_enums),
         "   NOT covered (listed only): %s. *)" % (", ".join("%s (%s)" % u for u in uncovered) or "none"),
         "From Cam Require Import PoOps ElemNames.",
         "Open Scope string_scope. Open Scope list_scope. Open Scope Z_scope.", ""]
    for cn, n, rel, body in out:
        L.append("(* %s: impl Parse for %s *)" % (rel, n))
        L.append("Definition src_po_%s : body :=\n  %s.\n" % (cn, body))
    L.append("(* debug_assert_eq!(node.tag_name(), TAG) at the head of an impl *)")
    L.append("Definition src_po_tags : list (string * list Z) :=\n  %s.\n"
             % coq_list("(%s, %s)" % (qs(cn), t) for cn, t in tags))
    L.append("(* impls ending in `node.register_base.store_invalidators(node.attr_base.id, cache_builder)` *)")
    L.append("Definition src_po_invalidators : list string := %s.\n" % coq_list(qs(c) for c in invs))
    L.append("Definition src_po_all : list (string * body) :=\n  %s.\n"
             % coq_list("(%s, src_po_%s)" % (qs(cn), cn) for cn, _, _, _ in out))
    L.append("Definition src_po_uncovered : list string := %s." % coq_list(qs(u[0]) for u in uncovered))
    return "\n".join(L) + "\n"


def regenerate(repo=None, out_path=None):
    repo = repo or os.environ.get("VERIF_REPO", "/repo")
    text = render(*translate(repo))
    path = out_path or OUT
    if not (os.path.exists(path) and open(path).read() == text):
        with open(path, "w") as f:
            f.write(text)
        return True
    return False


if __name__ == "__main__":
    try:
        repo = sys.argv[1] if len(sys.argv) > 1 else None
        outp = sys.argv[2] if len(sys.argv) > 2 else None
        ch = regenerate(repo, outp)
        print("gen/ParseOrderSrc.v", "rewritten" if ch else "unchanged")
    except (ShapeError, OSError) as e:
        print("translate_parseorder: ShapeError: %s" % e)
        sys.exit(3)
