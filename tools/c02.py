"""C02 — masked bit-field writes are isolated, range-checked and reversible."""
from reghist import reg_case, parse_output, CODE
from vplib import Case, Rng, standard_main

CODES = {"reg": CODE, "bm": 102, "bmw": 103}


def pattern(bs, en):
    b = bs[::-1] if en else bs
    return sum(x << (8 * i) for i, x in enumerate(b))


def to_bytes(p, L, en):
    b = [(p >> (8 * i)) & 255 for i in range(L)]
    return b[::-1] if en else b


def frange(w, sign):
    if sign:
        return -(1 << (w - 1)), (1 << (w - 1)) - 1
    return 0, min((1 << w) - 1, (1 << 63) - 1)


def fget(p, lo, hi, sign):
    w = hi - lo + 1
    raw = (p >> lo) & ((1 << w) - 1)
    if sign and raw >> (w - 1):
        raw -= 1 << w
    return raw


def fput(p, lo, hi, v):
    w = hi - lo + 1
    mask = ((1 << w) - 1) << lo
    return (p & ~mask) | ((v % (1 << w)) << lo)


def norm(n, L, en):
    if en:
        return 8 * L - 1 - n["lsb"], 8 * L - 1 - n["msb"]
    return n["lsb"], n["msb"]


def spec_step(m, mem, op):
    """One operation of the property on the register contents mem (the device's bytes):
    -> (result, image written or None), or None = outside the quantifier."""
    addr, L, en, base = m["addr"], m["length"], m["endian"], m["base"]
    off = addr - base
    k = op[0]
    n = m["nodes"][op[1]]
    p = pattern(mem[off:off + L], en)
    if n["kind"] == "int":
        if k != "v":
            return None
        u = p
        if n.get("sign") and u >> (8 * L - 1):
            u -= 1 << (8 * L)
        if not n.get("sign") and L == 8 and u >> 63:
            u -= 1 << 64
        return [0, u], None
    lo, hi = norm(n, L, en)
    if not (0 <= lo <= hi < 8 * L):
        return None
    sign = n.get("sign", 0)
    w = hi - lo + 1
    mn, mx = frange(w, sign)
    if k == "mn":
        return [0, mn], None
    if k == "mx":
        return [0, mx], None
    if k == "v":
        v = fget(p, lo, hi, sign)
        if not sign and w == 64 and v >> 63:
            return None      # the i64 API cannot represent it
        return [0, v], None
    if k == "s":
        v = op[2]
        if v < mn or v > mx:
            return [1, 33], None
        return [0], to_bytes(fput(p, lo, hi, v), L, en)
    return None


def spec_check(m, res, wlog):
    """Independent statement of the property for one history, checked against the observed results
    and the observed device writes.  A scripted rejection (op 'rej': one of the next device accesses
    fails) may make ONE later value / set operation fail with a device error; that operation then
    leaves the device as it was (a failed read-modify-write writes nothing, or its single write was
    the rejected access) and every later operation again sees the register as the device holds it.
    -> None (holds / outside the quantifier) or a message."""
    addr, L, base = m["addr"], m["length"], m["base"]
    off = addr - base

    def go(i, mem, armed, wi, lost=0, unsure=None):
        """unsure: the node whose own write lost its acknowledge - the host was told the write failed, so what that
        node itself reads back until the next successful write (its cache may still hold the word from before) is
        left open; what every OTHER operation sees and writes is not"""
        if i == len(m["ops"]):
            if wi != len(wlog):
                return "device writes beyond the required ones (field bits only)"
            return ("mem", mem)
        op = m["ops"][i]
        if op[0] == "rej":
            if res[i] != [0]:
                return "harness: rej"
            return go(i + 1, mem, armed + 1, wi, lost, unsure)
        if op[0] == "lost":
            if res[i] != [0]:
                return "harness: lost"
            return go(i + 1, mem, armed, wi, lost + 1, unsure)
        if lost > 0 and res[i] == [1, 30] and op[0] in ("v", "s"):
            # an access whose acknowledge was lost: the operation fails; if the lost access was the operation's write
            # the DEVICE HOLDS THE NEW WORD (field bits only, of the register as it held it) - every later operation
            # must see the register as the device holds it now
            st = spec_step(m, mem, op)
            if st is not None:
                e, img = st
                if e != [1, 33]:
                    r = go(i + 1, mem, armed, wi, lost - 1, unsure)           # the read was the lost access
                    if not isinstance(r, str):
                        return r
                    if img is not None and wi < len(wlog) and wlog[wi] == (addr, img):
                        mem2 = list(mem)
                        mem2[off:off + L] = img
                        return go(i + 1, mem2, armed, wi + 1, lost - 1, op[1])
                    return r
        st = spec_step(m, mem, op)
        if st is None:
            return ("skip", None)
        e, img = st
        if res[i] == [1, 30] and armed > 0 and op[0] in ("v", "s") and e != [1, 33]:
            # the rejected access: nothing reaches the device, or the one write that would have was refused
            r = go(i + 1, mem, armed - 1, wi, lost, unsure)
            if not isinstance(r, str):
                return r
            if img is not None and wi < len(wlog) and wlog[wi] == (addr, img):
                return go(i + 1, mem, armed - 1, wi + 1, lost, unsure)
            return r
        if op[0] == "v" and unsure == op[1] and res[i][:1] == [0]:
            return go(i + 1, mem, armed, wi, lost, unsure)
        if res[i] != e:
            return "op %d %r: result %r, the property requires %r" % (i, op, res[i][:4], e[:4])
        if img is not None:
            if wi >= len(wlog) or wlog[wi] != (addr, img):
                return "op %d %r: device write differs from the required one (field bits only, of the register as the device holds it)" % (i, op)
            mem = list(mem)
            mem[off:off + L] = img
            wi += 1
            unsure = None
        return go(i + 1, mem, armed, wi, lost, unsure)

    return go(0, list(m["image"]), 0, 0)


def predicate(c, out):
    if c.kind in ("bm", "bmw"):
        return pred_pure(c, out)
    m = c.meta
    if out is None or out in ([2], [3], [4]):
        return "harness died / panicked: %r" % (out,)
    po = parse_output(out, len(m["ops"]))
    if po is None:
        return "unparsable output"
    res, log, mem = po
    if any(r == [2] for r in res):
        i = [r == [2] for r in res].index(True)
        return "op %d %r panicked" % (i, m["ops"][i])
    for e in log:
        ln = e[2] if e[0] == "R" else len(e[2])
        if e[1] != m["addr"] or ln != m["length"]:
            return "device access outside the register"
    # writes that reached the device or were refused by it, in order
    wlog = [(e[1], e[2]) for e in log if e[0] == "W"]
    r = spec_check(m, res, wlog)
    if isinstance(r, str):
        return r
    if r[0] == "mem" and mem != r[1]:
        return "final register contents differ: other bits changed or field wrong"
    return None


def pred_pure(c, out):
    if out is None or out in ([2], [3], [4]):
        return "BitMask function panicked"
    return None


def nontrivial(c, out):
    if c.kind != "reg":
        return out is not None
    po = parse_output(out, len(c.meta["ops"])) if out else None
    return bool(po and any(e[0] == "W" for e in po[1]))


def field_values(w, sign, rng, n_random):
    mn, mx = frange(w, sign)
    if w <= 8:
        return list(range(mn - 1, mx + 2))
    vals = {mn, mx, mn - 1, mx + 1, 0, 1, -1, mn + 1, mx - 1}
    for k in range(w):
        for d in (-1, 0, 1):
            for sg in (1, -1):
                vals.add(sg * ((1 << k) + d))
    vals |= {rng.range(mn, mx) for _ in range(n_random)}
    return sorted(v for v in vals if -(1 << 63) <= v < (1 << 63))


def gen_cases(ck):
    rng = Rng(ck.seed)
    quick = ck.tier == "quick"
    cases = []

    def priors(L):
        return [bytes(L), b"\xff" * L, bytes([0xAA, 0x55] * L)[:L], bytes(rng.bytes(L))]

    def field_case(L, en, sign, lo, hi, prior, vals, bit=False, struct_entries=False, flags=1, access="RW"):
        # declared numbering
        if en:
            lsb, msb = 8 * L - 1 - lo, 8 * L - 1 - hi
        else:
            lsb, msb = lo, hi
        node = dict(kind="masked", sign=sign, lsb=lsb, msb=msb, bit=bit, access=access)
        ops = [("mn", 0), ("mx", 0), ("v", 0)]
        for v in vals:
            ops += [("s", 0, v), ("v", 0)]
        base = 0x200
        image = b"\x5a" * 4 + prior + b"\xa5" * 4
        c = reg_case(base + 4, L, en, base, image, [node], ops, flags=flags, struct_entries=struct_entries,
                     cachable="NoCache" if flags & 1 else "WriteThrough", struct_access=access)
        if not flags & 1:
            c.kind = "reg-cached"
        cases.append(c)

    for L in (1, 2, 4, 8):
        nb = 8 * L
        if L <= 2:
            pairs = [(lo, hi) for lo in range(nb) for hi in range(lo, nb)]
        else:
            edge = sorted({0, 1, 7, 8, 15, 16, 30, 31, 32, 33, 62, 63} & set(range(nb)) | {nb - 1, nb - 2})
            pairs = [(lo, hi) for lo in range(nb) for hi in range(lo, nb) if lo in edge or hi in edge]
            if quick:
                pairs = [p for p in pairs if p[0] in edge and p[1] in edge or rng.chance(1, 6)]
        for en in (0, 1):
            for sign in (0, 1):
                for lo, hi in pairs:
                    w = hi - lo + 1
                    vals = field_values(w, sign, rng, 4 if quick else 40)
                    if w > 8 and quick:
                        vals = vals[:3] + [vals[i] for i in range(3, len(vals) - 3, max(1, len(vals) // 14))] + vals[-3:]
                    pr = priors(L)
                    for prior in (pr if (L <= 1 or not quick) else [pr[rng.below(4)], pr[1]]):
                        field_case(L, en, sign, lo, hi, prior, vals, bit=(lo == hi and rng.chance(1, 2)))
    # StructReg entries behave like MaskedIntReg
    for L in (1, 4):
        for en in (0, 1):
            for lo, hi in ((0, 0), (3, 5), (8 * L - 1, 8 * L - 1), (0, 8 * L - 1), (1, 8 * L - 2)):
                for sign in (0, 1):
                    field_case(L, en, sign, lo, hi, bytes(rng.bytes(L)), field_values(hi - lo + 1, sign, rng, 3)[:12],
                               struct_entries=True)
    # a declared AccessMode (RO / WO) restricts what is_readable / is_writable report (C18), not what a write does: a
    # write-only field is still a read-modify-write of the register AS HELD BY THE DEVICE (sibling bits survive)
    for L in (1, 2, 4, 8):
        for en in (0, 1):
            for am in ("WO", "RO"):
                for lo, hi in ((0, 0), (3, 5), (8 * L - 4, 8 * L - 1), (1, 8 * L - 2)):
                    for st in (False, True):
                        for flags in (1, 0):
                            field_case(L, en, 0, lo, hi, b"\xff" * L if lo else bytes(rng.bytes(L)),
                                       field_values(hi - lo + 1, 0, rng, 3)[:6], struct_entries=st, flags=flags, access=am)
    # sibling fields sharing one register: interleaved writes (uncached, and cached with mutual invalidators)
    for _ in range(60 if quick else 1500):
        L = rng.choice([1, 2, 4, 8])
        nb = 8 * L
        en = rng.below(2)
        cuts = sorted({rng.below(nb + 1) for _ in range(rng.range(2, 4))} | {0, nb})
        fields = [(cuts[i], cuts[i + 1] - 1) for i in range(len(cuts) - 1)][:3]
        nodes = []
        for lo, hi in fields:
            lsb, msb = (nb - 1 - lo, nb - 1 - hi) if en else (lo, hi)
            nodes.append(dict(kind="masked", sign=rng.below(2), lsb=lsb, msb=msb,
                              access=rng.choice(["RW", "RW", "RW", "WO", "WO", "RO"])))
        nodes.append(dict(kind="int", sign=0))
        ops = []
        for _i in range(rng.range(4, 12)):
            k = rng.below(len(fields))
            lo, hi = fields[k]
            mn, mx = frange(hi - lo + 1, nodes[k]["sign"])
            v = rng.choice([mn, mx, rng.range(mn, mx), 0 if mn <= 0 <= mx else mn])
            ops += [("s", k, v)]
            if rng.chance(1, 2):
                ops += [("v", rng.below(len(fields)))]
        for k in range(len(fields)):
            ops += [("v", k)]
        ops += [("v", len(fields))]
        base = 0x300
        image = bytes(rng.bytes(L + 8))
        if any(not n.get("sign") and n["kind"] == "masked" and abs(n["lsb"] - n["msb"]) == 63 for n in nodes):
            continue
        cases.append(reg_case(base + 4, L, en, base, image, nodes, ops, flags=1))
        c = reg_case(base + 4, L, en, base, image, nodes, ops, flags=0, cachable="WriteThrough", sibling_invalidators=True)
        c.kind = "reg-cached"
        cases.append(c)
        for cach in ("WriteThrough", "WriteAround"):
            c = reg_case(base + 4, L, en, base, image, nodes, ops, flags=0, cachable=cach, sibling_invalidators="all")
            c.kind = "reg-cached"
            cases.append(c)
        # the same history with a caching mode of its own for every sibling (NoCache / WriteThrough /
        # WriteAround mixed), and with device accesses failing at scripted points (uncached: compared
        # with the model too; cached: the rejection hits whichever operation next reaches the device)
        mixed = [dict(n, cachable=rng.choice(["NoCache", "WriteThrough", "WriteAround"])) for n in nodes]
        c = reg_case(base + 4, L, en, base, image, mixed, ops, flags=0, sibling_invalidators=True)
        c.kind = "reg-cached"
        cases.append(c)
        rops = []
        for o in ops:
            if rng.chance(1, 5):
                rops.append(("rej", rng.choice([0, 0, 1, 2])))
            rops.append(o)
            if o[0] == "s" and rng.chance(1, 3):
                rops.append(o)          # the caller repeats the operation
        cases.append(reg_case(base + 4, L, en, base, image, nodes, rops, flags=1))
        c = reg_case(base + 4, L, en, base, image, mixed, rops, flags=0, sibling_invalidators=True)
        c.kind = "reg-cached"
        cases.append(c)
        # acknowledges that get LOST: the device performs the access (a write takes effect) but the host is told it
        # failed; the siblings (mutual invalidators) must still see the register as the device holds it afterwards
        lops = []
        for o in ops:
            if o[0] == "s" and rng.chance(1, 3):
                lops.append(("v", rng.below(len(fields))))      # a sibling's view of the register is cached
                lops.append(("lost", rng.choice([0, 1, 1])))
            lops.append(o)
        for cach, nds in (("WriteThrough", nodes), ("WriteAround", nodes), (None, mixed)):
            c = (reg_case(base + 4, L, en, base, image, nds, lops, flags=0, cachable=cach, sibling_invalidators=True)
                 if cach else reg_case(base + 4, L, en, base, image, nds, lops, flags=0, sibling_invalidators=True))
            c.kind = "reg-cached"
            cases.append(c)
    # the pure BitMask arithmetic of the model vs itself is covered by theorems; sample it through the nodes only
    return cases


def main():
    standard_main(
        "C02", "h_genapi", CODES, gen_cases, predicate, nontrivial,
        rule="MaskedIntReg (and StructReg entry) features: all (lsb,msb) pairs for 1- and 2-byte registers, all pairs "
             "touching an edge bit {0,1,7,8,15,16,30..33,62,63} for 4/8-byte registers, LE and BE bit numbering, "
             "signed/unsigned, LSB/MSB or single Bit; values exhaustive for fields <= 8 bits, boundaries (min-1, min, "
             "max, max+1, each 2^k and neighbours) + random above; prior contents zeros / ones / alternating / random; "
             "histories of set/value pairs after min/max; 2-3 sibling fields partitioning a register with random "
             "interleavings of writes, uncached and cached with mutual invalidators, with a caching mode of its own per "
             "sibling (NoCache / WriteThrough / WriteAround mixed) and with device accesses rejected at scripted "
             "points followed by repeated operations; real nodes vs extracted model "
             "(uncached); predicate = independent Python field_get/field_put over the register pattern; non-trivial = "
             "at least one device write")
