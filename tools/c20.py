"""C20 — emulated register memory enforces access rights and typed round trips.

Implementation side: rust/h_impl instantiates the real #[memory]/#[register_map] macros of /repo/impl on the
family of tools/gen_regmaps.py.  Model side: model/Memory.v + model/MacroBitField.v evaluated by coqc.
Predicate: the independent reference below (class Spec), written from the property text: per-byte rights as
independent (readable, writable) cells, little/big-endian two's complement images, bit-fields as bit ranges."""
import json
import os
import sys

import gen_regmaps as G
from vplib import Case, Check, Rng, VERIF, NPROC, zlit

USIZE_MAX = (1 << 64) - 1
E_NR, E_NW, E_IA, E_ID = 40, 41, 42, 43


class FCase(Case):
    __slots__ = ("fam",)


# =============================================================================== independent reference ===
def hexs(bs):
    return "x" + bytes(bs).hex()


class Spec:
    """What the property demands, for one map."""

    def __init__(self, m):
        self.m = m
        self.size = m.size
        self.mem = bytearray(m.size)
        self.rd = [False] * m.size
        self.wr = [False] * m.size
        self.obs = []
        for f in m.frags:
            for r in f.regs:
                self.set_right(r, G.AR_NUM[r.acc])
            for r in f.regs:
                if r.init is not None:
                    res = self.typed_write(r, r.init[1], notify=False)
                    assert res is None, "family declares an unusable init value"

    def set_right(self, r, num):
        for a in range(r.addr, r.addr + r.len):
            self.rd[a] = bool(num & 1)
            self.wr[a] = bool(num & 2)

    def right(self, r):
        rng = range(r.addr, r.addr + r.len)
        return (1 if all(self.rd[a] for a in rng) else 0) | (2 if all(self.wr[a] for a in rng) else 0)

    def notify(self, s, e):
        for o in self.obs:
            if max(s, o[0]) < min(e, o[1]):
                o[2] += 1

    # -- typed codecs ------------------------------------------------------------------------
    def reg_pattern(self, r):
        n = r.bits // 8
        return int.from_bytes(self.mem[r.addr:r.addr + n], "little" if r.endian == "LE" else "big")

    def store_pattern(self, r, p):
        n = r.bits // 8
        self.mem[r.addr:r.addr + n] = p.to_bytes(n, "little" if r.endian == "LE" else "big")

    def typed_read(self, r):
        """('ok', value) or ('err', class)"""
        k = r.kind
        if k in ("int", "float"):
            p = self.reg_pattern(r)
            if r.signed and p >> (r.bits - 1):
                p -= 1 << r.bits
            return ("ok", p)
        if k == "bf":
            lsb, msb = r.norm_field()
            w = msb - lsb + 1
            raw = (self.reg_pattern(r) >> lsb) & ((1 << w) - 1)
            if r.signed and raw >> (w - 1):
                raw -= 1 << w
            return ("ok", raw)
        data = bytes(self.mem[r.addr:r.addr + r.len])
        if k == "bytes":
            return ("ok", data)
        s = data.split(b"\0")[0]
        if any(b >= 128 for b in s):
            return ("err", E_ID)
        return ("ok", s)

    def typed_write(self, r, v, notify=True):
        """None on success, else the error class; memory changes only on success."""
        k = r.kind
        if k in ("int", "float"):
            self.store_pattern(r, v % (1 << r.bits))
        elif k == "bf":
            lsb, msb = r.norm_field()
            w = msb - lsb + 1
            lo, hi = (-(1 << (w - 1)), (1 << (w - 1)) - 1) if r.signed else (0, (1 << w) - 1)
            if v < lo or v > hi:
                return E_ID
            mask = ((1 << w) - 1) << lsb
            self.store_pattern(r, (self.reg_pattern(r) & ~mask) | ((v % (1 << w)) << lsb))
        elif k == "bytes":
            if len(v) != r.len:
                return E_ID
            self.mem[r.addr:r.addr + r.len] = v
        else:
            if any(b >= 128 for b in v) or len(v) > r.len:
                return E_ID
            self.mem[r.addr:r.addr + r.len] = bytes(v) + bytes(r.len - len(v))
        if notify:
            self.notify(r.addr, r.addr + r.len)
        return None

    # -- one op -> list of acceptable output chunks --------------------------------------------
    def op(self, o):
        m = self.m
        k = o[0]
        if k == "r":
            t, v = self.typed_read(m.regs[o[1]])
            if t == "err":
                return [[1, v]]
            return [[0, v]] if isinstance(v, int) else [[0, len(v)] + list(v)]
        if k == "w":
            e = self.typed_write(m.regs[o[1]], o[2])
            return [[0]] if e is None else [[1, e]]
        if k == "pa":
            r, data = m.regs[o[1]], bytes(o[2])
            if len(data) != r.len:
                return None          # Register::parse on a slice that is not the register: outside the property
            save = bytes(self.mem[r.addr:r.addr + r.len])
            self.mem[r.addr:r.addr + r.len] = data
            t, v = self.typed_read(r)
            self.mem[r.addr:r.addr + r.len] = save
            if t == "err":
                return [[1, v]]
            return [[0, v]] if isinstance(v, int) else [[0, len(v)] + list(v)]
        if k == "se":
            r, v = m.regs[o[1]], o[2]
            if r.kind == "bf":
                lsb, msb = r.norm_field()
                w = msb - lsb + 1
                lo, hi = (-(1 << (w - 1)), (1 << (w - 1)) - 1) if r.signed else (0, (1 << w) - 1)
                if v < lo or v > hi:
                    return [[1, E_ID]]
                img = ((v % (1 << w)) << lsb).to_bytes(r.bits // 8, "little" if r.endian == "LE" else "big")
            elif r.kind in ("int", "float"):
                img = (v % (1 << r.bits)).to_bytes(r.bits // 8, "little" if r.endian == "LE" else "big")
            elif r.kind == "bytes":
                if len(v) != r.len:
                    return [[1, E_ID]]
                img = bytes(v)
            else:
                if any(b >= 128 for b in v) or len(v) > r.len:
                    return [[1, E_ID]]
                img = bytes(v) + bytes(r.len - len(v))
            return [[0, len(img)] + list(img)]
        if k == "rr":
            s, e = o[1], o[2]
            if not (s <= e <= self.size):
                alts = [[1, E_IA]]
                if s == e:
                    alts.append([0, 0])        # an empty range beyond the map: either answer is acceptable
                return alts
            if not all(self.rd[a] for a in range(s, e)):
                return [[1, E_NR]]
            return [[0, e - s] + list(self.mem[s:e])]
        if k == "wr":
            s, bs = o[1], o[2]
            e = s + len(bs)
            if e > USIZE_MAX or not (e <= self.size):
                alts = [[1, E_IA]]
                if not bs and e <= USIZE_MAX:
                    alts.append([0])
                return alts
            if not all(self.wr[a] for a in range(s, e)):
                return [[1, E_NW]]
            self.mem[s:e] = bs
            self.notify(s, e)
            return [[0]]
        if k == "sa":
            self.set_right(m.regs[o[1]], o[2])
            return [[0]]
        if k == "ga":
            return [[0, self.right(m.regs[o[1]])]]
        if k == "ob":
            r = m.regs[o[1]]
            self.obs.append([r.addr, r.addr + r.len, 0])
            return [[0]]
        if k == "oc":
            return [[0, len(self.obs)] + [x[2] for x in self.obs]]
        if k == "dump":
            return [[0, self.size] + list(self.mem)]
        if k == "poke":
            if len(o[1]) != self.size:
                return [[1, E_ID]]
            self.mem[:] = o[1]
            self.notify(0, self.size)
            return [[0]]
        if k == "lay":
            out = [0, self.size, len(m.frags)]
            for f in m.frags:
                out += [f.base, f.size]
            out.append(len(m.regs))
            for r in m.regs:
                out += [r.addr, r.len, G.AR_NUM[r.acc]]
            for r in m.regs:
                if r.kind == "bf":
                    out += [r.ty[3], r.ty[4]]         # the constants LSB / MSB are the declared numbers
            return [out]
        raise ValueError(k)


def op_text(o):
    return " ".join(str(x) if not isinstance(x, (bytes, bytearray)) else hexs(x) for x in o)[:120]


def pred_map(c, out):
    m, ops = c.meta
    if out is None or out in ([3], [4]):
        return "harness died on the case: %r" % (out,)
    if out == [2]:
        return "Memory::new() panicked"
    if not out or out[0] != 0:
        return "unexpected case header %r" % (out[:3],)
    sp = Spec(m)
    pos = 1
    for i, o in enumerate(ops):
        alts = sp.op(o)
        if alts is None:
            return None              # the rest of the case is outside the property's quantifier (model-compared only)
        for a in alts:
            if out[pos:pos + len(a)] == a:
                pos += len(a)
                break
        else:
            got = out[pos:pos + max(len(a) for a in alts)]
            what = "panicked" if got[:1] == [2] else "gave %r" % (got[:12],)
            return "map %s op %d `%s` %s, the property requires %r" % (m.name, i, op_text(o), what, alts[0][:12])
    if pos != len(out):
        return "trailing output"
    return None


def pred_prot(c, out):
    size, ops = c.meta
    if out is None or out in ([3], [4]):
        return "harness died"
    cells = [0] * size
    pos = 0
    for i, o in enumerate(ops):
        k = o[0]
        touched = [o[1]] if k in ("ps", "pg") else list(range(o[1], o[2])) if k in ("psr", "pr") else []
        if any(a >= size for a in touched):
            return None       # beyond the protected size: outside the quantifier (index panic or a spare cell)
        if k == "ps":
            cells[o[1]] = o[2]
            exp = [0]
        elif k == "psr":
            for a in range(o[1], o[2]):
                cells[a] = o[3]
            exp = [0]
        elif k == "pg":
            exp = [0, cells[o[1]]]
        elif k == "pr":
            v = 3
            for a in range(o[1], o[2]):
                v &= cells[a]
            exp = [0, v]
        elif k == "pv":
            exp = [0] if o[1] < size else [1, E_IA]
        elif k == "pvr":
            exp = [0] if (o[1] >= o[2] or o[2] <= size) else [1, E_IA]
        if out[pos:pos + len(exp)] != exp:
            got = out[pos:pos + len(exp)]
            return "MemoryProtection(%d) op %d `%s` gave %r, the property requires %r" % (size, i, op_text(o), got, exp)
        pos += len(exp)
    return None


def pred_ar(c, out):
    exp = []
    for a in range(4):
        exp += [a, a & 1, a >> 1, a]
    for a in range(4):
        for b in range(4):
            exp.append(a & b)
    if out != exp:
        return "AccessRight tables differ from the two-bit lattice: %r" % (out,)
    return None


def predicate(c, out):
    return {"M": pred_map, "P": pred_prot, "A": pred_ar, "D": pred_decl}[c.kind](c, out)


def nontrivial(c, out):
    if c.kind != "M":
        return True
    return out is not None and len(out) > 3


# ========================================================================================= rendering ===
AR_NAME = ["NA", "RO", "WO", "RW"]


def op_rust(o):
    return op_text(o) if len(op_text(o)) < 120 else " ".join(
        str(x) if not isinstance(x, (bytes, bytearray)) else hexs(x) for x in o)


def op_rust_full(o):
    return " ".join(str(x) if not isinstance(x, (bytes, bytearray)) else hexs(x) for x in o)


def coq_val(r, v):
    if isinstance(v, int):
        return "(VInt %s)" % zlit(v)
    return "(VBytes %s)" % G.coq_bytes(v)


def op_coq(m, o):
    k = o[0]
    if k == "r":
        return "ORead %d" % o[1]
    if k == "w":
        return "OWrite %d %s" % (o[1], coq_val(m.regs[o[1]], o[2]))
    if k == "pa":
        return "OParse %d %s" % (o[1], G.coq_bytes(o[2]))
    if k == "se":
        return "OSerialize %d %s" % (o[1], coq_val(m.regs[o[1]], o[2]))
    if k == "rr":
        return "OReadRaw %d %d" % (o[1], o[2])
    if k == "wr":
        return "OWriteRaw %d %s" % (o[1], G.coq_bytes(o[2]))
    if k == "sa":
        return "OSetAR %d %s" % (o[1], AR_NAME[o[2]])
    if k == "ga":
        return "OGetAR %d" % o[1]
    if k == "ob":
        return "OObserve %d" % o[1]
    if k == "oc":
        return "OCounts"
    if k == "dump":
        return "ODump"
    if k == "poke":
        return "OPoke %s" % G.coq_bytes(o[1])
    if k == "lay":
        return "OLayout"
    raise ValueError(k)


def pop_coq(o):
    k = o[0]
    return {"ps": lambda: "PSet %d %s" % (o[1], AR_NAME[o[2]]), "pg": lambda: "PGet %d" % o[1],
            "psr": lambda: "PSetRange %d %d %s" % (o[1], o[2], AR_NAME[o[3]]),
            "pr": lambda: "PRange %d %d" % (o[1], o[2]), "pv": lambda: "PVerify %d" % o[1],
            "pvr": lambda: "PVerifyRange %d %d" % (o[1], o[2])}[k]()


def map_case(m, ops, fam):
    line = "M %d %s" % (m.id, " ".join(op_rust_full(o) for o in ops))
    term = "run_case map_%d [%s]" % (m.id, "; ".join(op_coq(m, o) for o in ops))
    c = FCase("M", [], meta=(m, ops), term=term, rline=line)
    c.fam = fam
    return c


def prot_case(size, ops):
    line = "P %d %s" % (size, " ".join(op_rust_full(o) for o in ops))
    term = "run_prot %d [%s]" % (size, "; ".join(pop_coq(o) for o in ops))
    c = FCase("P", [], meta=(size, ops), term=term, rline=line)
    c.fam = "protection"
    return c


# ========================================================================================= generation ===
def type_values(bits, signed, rng, n_random):
    lo, hi = (-(1 << (bits - 1)), (1 << (bits - 1)) - 1) if signed else (0, (1 << bits) - 1)
    vals = {lo, hi, lo + 1, hi - 1, 0, 1}
    if signed:
        vals.add(-1)
    vals |= {rng.range(lo, hi) for _ in range(n_random)}
    return lo, hi, vals


def field_values(r, rng, n_random, exhaustive):
    """Values of the register's integer type to try on a bit-field register."""
    bits, sg = r.bits, r.signed
    tlo, thi, vals = type_values(bits, sg, rng, 2)
    if exhaustive:
        return list(range(tlo, thi + 1))
    lsb, msb = r.norm_field()
    w = msb - lsb + 1
    lo, hi = (-(1 << (w - 1)), (1 << (w - 1)) - 1) if sg else (0, (1 << w) - 1)
    vals |= {lo, hi, lo - 1, hi + 1, lo + 1, hi - 1}
    for k in (0, w // 2, w - 2, w - 1, w):
        if k >= 0:
            vals |= {1 << k, (1 << k) - 1, -(1 << k), -(1 << k) - 1}
    vals |= {rng.range(lo, hi) for _ in range(n_random)}
    return sorted(v for v in vals if tlo <= v <= thi)


def priors(n, rng):
    return [b"\xff" * n, bytes(rng.bytes(n)), bytes(([0xAA, 0x55] * n)[:n]), bytes(n)]


def gen_cases(ck, maps):
    rng = Rng(ck.seed)
    quick = ck.tier == "quick"
    cases = [FCase("A", [], term="ar_table", rline="A")]
    cases[0].fam = "lattice"

    # ---- MemoryProtection: every assignment of one block, then histories over several sizes ----
    for code in range(256):
        cells = [(code >> (2 * i)) & 3 for i in range(4)]
        ops = [("ps", i, cells[i]) for i in rng_perm(rng, 4)]
        ops += [("pg", i) for i in range(4)]
        ops += [("pr", s, e) for s in range(5) for e in range(s, 5)]
        cases.append(prot_case(4, ops))
    for size in (0, 1, 3, 4, 5, 7, 8, 9, 16, 17, 33):
        for _ in range(6 if quick else 60):
            ops = []
            for _i in range(rng.range(8, 40)):
                t = rng.below(10)
                a = rng.below(size) if size else 0
                b = rng.range(a, size) if size else 0
                if size == 0:
                    ops.append(rng.choice([("pv", rng.below(3)), ("pvr", 0, rng.below(3)), ("pr", 0, 0), ("psr", 0, 0, 3)]))
                elif t < 3:
                    ops.append(("ps", a, rng.below(4)))
                elif t < 5:
                    ops.append(("psr", a, b, rng.below(4)))
                elif t < 7:
                    ops.append(("pr", a, b))
                elif t < 8:
                    ops.append(("pv", rng.choice([a, size, size + 1, size - 1, USIZE_MAX])))
                elif t < 9:
                    ops.append(("pvr", a, rng.choice([b, size, size + 1, size + 5, USIZE_MAX])))
                else:
                    ops.append(("pg", a))
            ops += [("pg", i) for i in range(size)]
            ops.append(rng.choice([("pg", size), ("pg", size + 3), ("ps", size + rng.below(5), 3), ("pv", size)]))
            cases.append(prot_case(size, ops))

    use = [m for m in maps if (not m.full) or not quick]
    # ---- layout + initial contents + rights as declared -----------------------------------------
    for m in use:
        ops = [("lay",), ("dump",), ("oc",)]
        if "bf" not in m.tags:
            ops += [("ga", k) for k in range(len(m.regs))] + [("r", k) for k in range(len(m.regs))]
            ops += [("rr", a, a + 1) for a in range(m.size)] + [("rr", m.size, m.size + 1), ("rr", 0, m.size)]
        cases.append(map_case(m, ops, "layout"))

    # ---- bit-field registers ------------------------------------------------------------------------
    exh16 = set()
    for m in use:
        if "bf" not in m.tags:
            continue
        fregs = [k for k, r in enumerate(m.regs) if r.kind == "bf"]
        bits = m.regs[fregs[0]].bits
        if bits == 16 and not quick and m.full:
            r0 = m.regs[fregs[0]]
            want = ((3, 12), (15, 15)) if bool(r0.signed) == (r0.endian == "LE") else ((0, 15),)
            pick = [k for k in fregs if m.regs[k].norm_field() in want]
            exh16 |= {(m.id, k) for k in pick}
        for k in fregs:
            r = m.regs[k]
            exhaustive = bits == 8 or (m.id, k) in exh16
            vals = field_values(r, rng, 3 if quick else 12, exhaustive)
            prs = priors(m.size, rng)
            prs = prs[1:2] if (exhaustive and bits == 16) else prs[:2] if quick else prs
            if bits > 8 and quick and not exhaustive:
                prs = [prs[rng.below(2)]]
            for pr in prs:
                chunk = 256
                for i in range(0, len(vals), chunk):
                    ops = [("poke", pr)]
                    for v in vals[i:i + chunk]:
                        ops += [("w", k, v), ("r", k), ("dump",)]
                    # a sibling field of the same register must read the same bits as before / after
                    sib = rng.choice(fregs)
                    ops += [("r", sib), ("r", 0), ("r", len(m.regs) - 1)]
                    cases.append(map_case(m, ops, "bitfield"))
    # sibling interleavings on the init maps (overlapping fields with init values)
    for m in use:
        if "bfinit" not in m.tags:
            continue
        for _ in range(30 if quick else 300):
            ops = []
            if rng.chance(1, 2):
                ops.append(("poke", bytes(rng.bytes(m.size))))
            for _i in range(rng.range(5, 20)):
                k = rng.below(len(m.regs))
                r = m.regs[k]
                vals = field_values(r, rng, 3, False)
                ops.append(("w", k, rng.choice(vals)))
                ops.append(("r", rng.below(len(m.regs))))
            ops += [("r", k) for k in range(len(m.regs))] + [("dump",)]
            cases.append(map_case(m, ops, "bitfield-siblings"))

    # ---- scalar / string / bytes round trips ---------------------------------------------------------
    for m in use:
        if "bf" in m.tags or "bfinit" in m.tags:
            continue
        for k, r in enumerate(m.regs):
            ops = []
            if r.kind in ("int", "float"):
                _, _, vals = type_values(r.bits, r.signed, rng, 6 if quick else 60)
                if r.bits == 8:
                    lo = -128 if r.signed else 0
                    vals = set(range(lo, lo + 256))
                for v in sorted(vals):
                    ops += [("w", k, v), ("r", k)]
                ops.append(("dump",))
            else:
                L = r.len
                cands = [b"", b"a", b"A" * L, b"B" * (L + 1), b"z" * max(0, L - 1), b"\x7f" * L, bytes([1]) * L]
                if r.kind == "str":
                    cands += [b"a\0b"[:max(L, 0)], "é".encode(), b"ab" + "ü".encode(), b"\0", b"q\0"]
                else:
                    cands += [bytes(rng.bytes(L)), bytes([0x80, 0xFF, 0] * L)[:L], bytes(L + 2), b"\xff" * L]
                for v in cands:
                    ops += [("w", k, v), ("r", k), ("dump",)]
                if r.kind == "str":
                    # raw bytes that are not ASCII / not UTF-8 must be refused by the typed read
                    for raw in (b"\xc3\xa9", b"\xff", b"ok\x00\xff", b"\x80" * L):
                        img = (raw + bytes(L))[:L]
                        if L and m.size:
                            ops += [("poke", bytes(r.addr) + img + bytes(m.size - r.addr - L)), ("r", k)]
            cases.append(map_case(m, ops, "typed-roundtrip"))

    # ---- Register::parse / serialize called directly (also on slices that are not the register) ---------------
    for m in use:
        if "bf" in m.tags and not (m.regs[1].bits == 8 or rng.chance(1, 3)):
            continue
        for k, r in enumerate(m.regs):
            if "bf" in m.tags and r.kind == "bf" and not rng.chance(1, 4):
                continue
            ops, tail = [], []
            L = r.len
            if r.kind in ("int", "float", "bf"):
                vals = field_values(r, rng, 2, False) if r.kind == "bf" else sorted(type_values(r.bits, r.signed, rng, 3)[2])
                ops += [("se", k, v) for v in vals[:14]]
                ops += [("pa", k, bytes(rng.bytes(L))) for _ in range(4)] + [("pa", k, b"\xff" * L), ("pa", k, bytes(L))]
                tail = [("pa", k, bytes(rng.bytes(n))) for n in (L + 1, L + 3, max(0, L - 1), 0)]
            elif r.kind == "bytes":
                ops += [("se", k, bytes(rng.bytes(n))) for n in (L, L + 1, max(0, L - 1), 0)]
                ops += [("pa", k, bytes(rng.bytes(L)))]
                tail = [("pa", k, bytes(rng.bytes(n))) for n in (L + 2, 0, 1)]
            else:
                ops += [("se", k, v) for v in (b"", b"a" * L, b"b" * (L + 1), b"c" * max(0, L - 1), "é".encode(), b"x\0y"[:L + 1])]
                ops += [("pa", k, (v + bytes(L))[:L]) for v in (b"", b"ab", b"a\0b", b"\xc3\xa9", b"\x80", b"q" * L)]
                tail = [("pa", k, v) for v in (b"q" * (L + 2), b"q" * (L + 2) + b"\0z", b"ab\0" + b"c" * L, b"\0")]
                tail += [("pa", k, b"q" * max(0, L - 1))]     # shorter and no NUL: slice index panic, last op of the case
            # ops on slices of another length come last: outside the property, compared with the model only
            for t in tail[:-1]:
                cases.append(map_case(m, ops + [t], "codec"))
            cases.append(map_case(m, ops + tail[-1:], "codec"))

    # ---- raw access: every (start, end) / (addr, len) around the map -------------------------------------
    specials = [USIZE_MAX, USIZE_MAX - 1, 1 << 63, 1 << 32]
    for m in use:
        if "raw" not in m.tags and "scalar" not in m.tags:
            continue
        S = m.size
        lim = S + 2
        pairs = [(s, e) for s in range(lim + 1) for e in range(lim + 1)]
        if "scalar" in m.tags or (quick and S > 20):
            edge = sorted({0, 1, 2, 3, 4, 5, S // 2, S - 2, S - 1, S, S + 1, S + 2} | {r.addr for r in m.regs} |
                          {r.addr + r.len for r in m.regs})
            pairs = [(s, e) for s in edge for e in edge]
        pairs += [(s, e) for s in specials + [0, S] for e in specials + [0, S]]
        rng.shuffle(pairs)
        obs = [rng.below(len(m.regs)) for _ in range(4)]
        for i in range(0, len(pairs), 60):
            ops = [("ob", k) for k in obs]
            for s, e in pairs[i:i + 60]:
                ops.append(("rr", s, e))
                ln = e - s if e >= s else rng.below(3)
                if ln <= lim + 1:
                    ops.append(("wr", s, bytes((s + 7 * j + i) % 256 for j in range(ln))))
            ops += [("dump",), ("oc",)]
            cases.append(map_case(m, ops, "raw-access"))
        ops = []
        for a in specials:
            for ln in (0, 1, 2):
                ops.append(("wr", a, bytes(ln)))
        cases.append(map_case(m, ops + [("dump",)], "raw-access"))

    # ---- histories: rights, observers, typed and raw access interleaved ------------------------------------
    hist_maps = [m for m in use if "raw" in m.tags or "scalar" in m.tags or "bfinit" in m.tags]
    for _ in range(300 if quick else 4000):
        m = rng.choice(hist_maps)
        S = m.size
        ops = []
        for _i in range(rng.range(10, 40)):
            t = rng.below(20)
            k = rng.below(len(m.regs))
            r = m.regs[k]
            if t < 4:
                ops.append(("sa", k, rng.below(4)))
            elif t < 6:
                ops.append(("ga", k))
            elif t < 8:
                ops.append(("ob", k))
            elif t < 12:
                if rng.chance(2, 3):
                    s = max(0, r.addr - rng.below(2))
                    e = min(S + 1, r.addr + r.len + rng.below(2))
                else:
                    s = rng.below(S + 2)
                    e = rng.range(s, min(S + 2, s + 9))
                if rng.chance(1, 2):
                    ops.append(("rr", s, e))
                else:
                    ops.append(("wr", s, bytes(rng.bytes(e - s))))
            elif t < 15:
                if r.kind in ("int", "float"):
                    _, _, vals = type_values(r.bits, r.signed, rng, 2)
                    ops.append(("w", k, rng.choice(sorted(vals))))
                elif r.kind == "bf":
                    ops.append(("w", k, rng.choice(field_values(r, rng, 2, False))))
                else:
                    ops.append(("w", k, bytes(rng.range(32, 126) for _ in range(rng.range(0, r.len + 1)))
                                if rng.chance(3, 4) or r.kind == "str" else bytes(rng.bytes(r.len))))
            elif t < 17:
                ops.append(("r", k))
            elif t < 18:
                ops.append(("oc",))
            else:
                ops.append(("wr", rng.below(S + 1), b""))
        ops += [("oc",), ("dump",)] + [("ga", k) for k in range(len(m.regs))]
        ops += [("rr", a, a + 1) for a in range(S)]
        cases.append(map_case(m, ops, "history"))
    return cases


def rng_perm(rng, n):
    xs = list(range(n))
    rng.shuffle(xs)
    return xs


# ======================================================================= declarations: what the macro accepts ===
DECL_REASONS = ("register length must be equal", "msb exceeds register length", "expectd LSB",
                "custom attribute panicked")


def run_declarations(ck, only=None):
    """Compile every single-register declaration of G.declarations() against the REAL macros (one bin target each,
    `cargo check --keep-going`, offline, shared target dir) -> [1] accepted / [0, k] refused with reason k /
    [5] failed for an unrelated reason; the model side is decl_accepts true; the predicate is
    G.decl_accepted_by_property."""
    import shutil
    import vplib
    decls = G.declarations()
    d = os.path.join(vplib.CACHE, "c20_decl")
    shutil.rmtree(d, ignore_errors=True)
    os.makedirs(os.path.join(d, "src", "bin"))
    with open(os.path.join(d, "Cargo.toml"), "w") as f:
        f.write('[package]\nname = "c20_decl"\nversion = "0.0.0"\nedition = "2018"\n\n[workspace]\n\n'
                '[dependencies]\ncameleon-impl = { path = "%s/impl" }\n\n'
                '[profile.dev]\nopt-level = 0\ndebug = false\nincremental = false\n' % vplib.REPO)
    lock = os.path.join(vplib.REPO, "Cargo.lock")
    if os.path.exists(lock):
        shutil.copy(lock, os.path.join(d, "Cargo.lock"))
    idx = [i for i in range(len(decls)) if only is None or i in only]
    for i in idx:
        name, e, r = decls[i]
        with open(os.path.join(d, "src", "bin", "d%d.rs" % i), "w") as f:
            f.write("// %s\n" % name + G.decl_rust(e, r))
    with vplib.Lock("cargo"):
        rc, out = vplib.sh(["cargo", "check", "--offline", "--keep-going", "--bins", "--message-format=json",
                            "-j", str(min(4, vplib.NPROC))], cwd=d, timeout=900)
    ok, errs = set(), {}
    for line in out.splitlines():
        if not line.startswith("{"):
            continue
        try:
            j = json.loads(line)
        except ValueError:
            continue
        t = (j.get("target") or {}).get("name", "")
        if j.get("reason") == "compiler-artifact" and "bin" in (j.get("target") or {}).get("kind", []):
            ok.add(t)
        elif j.get("reason") == "compiler-message" and (j.get("message") or {}).get("level") == "error":
            m = j["message"]
            txt = m.get("message", "") + " " + " ".join(c.get("message", "") for c in m.get("children", []))
            errs.setdefault(t, []).append(txt)
    cases, impl, terms = [], [], []
    for i in idx:
        name, e, r = decls[i]
        t = "d%d" % i
        if t in ok and t not in errs:
            res = [1]
        elif t in errs:
            txt = " ".join(errs[t])
            ks = [k for k, w in enumerate(DECL_REASONS) if w in txt]
            res = [0] if ks else [5]
        else:
            res = [5]       # neither built nor diagnosed: the dependency itself did not build
        c = FCase("D", [], meta=(i, name, e, r, " | ".join(errs.get(t, []))[:300]),
                  term="[b2z (decl_accepts true %s %s)]" % (e, G.coq_reg(r)), rline="D %d %s" % (i, name))
        c.fam = "declarations"
        cases.append(c)
        impl.append(res)
    model = ck.run_model_terms(["Memory"], [c.term for c in cases], jobs=1)
    return cases, impl, model


def pred_decl(c, out):
    i, name, e, r, msg = c.meta
    want = G.decl_accepted_by_property(e, r)
    if out == [5] or out is None:
        return "declaration %s failed to compile for a reason that is not a refusal of the declaration: %s" % (name, msg)
    got = out == [1]
    if got != want:
        return ("declaration %s (len = %d, ty = %s, %s) is %s by the macro, the property requires it to be %s"
                % (name, r.len, G.rust_ty(r), e, "accepted" if got else "refused", "accepted" if want else "refused"))
    return None


# ================================================================================================ main ===
RULE = ("family of register maps instantiated with the real macros: every (lsb,msb) BitField of u8/i8, the pairs over "
        "edge bits {0,1,7,8,bits-2,bits-1} of 16/32/64-bit types (thorough: every pair of 16-bit types and a wider edge "
        "set), LE and BE numbering, guard registers around each field register; all scalar types, f32/f64 patterns, "
        "String/Bytes incl. zero length, explicit/backward/overlapping offsets, three fragments, init values; values: "
        "exhaustive over the 8-bit types (thorough: exhaustive 16-bit on six fields), boundaries of type and field "
        "(min-1..max+1, powers of two) + random above, prior contents ones/random/alternating/zero; raw access: every "
        "(start,end) and (addr,len) up to size+2 incl. reversed, empty and usize::MAX-scale; MemoryProtection: all 256 "
        "assignments of one block + random set/get/range histories over sizes 0..33; random histories mixing "
        "set_access_right / observers / typed / raw access; Register::parse / serialize called directly on register-sized "
        "and other slices; 52 single-register declarations (every numerical type with matching / shorter / longer len, "
        "String / Bytes lengths, BitField positions at and beyond the limits in both numberings) compiled against the "
        "real macro with cargo check and compared with decl_accepts; real code vs model/Memory.v by vm_compute; predicate = "
        "independent Python reference with per-byte (R,W) cells; non-trivial = at least one op result")


def main():
    ck = Check("C20")
    ck.rule = RULE
    ck.trusted += ["tools/gen_regmaps.py renders one family three ways (Rust macro input, Gallina fragdecl, Python objects)",
                   "proc-macro expansion is modelled by model/MacroBitField.v (function of bits, signedness, LSB, MSB, "
                   "endianness) and tied by running instantiations of the real macro"]
    ck.prove()
    ck.phase("prove")
    maps = G.family()
    G.write_rust(VERIF, maps)
    binary, log = ck.cargo_build("h_impl", features=None if ck.tier == "quick" else "full")
    ck.phase("cargo")
    if binary is None:
        path = ck.write_replay({"kind": "build", "property": "C20", "unchecked": "correspondence via rust/h_impl",
                                "log": log[-6000:]})
        ck.violations.append((path, True, "harness rust/h_impl (register-map family) does not build against /repo: "
                                          "correspondence cannot be established"))
        ck.finish()
    prelude_maps = [m for m in maps if not m.full or ck.tier != "quick"]
    prelude = "".join(G.coq_map(m) for m in prelude_maps)
    if ck.replay:
        r = json.load(open(ck.replay))
        if r.get("kind") != "case":
            print(json.dumps(r, indent=1)[:4000])
            sys.exit(0)
        if r["case"].startswith("D "):
            k = int(r["case"].split()[1])
            dcases, dimpl, dmodel = run_declarations(ck, only={k})
            print("case     :", r["case"], dcases[0].meta[4])
            print("impl     :", dimpl[0])
            print("model    :", dmodel[0])
            print("predicate:", predicate(dcases[0], dimpl[0]) or "holds")
            ck.compare(dcases, dimpl, dmodel, predicate, nontrivial, family="declarations")
            ck.finish()
        c = case_from_line(r["case"], maps)
        prelude = "".join(G.coq_map(m) for m in maps if c.kind == "M" and m is c.meta[0])
        impl = ck.run_impl(binary, [c.line])
        model = ck.run_model_terms(["Memory"], [c.term], prelude=prelude)
        print("case     :", c.line[:2000])
        print("impl     :", impl[0][:400] if impl[0] else impl[0])
        print("model    :", model[0][:400])
        print("predicate:", predicate(c, impl[0]) or "holds")
        ck.compare([c], impl, model, predicate, nontrivial)
        ck.finish()
    cases = gen_cases(ck, maps)
    ck.phase("generate")
    impl = ck.run_impl(binary, [c.line for c in cases], jobs=min(16, NPROC))
    ck.phase("impl")
    model = ck.run_model_terms(["Memory"], [c.term for c in cases], per_eval=20, prelude=prelude, jobs=min(16, NPROC))
    ck.phase("model")
    fams = []
    for c in cases:
        if c.fam not in fams:
            fams.append(c.fam)
    for fam in fams:
        idx = [i for i, c in enumerate(cases) if c.fam == fam]
        ck.compare([cases[i] for i in idx], [impl[i] for i in idx], [model[i] for i in idx], predicate, nontrivial,
                   family=fam, correspondence="rust/h_impl (real macros) vs model/Memory.v")
    dcases, dimpl, dmodel = run_declarations(ck)
    ck.phase("declarations")
    # the model answers [1] / [0]; the implementation's refusal reason is not compared
    ck.compare(dcases, [[1] if x == [1] else [0] if x == [0] else x for x in dimpl], dmodel, predicate, nontrivial,
               family="declarations", correspondence="real macro accepts/refuses vs decl_accepts (model/Memory.v)")
    ck.dist["declarations_refused"] = sum(1 for x in dimpl if x == [0])
    ck.dist["ops"] = sum(len(c.meta[1]) for c in cases if c.kind in ("M", "P"))
    ck.dist["registers_instantiated"] = sum(len(m.regs) for m in prelude_maps)
    ck.finish()


def parse_tok(t):
    if t.startswith("x"):
        return bytes.fromhex(t[1:])
    return int(t)


def case_from_line(line, maps):
    t = line.split()
    if t[0] == "A":
        c = FCase("A", [], term="ar_table", rline="A")
        c.fam = "lattice"
        return c
    arity = {"r": 1, "w": 2, "pa": 2, "se": 2, "rr": 2, "wr": 2, "sa": 2, "ga": 1, "ob": 1, "oc": 0, "dump": 0, "poke": 1, "lay": 0,
             "ps": 2, "pg": 1, "psr": 3, "pr": 2, "pv": 1, "pvr": 2}
    ops = []
    i = 2
    while i < len(t):
        n = arity[t[i]]
        ops.append(tuple([t[i]] + [parse_tok(x) for x in t[i + 1:i + 1 + n]]))
        i += 1 + n
    if t[0] == "P":
        return prot_case(int(t[1]), ops)
    m = maps[int(t[1])]
    return map_case(m, ops, "replay")


if __name__ == "__main__":
    main()
