#!/usr/bin/env python3
"""tools/translate_formulaops.py -- CODE translator for the EVALUATOR of genapi/src/formula.rs (property C05).
Regenerates coq/theories/gen/FormulaOpsSrc.v on every run; proofs/P_C05s.v proves the translated functions equal to the
hand-written model model/Formula.v for every operator and all operand values.

What is translated (own tokenizer / recursive-descent parser for the subset of Rust these functions use, a type
checker, and a Gallina emitter; the primitives get their meaning in model/FormulaOps.v and lib/RustInt.v):

  impl From<i64|f64|bool> for EvaluationResult        src_res_from_i64 / _f64 / _bool
  EvaluationResult::{as_integer, as_float, as_bool, is_integer}         src_as_integer ... src_is_integer
  fn wrapping_pow (its `while` loop becomes a Fixpoint over a fuel argument, called with fuel 64)
                                                       src_wrapping_pow_loop, src_wrapping_pow
  Expr::eval_binop  (every arm: which operand combination takes which path, overflowing_* / `as` casts / bit operators /
      comparisons, the zero-divisor error, the placement of the `?`s of && and ||, unreachable!())
                                                       src_eval_binop (op) (ev_self ev_rhs : outcome res)
  Expr::eval_unop                                      src_eval_unop (op) (ev_self : outcome res)
  Expr::eval  (dispatch, the ternary, literals, identifier lookup)
                                                       src_eval fuel env e      (a Fixpoint over model/Formula.v's expr)

Representation.  EvaluationResult is model/Formula.v's `res` (Integer = RInt, Float = RFloat), Expr its `expr`, BinOpKind
/ UnOpKind its `binop` / `unop` (constructor B<Variant> / U<Variant>; the enum declarations of the source are checked
against that, and src_binop_decl / src_unop_decl list them in the source's order for the cross-check with
gen/FuncTable.v).  An f64 is its bit pattern; every arithmetic float operation is a call into the oracle record
`float_ops` (model/FormulaOps.v f64_*).  An `&Expr` parameter of eval_binop / eval_unop is represented by the outcome of
evaluating it in the unchanged environment (`x.eval(var_env)` IS that outcome; an outcome that is not bound is not
evaluated, which is how the placement of the short circuit is kept).  A term of a fallible or panicking computation has
type `outcome T`: `?` and `return Err(..)` both leave the function, so both are `Err` of the function's term.
The local macro_rules! (ident fragments only) are expanded token-wise from their parsed definition.
Error constructors: GenApiError::invalid_data = E_INVALID_DATA, GenApiError::invalid_node = E_INVALID_NODE (messages
opaque).  Debug-build semantics for the integer operators (`+ - *` and shifts can panic); the methods wrap as in core.

Anything outside the accepted subset raises ShapeError: the check reports the proof obligations `C05_*_from_source` as
broken instead of translating something else."""
import os, re, sys

HERE = os.path.dirname(os.path.abspath(__file__))
sys.path.insert(0, HERE)
from minirust import ShapeError, strip_comments, block_after, wrap     # noqa: E402

OUT = os.path.join(os.path.dirname(HERE), "coq", "theories", "gen", "FormulaOpsSrc.v")

# ------------------------------------------------------------------------------------------------ tables --
BINOPS = ["Add", "Sub", "Mul", "Div", "Rem", "Pow", "Shl", "Shr", "And", "Or", "Eq", "Ne", "Lt", "Le", "Gt", "Ge",
          "BitAnd", "BitOr", "Xor"]                      # constructors B<name> of model/Formula.v, in binop_code order
UNOPS = ["Not", "Abs", "Sgn", "Neg", "Sin", "Cos", "Tan", "Asin", "Acos", "Atan", "Exp", "Ln", "Lg", "Sqrt", "Trunc",
         "Floor", "Ceil", "Round"]
EXPR_CTORS = [("BinOp", "EBin", [("kind", "binop"), ("lhs", "expr"), ("rhs", "expr")]),
              ("UnOp", "EUn", [("kind", "unop"), ("expr", "expr")]),
              ("If", "EIf", [("cond", "expr"), ("then", "expr"), ("else_", "expr")]),
              ("Integer", "EInt", [(None, "i64")]), ("Float", "EFloat", [(None, "f64")]),
              ("Ident", "EIdent", [(None, "string")])]
RES_CTORS = [("Integer", "RInt", [(None, "i64")]), ("Float", "RFloat", [(None, "f64")])]
ERRS = {"GenApiError::invalid_data": "E_INVALID_DATA", "GenApiError::invalid_node": "E_INVALID_NODE"}
INT = {"i64": ("s", 64), "u64": ("u", 64), "u32": ("u", 32), "usize": ("u", 64), "i32": ("s", 32)}
F64_TRAIT = {"add": "Add", "sub": "Sub", "mul": "Mul", "rem": "Rem", "div": "Div", "neg": "Neg"}   # need a `use std::ops::..`
F64_FUN1 = ["sin", "cos", "tan", "asin", "acos", "atan", "exp", "ln", "log10", "sqrt", "trunc", "floor", "ceil", "round"]
LOOP_FUEL = 64
NEVER = "!"

# ---------------------------------------------------------------------------------------------- tokenizer --
ISUF = r"(?:_?(?:[iu](?:8|16|32|64|128|size)))"
TOK = re.compile(r"""\s*(
    "(?:[^"\\]|\\.)*" |
    \$[A-Za-z_][A-Za-z0-9_]* |
    [A-Za-z_][A-Za-z0-9_]*(?:::[A-Za-z_][A-Za-z0-9_]*)*!(?!=) |
    [A-Za-z_][A-Za-z0-9_]*(?:::[A-Za-z_][A-Za-z0-9_]*)* |
    \d[\d_]*\.\d[\d_]*(?:_?f64)? | \d[\d_]*_?f64 |
    0x[0-9a-fA-F_]+""" + ISUF + r"""? |
    \d[\d_]*""" + ISUF + r"""? |
    => | -> | == | != | <= | >= | <<= | >>= | << | >> | \|\| | && | \.\. | \|= | &= | \^= | \+= | -= | \*= | /= | %= |
    [(){}\[\],;:.|&^!\-+*/%<>=?#']
)""", re.X)
COMPOUND = {"|=": "|", "&=": "&", "^=": "^", "+=": "+", "-=": "-", "*=": "*", "<<=": "<<", ">>=": ">>", "/=": "/", "%=": "%"}
KEYWORDS = {"let", "mut", "fn", "loop", "while", "for", "unsafe", "move", "as", "else", "in", "ref", "break", "continue",
            "struct", "impl", "use", "mod", "pub", "if", "match", "return", "where", "dyn", "enum", "trait", "type"}


def tokenize(s):
    out, pos = [], 0
    s = s.strip()
    while pos < len(s):
        m = TOK.match(s, pos)
        if not m:
            raise ShapeError("cannot tokenize %r" % s[pos:pos + 40])
        tok, end = m.group(1), m.end()
        if tok[0].isdigit() and end < len(s) and (s[end].isalnum() or s[end] == "_"):
            raise ShapeError("numeric token not understood near %r" % s[pos:pos + 40])
        out.append(tok)
        pos = end
        while pos < len(s) and s[pos].isspace():
            pos += 1
    return out


def int_lit(tok):
    m = re.fullmatch(r"(0x[0-9a-fA-F_]+?|\d[\d_]*?)(?:_?([iu](?:8|16|32|64|128|size)))?", tok)
    if not m:
        return None
    body = m.group(1).replace("_", "")
    return (int(body[2:], 16) if body.startswith("0x") else int(body, 10)), m.group(2)


def float_lit(tok):
    m = re.fullmatch(r"(\d[\d_]*(?:\.\d[\d_]*)?)_?f64|(\d[\d_]*\.\d[\d_]*)", tok)
    if not m:
        return None
    return (m.group(1) or m.group(2)).replace("_", "")


# ----------------------------------------------------------------------------------- local macro_rules! --
def matching(toks, i):
    """index of the token closing the bracket opened at toks[i]"""
    pairs = {"(": ")", "{": "}", "[": "]"}
    depth = 0
    for j in range(i, len(toks)):
        if toks[j] in pairs:
            depth += 1
        elif toks[j] in pairs.values():
            depth -= 1
            if depth == 0:
                if toks[j] != pairs[toks[i]] and depth == 0:
                    # only checked for the outermost pair; inner mismatches surface in the parser
                    raise ShapeError("mismatched brackets")
                return j
    raise ShapeError("unbalanced brackets")


def expand_local_macros(toks, what):
    """removes every `macro_rules! NAME { (params) => { BODY }; }` item from the token list of a function body and replaces
    every later `NAME!(args)` by `( BODY[params := args] )`.  One rule, `ident` fragments only, one identifier per
    argument.  A parenthesised expansion is what an expression-position macro call is.  The body may name locals of the
    function: they must not be rebound by a `let` between the definition and the end of the function (hygiene would make
    the textual expansion differ)."""
    macros = {}
    out, i = [], 0
    while i < len(toks):
        t = toks[i]
        if t == "macro_rules!":
            name = toks[i + 1]
            if not re.fullmatch(r"[a-z_][a-z0-9_]*", name) or toks[i + 2] != "{":
                raise ShapeError("%s: macro_rules! header" % what)
            end = matching(toks, i + 2)
            inner = toks[i + 3:end]
            if not inner or inner[0] != "(":
                raise ShapeError("%s: macro %s!: matcher" % (what, name))
            pe = matching(inner, 0)
            ptoks = inner[1:pe]
            params = []
            k = 0
            while k < len(ptoks):
                if not (ptoks[k].startswith("$") and k + 2 < len(ptoks) + 1 and ptoks[k + 1] == ":" and ptoks[k + 2] == "ident"):
                    raise ShapeError("%s: macro %s!: only `$x:ident` parameters are understood" % (what, name))
                params.append(ptoks[k])
                k += 3
                if k < len(ptoks):
                    if ptoks[k] != ",":
                        raise ShapeError("%s: macro %s!: matcher separator" % (what, name))
                    k += 1
            if len(set(params)) != len(params) or not params:
                raise ShapeError("%s: macro %s!: parameters" % (what, name))
            rest = inner[pe + 1:]
            if len(rest) < 3 or rest[0] != "=>" or rest[1] != "{":
                raise ShapeError("%s: macro %s!: transcriber" % (what, name))
            be = matching(rest, 1)
            body = rest[2:be]
            tail = rest[be + 1:]
            if tail not in ([], [";"]):
                raise ShapeError("%s: macro %s! has more than one rule" % (what, name))
            for b in body:
                if b.startswith("$") and b not in params:
                    raise ShapeError("%s: macro %s!: unknown fragment %s" % (what, name, b))
                if b.endswith("!") and len(b) > 1 and b[:-1] in macros:
                    raise ShapeError("%s: macro %s! calls another local macro" % (what, name))
            if name in macros:
                raise ShapeError("%s: macro %s! defined twice" % (what, name))
            macros[name] = (params, body)
            i = end + 1
            # hygiene: no rebinding of a name the body mentions after this point
            names = {b for b in body if re.fullmatch(r"[a-z_][a-z0-9_]*", b) and b not in KEYWORDS}
            rest_toks = toks[i:]
            for k, x in enumerate(rest_toks):
                if x == "let":
                    nm = rest_toks[k + 2] if rest_toks[k + 1] == "mut" else rest_toks[k + 1]
                    if nm in names:
                        raise ShapeError("%s: `%s` is rebound after macro %s! that mentions it" % (what, nm, name))
            continue
        if t.endswith("!") and len(t) > 1 and t[:-1] in macros:
            params, body = macros[t[:-1]]
            if toks[i + 1] != "(":
                raise ShapeError("%s: call of %s without parentheses" % (what, t))
            end = matching(toks, i + 1)
            args = toks[i + 2:end]
            vals = [a for a in args if a != ","]
            if len(vals) != len(params) or (args and args[-1] == ",") or \
                    any(args[2 * k + 1] != "," for k in range(len(vals) - 1)) or \
                    any(not re.fullmatch(r"[a-z_][a-z0-9_]*", v) for v in vals):
                raise ShapeError("%s: arguments of %s(..) are not %d identifiers" % (what, t, len(params)))
            m = dict(zip(params, vals))
            out.append("(")
            out.extend(m.get(b, b) for b in body)
            out.append(")")
            i = end + 1
            continue
        out.append(t)
        i += 1
    return out


# ------------------------------------------------------------------------------------------------ parser --
class Parser:
    def __init__(self, toks):
        self.t, self.i = toks, 0

    def peek(self, k=0):
        return self.t[self.i + k] if self.i + k < len(self.t) else None

    def eat(self, x=None):
        tok = self.peek()
        if tok is None or (x is not None and tok != x):
            raise ShapeError("expected %r, found %r near %r" % (x, tok, " ".join(self.t[max(0, self.i - 6):self.i + 6])))
        self.i += 1
        return tok

    def done(self):
        return self.peek() is None

    def ident(self):
        tok = self.eat()
        if not re.fullmatch(r"[a-z_][a-z0-9_]*", tok) or tok in KEYWORDS or tok == "_":
            raise ShapeError("identifier expected, found %r" % tok)
        return tok

    def block(self):
        """stmt* [expr] up to the closing brace (not consumed)"""
        stmts = []
        while self.peek() not in ("}", None):
            tok = self.peek()
            if tok == "use":
                # a `use` item inside a body: only brings trait methods / names into scope; recorded for the checks
                j = self.i
                while self.t[j] != ";":
                    j += 1
                stmts.append(("use", " ".join(self.t[self.i + 1:j])))
                self.i = j + 1
                continue
            if tok == "let":
                self.eat("let")
                mut = False
                if self.peek() == "mut":
                    self.eat("mut")
                    mut = True
                name = self.ident()
                ann = None
                if self.peek() == ":":
                    self.eat(":")
                    ann = self.eat()
                self.eat("=")
                e = self.expr()
                self.eat(";")
                stmts.append(("let", name, mut, ann, e))
                continue
            if tok == "while":
                self.eat("while")
                if self.peek() == "let":
                    raise ShapeError("while let")
                c = self.expr(nostruct=True)
                self.eat("{")
                b = self.block()
                self.eat("}")
                stmts.append(("while", c, b))
                continue
            if tok in ("loop", "for"):
                raise ShapeError("`%s` loop" % tok)
            e = self.expr()
            nxt = self.peek()
            if nxt in COMPOUND or nxt == "=":
                op = self.eat()
                if e[0] != "id":
                    raise ShapeError("assignment to something other than a local")
                r = self.expr()
                self.eat(";")
                stmts.append(("assign", e[1], COMPOUND.get(op), r))
                continue
            if nxt == ";":
                self.eat(";")
                if e[0] == "return":
                    stmts.append(("ret", e[1]))
                    continue
                raise ShapeError("expression statement %r" % (e[0],))
            if nxt == "}" or nxt is None:
                stmts.append(("tail", e))
                break
            if e[0] == "if" and e[3] is None:
                stmts.append(("ifstmt", e[1], e[2]))
                continue
            raise ShapeError("statement not understood near %r" % nxt)
        return ("block", stmts)

    LEVELS = [["||"], ["&&"], ["==", "!=", "<", ">", "<=", ">="], ["|"], ["^"], ["&"], ["<<", ">>"], ["+", "-"],
              ["*", "/", "%"]]

    def expr(self, nostruct=False):
        return self._binary(0)

    def _binary(self, lvl):
        if lvl == len(self.LEVELS):
            return self.cast()
        e = self._binary(lvl + 1)
        while self.peek() in self.LEVELS[lvl]:
            op = self.eat()
            r = self._binary(lvl + 1)
            e = ("bin", op, e, r)
            if lvl == 2 and self.peek() in self.LEVELS[2]:
                raise ShapeError("chained comparison")
        return e

    def cast(self):
        e = self.unary()
        while self.peek() == "as":
            self.eat("as")
            ty = self.eat()
            if ty not in INT and ty != "f64":
                raise ShapeError("cast to %r" % ty)
            e = ("as", e, ty)
        return e

    def unary(self):
        if self.peek() in ("-", "!", "&", "*"):
            op = self.eat()
            if op == "&" and self.peek() == "mut":
                raise ShapeError("&mut")
            return ("un", op, self.unary())
        if self.peek() == "&&":
            raise ShapeError("&& in operand position")
        return self.postfix()

    def postfix(self):
        e = self.atom()
        while self.peek() in (".", "?"):
            if self.peek() == "?":
                self.eat("?")
                e = ("try", e)
                continue
            self.eat(".")
            name = self.eat()
            if not re.fullmatch(r"[A-Za-z_][A-Za-z0-9_]*|\d+", name) or name in KEYWORDS:
                raise ShapeError("field / method name %r" % name)
            if self.peek() == "(":
                e = ("mcall", e, name, self.args())
            else:
                e = ("field", e, name)
        return e

    def args(self):
        self.eat("(")
        out = []
        while self.peek() != ")":
            out.append(self.expr())
            if self.peek() == ",":
                self.eat(",")
            elif self.peek() != ")":
                raise ShapeError("argument list near %r" % self.peek())
        self.eat(")")
        return out

    def atom(self):
        tok = self.eat()
        if tok == "(":
            e = self.expr()
            if self.peek() == ",":
                raise ShapeError("tuple expression")
            self.eat(")")
            return ("paren", e)
        if tok == "{":
            b = self.block()
            self.eat("}")
            return b
        if tok == "||":
            return ("closure0", self.expr())
        if tok == "|":
            raise ShapeError("closure with parameters")
        if tok == "if":
            if self.peek() == "let":
                raise ShapeError("if let")
            c = self.expr()
            self.eat("{")
            a = self.block()
            self.eat("}")
            b = None
            if self.peek() == "else":
                self.eat("else")
                if self.peek() == "if":
                    b = ("block", [("tail", self.atom())])
                else:
                    self.eat("{")
                    b = self.block()
                    self.eat("}")
            return ("if", c, a, b)
        if tok == "match":
            s = self.expr()
            self.eat("{")
            arms = []
            while self.peek() != "}":
                pats = [self.pattern()]
                while self.peek() == "|":
                    self.eat("|")
                    pats.append(self.pattern())
                if self.peek() == "if":
                    raise ShapeError("match guard")
                self.eat("=>")
                if self.peek() == "{":
                    # a block-bodied arm ends at its closing brace
                    self.eat("{")
                    body = self.block()
                    self.eat("}")
                else:
                    body = self.expr()
                if self.peek() == ",":
                    self.eat(",")
                elif self.peek() != "}" and body[0] != "block":
                    raise ShapeError("match arm not followed by a comma")
                arms.append((pats, body))
            self.eat("}")
            return ("match", s, arms)
        if tok == "return":
            if self.peek() in (";", "}", ",", None):
                raise ShapeError("return without a value")
            return ("return", self.expr())
        if tok.startswith('"'):
            return ("str", tok)
        if tok.startswith("$"):
            raise ShapeError("macro fragment %s outside a macro" % tok)
        if tok == "matches!":
            self.eat("(")
            e = self.expr()
            self.eat(",")
            p = self.pattern()
            if self.peek() == ",":
                self.eat(",")
            self.eat(")")
            return ("matches", e, p)
        if tok.endswith("!") and len(tok) > 1:
            return ("macro", tok[:-1], self.args())
        fl = float_lit(tok)
        if fl is not None:
            return ("flit", fl)
        il = int_lit(tok)
        if il is not None:
            return ("lit", il[0], il[1])
        if re.fullmatch(r"[A-Za-z_][A-Za-z0-9_:]*", tok):
            if tok in KEYWORDS:
                raise ShapeError("keyword %r in expression position" % tok)
            if self.peek() == "(":
                return ("call", tok, self.args())
            if self.peek() == "{" and re.search(r"(^|::)[A-Z]\w*$", tok):
                raise ShapeError("struct literal %s { .. }" % tok)
            return ("id", tok)
        raise ShapeError("unexpected token %r" % tok)

    def pattern(self):
        tok = self.eat()
        if tok == "&":
            return self.pattern()                 # `&Self::Integer(i)`: the binding is the value
        if tok == "_":
            return ("wild",)
        if tok == "(":
            raise ShapeError("tuple pattern")
        il = int_lit(tok)
        if il is not None:
            return ("plit", il[0])
        if "::" in tok:
            if self.peek() == "(":
                self.eat("(")
                subs = []
                while self.peek() != ")":
                    t = self.eat()
                    if t == "..":
                        subs.append(("rest",))
                    elif t == "_":
                        subs.append(("wild",))
                    elif re.fullmatch(r"[a-z_][a-z0-9_]*", t) and t not in KEYWORDS:
                        subs.append(("bind", t))
                    else:
                        raise ShapeError("sub-pattern %r" % t)
                    if self.peek() == ",":
                        self.eat(",")
                self.eat(")")
                return ("variant", tok, subs)
            if self.peek() == "{":
                self.eat("{")
                fields = []
                while self.peek() != "}":
                    t = self.eat()
                    if t == "..":
                        fields.append("..")
                    elif re.fullmatch(r"[a-z_][a-z0-9_]*", t) and t not in KEYWORDS:
                        if self.peek() == ":":
                            raise ShapeError("field pattern with a sub-pattern")
                        fields.append(t)
                    else:
                        raise ShapeError("field pattern %r" % t)
                    if self.peek() == ",":
                        self.eat(",")
                self.eat("}")
                return ("svariant", tok, fields)
            return ("variant", tok, None)
        if re.fullmatch(r"[a-z_][a-z0-9_]*", tok) and tok not in KEYWORDS:
            return ("bind", tok)
        raise ShapeError("pattern %r" % tok)


# ------------------------------------------------------------------------------------- typing + emission --
def closed(s):
    """is s one parenthesised group?"""
    if not (s.startswith("(") and s.endswith(")")):
        return False
    depth = 0
    for i, ch in enumerate(s):
        if ch == "(":
            depth += 1
        elif ch == ")":
            depth -= 1
            if depth == 0 and i != len(s) - 1:
                return False
    return True


def paren(s):
    s = s.strip()
    if re.fullmatch(r"[A-Za-z_][A-Za-z0-9_']*|\d+", s) or closed(s):
        return s
    return "(" + s + ")"


def grp(s):
    """parenthesise a term that would otherwise swallow what follows it"""
    return paren(s) if re.match(r"(let|if|fun)\b", s.strip()) else s


def unify(a, b):
    if a == NEVER:
        return b
    if b == NEVER:
        return a
    return a if a == b else None


def coq_type(ty):
    return {"bool": "bool", "res": "res", "binop": "binop", "unop": "unop", "expr": "outcome res"}.get(ty, "Z")


class V:
    """a compiled expression: Gallina term, Rust type, eff (True: the term has type `outcome T`, Err / Panic leave the
    function; False: the term has type T)"""
    __slots__ = ("t", "ty", "eff")

    def __init__(self, t, ty, eff=False):
        self.t, self.ty, self.eff = t, ty, eff


class Gen:
    """one per function.  sigs: {rust name: (kind, gallina head, [param types], ret type, eff, uses_fops)}"""

    def __init__(self, what, sigs, self_enum, uses, in_eval=False, result=False):
        self.what, self.sigs, self.self_enum, self.uses = what, sigs, self_enum, uses
        self.in_eval, self.result = in_eval, result
        self.n = 0
        self.aux = []            # auxiliary definitions (loops)
        self.fops = False        # does the emitted term mention the oracle record?

    def fresh(self, base="t"):
        self.n += 1
        return "%s%d_" % (base, self.n)

    @staticmethod
    def var(name):
        return "v_" + name

    def err(self, msg):
        raise ShapeError("%s: %s" % (self.what, msg))

    # ---- helpers --------------------------------------------------------------------------------------------
    def seq(self, parts, k):
        """parts: [V]; k(terms) -> (term, eff).  Effectful parts are bound left to right, pure ones are inlined."""
        names, binds = [], []
        for p in parts:
            if p.eff:
                x = self.fresh()
                binds.append((x, p.t))
                names.append(x)
            else:
                names.append(paren(p.t))
        term, eff = k(names)
        if binds and not eff:
            term, eff = "Ok " + paren(term), True
        for x, t in reversed(binds):
            term = "let? %s := %s in %s" % (x, grp(t), term)
        return term, eff

    @staticmethod
    def lift(v):
        return v.t if v.eff else "Ok " + paren(v.t)

    def is_untyped_lit(self, e):
        k = e[0]
        if k == "lit":
            return e[2] is None
        if k == "paren":
            return self.is_untyped_lit(e[1])
        if k == "un" and e[1] == "-":
            return self.is_untyped_lit(e[2])
        return False

    def lit(self, v, ty):
        if ty is None:
            self.err("the type of the literal %d cannot be determined" % v)
        if ty not in INT:
            self.err("literal %d at type %r" % (v, ty))
        sg, w = INT[ty]
        if not (0 <= v < 2 ** (w - (1 if sg == "s" else 0))):
            self.err("literal %d does not fit %s" % (v, ty))
        return V("%d" % v, ty)

    def ctor(self, path):
        """(enum type, gallina constructor, field list) of a variant path, or None"""
        if "::" not in path:
            return None
        head, name = path.rsplit("::", 1)
        if head == "Self":
            head = self.self_enum
        if head == "EvaluationResult":
            for n, c, f in RES_CTORS:
                if n == name:
                    return ("res", c, f)
        if head == "Expr":
            for n, c, f in EXPR_CTORS:
                if n == name:
                    return ("exprv", c, f)
        if head == "BinOpKind" and name in BINOPS:
            return ("binop", "B" + name, [])
        if head == "UnOpKind" and name in UNOPS:
            return ("unop", "U" + name, [])
        return None

    # ---- expressions ----------------------------------------------------------------------------------------
    def expr(self, e, env, want=None):
        k = e[0]
        if k == "paren":
            return self.expr(e[1], env, want)
        if k == "lit":
            return self.lit(e[1], e[2] or want)
        if k == "flit":
            self.err("float literal %s in value position (only `x != 0_f64` / `x == 0_f64` are understood)" % e[1])
        if k == "id":
            if e[1] in env:
                t, ty = env[e[1]][0], env[e[1]][1]
                return V(t, ty)
            c = self.ctor(e[1])
            if c and not c[2]:
                return V(c[1], c[0])
            self.err("unknown identifier %r" % e[1])
        if k == "un":
            return self.unary(e, env, want)
        if k == "bin":
            return self.binary(e, env, want)
        if k == "as":
            return self.cast(e, env)
        if k == "call":
            return self.call(e, env, want)
        if k == "mcall":
            return self.mcall(e, env, want)
        if k == "field":
            return self.field(e, env)
        if k == "try":
            v = self.expr(e[1], env, None)
            if not (isinstance(v.ty, tuple) and v.ty[0] == "result") or v.eff:
                self.err("`?` on a value of type %r" % (v.ty,))
            if not self.result:
                self.err("`?` in a function that does not return a Result")
            return V(v.t, v.ty[1], True)
        if k == "if":
            return self.if_(e, env, want)
        if k == "block":
            return self.block(e, env, want)
        if k == "match":
            return self.match(e, env, want)
        if k == "matches":
            s = self.expr(e[1], env, None)
            pat, _ = self.pattern(e[2], s.ty, env)
            term, eff = self.seq([s], lambda n: ("match %s with %s => true | _ => false end" % (n[0], pat), False))
            return V(term, "bool", eff)
        if k == "macro":
            if e[1] == "unreachable" and not e[2]:
                return V("Panic", NEVER, True)
            self.err("macro %s!" % e[1])
        if k == "return":
            return V(self.ret_err(e[1], env), NEVER, True)
        self.err("expression kind %r in value position" % k)

    def ret_err(self, e, env):
        if not self.result:
            self.err("`return` in a function that does not return a Result")
        if e[0] != "call" or e[1] != "Err" or len(e[2]) != 1:
            self.err("`return` of something other than Err(..)")
        return self.err_value(e[2][0], env)

    def err_value(self, e, env):
        while e[0] == "paren":
            e = e[1]
        if e[0] == "call" and e[1] in ERRS and len(e[2]) == 1:
            self.opaque(e[2][0], env)
            return "Err " + ERRS[e[1]]
        self.err("error constructor %r" % (e[1] if len(e) > 1 else e,))

    def opaque(self, e, env):
        if e[0] == "mcall" and e[2] == "into" and not e[3]:
            e = e[1]
        if e[0] == "str":
            return
        if e[0] == "macro" and e[1] == "format":
            if not e[2] or e[2][0][0] != "str":
                self.err("format! without a literal format string")
            for a in e[2][1:]:
                if not (a[0] == "id" and a[1] in env):
                    self.err("format! argument that is not a local")
            return
        self.err("error message %r" % (e[0],))

    def unary(self, e, env, want):
        op = e[1]
        if op in ("*", "&"):
            # references are erased: the translated functions never mutate through one
            inner = e[2]
            while inner[0] == "paren":
                inner = inner[1]
            if op == "*" and inner[0] != "id":
                self.err("dereference of something other than a local")
            return self.expr(e[2], env, want)
        a = self.expr(e[2], env, want)
        if op == "!":
            if a.ty == "bool":
                term, eff = self.seq([a], lambda n: ("negb %s" % n[0], False))
                return V(term, "bool", eff)
            if a.ty in INT:
                sg, w = INT[a.ty]
                term, eff = self.seq([a], lambda n: ("%s %d %s" % ("i_not" if sg == "s" else "r_not", w, n[0]), False))
                return V(term, a.ty, eff)
            self.err("`!` at type %r" % (a.ty,))
        if op == "-":
            if a.ty == "f64":
                term, eff = self.seq([a], lambda n: ("f64_neg %s" % n[0], False))
                return V(term, "f64", eff)
            if a.ty in INT and INT[a.ty][0] == "s":
                term, eff = self.seq([a], lambda n: ("i_neg %d %s" % (INT[a.ty][1], n[0]), True))
                return V(term, a.ty, eff)
            self.err("unary minus at type %r" % (a.ty,))
        self.err("unary %s" % op)

    def is_fzero(self, e):
        while e[0] == "paren":
            e = e[1]
        return e[0] == "flit" and float(e[1]) == 0.0

    def binary(self, e, env, want):
        op, l, r = e[1], e[2], e[3]
        if op in ("||", "&&"):
            a = self.expr(l, env, "bool")
            b = self.expr(r, env, "bool")
            if a.ty != "bool" or b.ty != "bool":
                self.err("%s on non-booleans" % op)
            if not b.eff:
                term, eff = self.seq([a], lambda n: ("%s %s %s" % (n[0], op, paren(b.t)), False))
                return V(term, "bool", eff)
            # the right operand may leave the function: it is evaluated only when the left one does not decide
            if op == "||":
                term, eff = self.seq([a], lambda n: ("if %s then Ok true else %s" % (n[0], paren(b.t)), True))
            else:
                term, eff = self.seq([a], lambda n: ("if %s then %s else Ok false" % (n[0], paren(b.t)), True))
            return V(term, "bool", eff)
        if op in ("==", "!=", "<", ">", "<=", ">="):
            if op in ("==", "!=") and (self.is_fzero(r) or self.is_fzero(l)):
                x = self.expr(l if self.is_fzero(r) else r, env, "f64")
                if x.ty != "f64":
                    self.err("comparison of a %r with a float literal" % (x.ty,))
                f = "f64_ne_zero" if op == "!=" else "f64_eq_zero"
                term, eff = self.seq([x], lambda n: ("%s %s" % (f, n[0]), False))
                return V(term, "bool", eff)
            if self.is_untyped_lit(l) and not self.is_untyped_lit(r):
                b = self.expr(r, env, None)
                a = self.expr(l, env, b.ty)
            else:
                a = self.expr(l, env, None)
                b = self.expr(r, env, a.ty)
            return self.compare(op, a, b)
        # arithmetic / bitwise
        if op in ("<<", ">>"):
            a = self.expr(l, env, want)
            b = self.expr(r, env, None if not self.is_untyped_lit(r) else "i32")
            if a.ty not in INT or b.ty not in INT:
                self.err("shift of %r by %r" % (a.ty, b.ty))
            sg, w = INT[a.ty]
            rr = r
            while rr[0] == "paren":
                rr = rr[1]
            if rr[0] == "lit" and 0 <= rr[1] < w:
                # the amount is a constant below the width: no panic possible
                if op == ">>":
                    term, eff = self.seq([a], lambda n: ("Z.shiftr %s %d" % (n[0], rr[1]), False))
                elif sg == "s":
                    term, eff = self.seq([a], lambda n: ("sw %d (%s * 2 ^ %d)" % (w, n[0], rr[1]), False))
                else:
                    term, eff = self.seq([a], lambda n: ("(%s * 2 ^ %d) mod 2 ^ %d" % (n[0], rr[1], w), False))
                return V(term, a.ty, eff)
            f = ("i_" if sg == "s" else "r_") + ("shl" if op == "<<" else "shr")
            term, eff = self.seq([a, b], lambda n: ("%s %d %s %s" % (f, w, n[0], n[1]), True))
            return V(term, a.ty, eff)
        if self.is_untyped_lit(l) and not self.is_untyped_lit(r):
            b = self.expr(r, env, want)
            a = self.expr(l, env, b.ty)
        else:
            a = self.expr(l, env, want)
            b = self.expr(r, env, a.ty)
        if a.ty != b.ty:
            self.err("operands of %s have types %r and %r" % (op, a.ty, b.ty))
        ty = a.ty
        if ty == "bool" and op in ("|", "&", "^"):
            f = {"|": "orb", "&": "andb", "^": "xorb"}[op]
            term, eff = self.seq([a, b], lambda n: ("%s %s %s" % (f, n[0], n[1]), False))    # both operands evaluated
            return V(term, "bool", eff)
        if ty == "f64":
            if op not in ("+", "-", "*", "/", "%"):
                self.err("%s on floats" % op)
            f = {"+": "f64_add", "-": "f64_sub", "*": "f64_mul", "/": "f64_div", "%": "f64_rem"}[op]
            self.fops = True
            term, eff = self.seq([a, b], lambda n: ("%s fops %s %s" % (f, n[0], n[1]), False))
            return V(term, "f64", eff)
        if ty not in INT:
            self.err("%s at type %r" % (op, ty))
        sg, w = INT[ty]
        if op in ("&", "|", "^"):
            nm = {"&": "and", "|": "or", "^": "xor"}[op]
            if sg == "s":
                term, eff = self.seq([a, b], lambda n: ("i_%s %d %s %s" % (nm, w, n[0], n[1]), False))
            else:
                term, eff = self.seq([a, b], lambda n: ("Z.l%s %s %s" % (nm, n[0], n[1]), False))
            return V(term, ty, eff)
        if op in ("+", "-", "*"):
            nm = {"+": "add", "-": "sub", "*": "mul"}[op]
            term, eff = self.seq([a, b], lambda n: ("%s_%s %d %s %s" % ("i" if sg == "s" else "r", nm, w, n[0], n[1]), True))
            return V(term, ty, eff)
        if op in ("/", "%"):
            if ty != "i64":
                self.err("%s at type %r" % (op, ty))
            term, eff = self.seq([a, b], lambda n: ("%s %s %s" % ("i64_div" if op == "/" else "i64_rem", n[0], n[1]), True))
            return V(term, ty, eff)
        self.err("operator %s" % op)

    def compare(self, op, a, b):
        if a.ty != b.ty:
            self.err("comparison of %r with %r" % (a.ty, b.ty))
        if a.ty == "f64":
            f = {"==": "eq", "!=": "ne", "<": "lt", "<=": "le", ">": "gt", ">=": "ge"}[op]
            self.fops = True
            term, eff = self.seq([a, b], lambda n: ("f64_%s fops %s %s" % (f, n[0], n[1]), False))
            return V(term, "bool", eff)
        if a.ty not in INT:
            self.err("comparison at type %r" % (a.ty,))
        c = {"==": "%s =? %s", "!=": "negb (%s =? %s)", "<": "%s <? %s", ">": "%s >? %s", "<=": "%s <=? %s",
             ">=": "%s >=? %s"}[op]
        term, eff = self.seq([a, b], lambda n: (c % (n[0], n[1]), False))
        return V(term, "bool", eff)

    def cast(self, e, env):
        src = self.expr(e[1], env, None if not self.is_untyped_lit(e[1]) else "i32")
        dst = e[2]
        if src.ty in INT and dst in INT:
            ds, dw = INT[dst]
            c = ("r_cast %d %s" if ds == "u" else "sw %d %s")
            term, eff = self.seq([src], lambda n: (c % (dw, n[0]), False))
            return V(term, dst, eff)
        if src.ty == "i64" and dst == "f64":
            self.fops = True
            term, eff = self.seq([src], lambda n: ("i64_as_f64 fops %s" % n[0], False))
            return V(term, "f64", eff)
        if src.ty == "f64" and dst == "i64":
            self.fops = True
            term, eff = self.seq([src], lambda n: ("f64_as_i64 fops %s" % n[0], False))
            return V(term, "i64", eff)
        if src.ty == "f64" and dst == "f64":
            return src
        self.err("cast of a %r to %s" % (src.ty, dst))

    def convert(self, v, want):
        """From / Into: the only targets are EvaluationResult (from bool, i64, f64) and the identity"""
        if want is None:
            self.err("the target type of a conversion cannot be determined")
        if v.ty == want:
            return v
        if want == "res" and v.ty in ("bool", "i64", "f64"):
            name = "from_" + v.ty
            if name not in self.sigs:
                self.err("no `impl From<%s> for EvaluationResult`" % v.ty)
            return self.apply(name, [v])
        if v.ty == NEVER:
            return v
        self.err("conversion of a %r into %r" % (v.ty, want))

    def apply(self, name, args):
        kind, head, ptys, rty, feff, fops = self.sigs[name]
        if len(ptys) != len(args):
            self.err("arity of %s" % name)
        for p, a in zip(ptys, args):
            if a.ty != p and a.ty != NEVER:
                self.err("argument of %s has type %r, not %r" % (name, a.ty, p))
        if fops:
            self.fops = True
            head = head + " fops"
        term, eff = self.seq(args, lambda n: (" ".join([head] + n), feff))
        return V(term, rty, eff)

    def call(self, e, env, want):
        path, args = e[1], e[2]
        if path == "Ok" or path == "Err":
            self.err("%s(..) in value position" % path)
        if path in ("EvaluationResult::from", "Self::from") and (path != "Self::from" or self.self_enum == "EvaluationResult"):
            if len(args) != 1:
                self.err("arity of %s" % path)
            return self.convert(self.expr(args[0], env, None), "res")
        c = self.ctor(path)
        if c:
            ety, cname, fields = c
            if ety == "exprv":
                self.err("construction of an Expr")
            if len(fields) != len(args):
                self.err("arity of %s" % path)
            vs = [self.expr(a, env, f[1]) for a, f in zip(args, fields)]
            for v, f in zip(vs, fields):
                if v.ty != f[1]:
                    self.err("%s of a %r" % (path, v.ty))
            term, eff = self.seq(vs, lambda n: (" ".join([cname] + n), False))
            return V(term, ety, eff)
        if "::" not in path and path in self.sigs and self.sigs[path][0] == "free":
            ptys = self.sigs[path][2]
            if len(ptys) != len(args):
                self.err("arity of %s" % path)
            return self.apply(path, [self.expr(a, env, p) for a, p in zip(args, ptys)])
        self.err("call of %r" % path)

    def field(self, e, env):
        if e[2] != "0":
            self.err("field .%s" % e[2])
        v = self.expr(e[1], env, None)
        if not (isinstance(v.ty, tuple) and v.ty[0] == "tuple"):
            self.err(".0 of a %r" % (v.ty,))
        term, eff = self.seq([v], lambda n: ("fst %s" % n[0], False))
        return V(term, v.ty[1][0], eff)

    def mcall(self, e, env, want):
        recv, name, args = e[1], e[2], e[3]
        if name == "into" and not args:
            return self.convert(self.expr(recv, env, None), want)
        r = self.expr(recv, env, None)
        if r.ty == "res":
            key = "res." + name
            if key not in self.sigs:
                self.err("method EvaluationResult::%s" % name)
            if args:
                self.err("arguments of EvaluationResult::%s" % name)
            return self.apply(key, [r])
        if r.ty == "expr":
            return self.expr_method(r, name, args, env)
        if r.ty in ("i64",):
            return self.i64_method(r, name, args, env)
        if r.ty == "f64":
            return self.f64_method(r, name, args, env)
        self.err("method .%s(..) on a %r" % (name, r.ty))

    def expr_method(self, r, name, args, env):
        def is_env(a):
            return a[0] == "id" and a[1] in env and env[a[1]][1] == "env"
        if name == "eval":
            if len(args) != 1 or not is_env(args[0]):
                self.err("eval(..) with something other than the environment")
            return V(r.t, ("result", "res"))
        key = "expr." + name
        if key in self.sigs and name in ("eval_binop", "eval_unop"):
            kind, head, ptys, rty, feff, fops = self.sigs[key]
            # parameters: self, op, [rhs], var_env
            want_n = len(ptys)
            if len(args) != want_n or not is_env(args[-1]):
                self.err("arguments of %s" % name)
            vs = [r] + [self.expr(a, env, p) for a, p in zip(args[:-1], ptys[1:])]
            for v, p in zip(vs, ptys):
                if v.ty != p or v.eff:
                    self.err("argument of %s has type %r, not %r" % (name, v.ty, p))
            # order of the Gallina parameters: op first, then the evaluations of self and rhs
            order = [vs[1], vs[0]] + vs[2:]
            if fops:
                self.fops = True
                head += " fops"
            return V(" ".join([head] + [paren(v.t) for v in order]), ("result", "res"))
        self.err("method Expr::%s" % name)

    def i64_method(self, r, name, args, env):
        def arg(ty):
            if len(args) != 1:
                self.err("arity of i64::%s" % name)
            a = self.expr(args[0], env, ty)
            if a.ty != ty:
                self.err("i64::%s of a %r" % (name, a.ty))
            return a
        if name in ("overflowing_add", "overflowing_sub", "overflowing_mul"):
            b = arg("i64")
            term, eff = self.seq([r, b], lambda n: ("i64_%s %s %s" % (name, n[0], n[1]), False))
            return V(term, ("tuple", ["i64", "bool"]), eff)
        if name == "overflowing_rem":
            b = arg("i64")
            term, eff = self.seq([r, b], lambda n: ("i64_overflowing_rem %s %s" % (n[0], n[1]), True))
            return V(term, ("tuple", ["i64", "bool"]), eff)
        if name in ("overflowing_shl", "overflowing_shr"):
            b = arg("u32")
            term, eff = self.seq([r, b], lambda n: ("i64_%s %s %s" % (name, n[0], n[1]), False))
            return V(term, ("tuple", ["i64", "bool"]), eff)
        if name in ("wrapping_add", "wrapping_sub", "wrapping_mul"):
            b = arg("i64")
            term, eff = self.seq([r, b], lambda n: ("i64_%s %s %s" % (name, n[0], n[1]), False))
            return V(term, "i64", eff)
        if name in ("wrapping_neg", "wrapping_abs", "signum"):
            if args:
                self.err("arity of i64::%s" % name)
            term, eff = self.seq([r], lambda n: ("i64_%s %s" % (name, n[0]), False))
            return V(term, "i64", eff)
        if name == "abs" and not args:
            term, eff = self.seq([r], lambda n: ("i64_abs %s" % n[0], True))
            return V(term, "i64", eff)
        if name == "neg" and not args:
            if "Neg" not in self.uses:
                self.err("`.neg()` without `use std::ops::Neg`")
            term, eff = self.seq([r], lambda n: ("i_neg 64 %s" % n[0], True))
            return V(term, "i64", eff)
        if name in ("eq", "ne", "lt", "le", "gt", "ge"):
            b = arg("i64")
            return self.compare({"eq": "==", "ne": "!=", "lt": "<", "le": "<=", "gt": ">", "ge": ">="}[name], r, b)
        self.err("method i64::%s" % name)

    def f64_method(self, r, name, args, env):
        self.fops = True
        if name in ("add", "sub", "mul", "rem", "div", "powf"):
            if name in F64_TRAIT and F64_TRAIT[name] not in self.uses:
                self.err("`.%s(..)` without `use std::ops::%s`" % (name, F64_TRAIT[name]))
            if len(args) != 1:
                self.err("arity of f64::%s" % name)
            b = self.expr(args[0], env, "f64")
            if b.ty != "f64":
                self.err("f64::%s of a %r" % (name, b.ty))
            term, eff = self.seq([r, b], lambda n: ("f64_%s fops %s %s" % (name, n[0], n[1]), False))
            return V(term, "f64", eff)
        if name in ("eq", "ne", "lt", "le", "gt", "ge"):
            if len(args) != 1:
                self.err("arity of f64::%s" % name)
            b = self.expr(args[0], env, "f64")
            return self.compare({"eq": "==", "ne": "!=", "lt": "<", "le": "<=", "gt": ">", "ge": ">="}[name], r, b)
        if args:
            self.err("arguments of f64::%s" % name)
        if name in ("neg", "abs", "signum"):
            if name == "neg" and "Neg" not in self.uses:
                self.err("`.neg()` without `use std::ops::Neg`")
            term, eff = self.seq([r], lambda n: ("f64_%s %s" % (name, n[0]), False))
            return V(term, "f64", eff)
        if name in F64_FUN1:
            term, eff = self.seq([r], lambda n: ("f64_%s fops %s" % (name, n[0]), False))
            return V(term, "f64", eff)
        self.err("method f64::%s" % name)

    def branches(self, vs, want):
        """common type and effect of the alternatives of an if / match"""
        ty = None
        for v in vs:
            ty = v.ty if ty is None else unify(ty, v.ty)
            if ty is None:
                self.err("branches of different types %r" % ([v.ty for v in vs],))
        eff = any(v.eff for v in vs)
        return ty, eff, [grp(self.lift(v) if eff else v.t) for v in vs]

    def if_(self, e, env, want):
        if e[3] is None:
            self.err("`if` without else in value position")
        c = self.expr(e[1], env, "bool")
        if c.ty != "bool":
            self.err("condition of type %r" % (c.ty,))
        a = self.block(e[2], env, want)
        b = self.block(e[3], env, want if a.ty in (None, NEVER) else a.ty)
        ty, eff, (ta, tb) = self.branches([a, b], want)
        term, eff2 = self.seq([c], lambda n: ("if %s then %s else %s" % (n[0], ta, tb), eff))
        return V(term, ty, eff2)

    def pattern(self, p, sty, env):
        """-> (gallina pattern, env with the bindings)"""
        if p[0] == "wild":
            return "_", env
        if p[0] == "bind":
            env = dict(env)
            env[p[1]] = (self.var(p[1]), sty)
            return self.var(p[1]), env
        if p[0] in ("variant", "svariant"):
            c = self.ctor(p[1])
            if not c:
                self.err("pattern %s" % p[1])
            ety, cname, fields = c
            if ety == "exprv":
                ety = "expr"
                if not self.in_eval:
                    self.err("pattern on an Expr outside Expr::eval")
            if ety != sty:
                self.err("pattern %s in a match on a %r" % (p[1], sty))
            env = dict(env)
            if p[0] == "variant":
                subs = p[2]
                if subs is None:
                    if fields:
                        self.err("pattern %s without its fields" % p[1])
                    return cname, env
                if any(f[0] is not None for f in fields):
                    self.err("tuple pattern on the struct variant %s" % p[1])
                if subs == [("rest",)]:
                    return " ".join([cname] + ["_"] * len(fields)), env
                if len(subs) != len(fields) or any(s[0] == "rest" for s in subs):
                    self.err("sub-patterns of %s" % p[1])
                names = []
                for s, f in zip(subs, fields):
                    if s[0] == "wild":
                        names.append("_")
                    else:
                        env[s[1]] = (self.bound(s[1], f[1]), f[1], "sub")
                        names.append(self.var(s[1]))
                return " ".join([cname] + names), env
            if any(f[0] is None for f in fields):
                self.err("struct pattern on the tuple variant %s" % p[1])
            given = [x for x in p[2] if x != ".."]
            if len(set(given)) != len(given) or any(g not in [f[0] for f in fields] for g in given):
                self.err("fields of the pattern %s" % p[1])
            if ".." not in p[2] and len(given) != len(fields):
                self.err("pattern %s does not name every field" % p[1])
            names = []
            for fname, fty in fields:
                if fname in given:
                    env[fname] = (self.bound(fname, fty), fty, "sub")
                    names.append(self.var(fname))
                else:
                    names.append("_")
            return " ".join([cname] + names), env
        self.err("pattern %r" % (p,))

    def bound(self, name, ty):
        """the term a pattern binding stands for: a sub-expression of `self` in Expr::eval is used only through its
        evaluation in the same environment, the structural recursive call `ev`"""
        return "(ev %s)" % self.var(name) if ty == "expr" else self.var(name)

    def match(self, e, env, want):
        s = self.expr(e[1], env, None)
        if s.ty not in ("res", "binop", "unop", "expr"):
            self.err("match on a value of type %r" % (s.ty,))
        if s.ty == "expr" and not (self.in_eval and e[1] == ("id", "self")):
            self.err("match on an Expr other than `self` of Expr::eval")
        arms, vs = [], []
        ty = None
        for pats, body in e[2]:
            gp, benv = [], env
            for p in pats:
                g, benv2 = self.pattern(p, s.ty, env)
                if len(pats) > 1 and benv2 != env:
                    self.err("binding in an or-pattern")
                gp.append(g)
                benv = benv2
            v = self.expr(body, benv, want if ty in (None, NEVER) else ty)
            if v.ty not in (None, NEVER):
                ty = v.ty if ty in (None, NEVER) else ty
            arms.append(" | ".join(gp))
            vs.append(v)
        ty, eff, ts = self.branches(vs, want)
        sv = "e" if s.ty == "expr" else None
        body = " ".join("| %s => %s" % (a, t) for a, t in zip(arms, ts))
        term, eff2 = self.seq([s], lambda n: ("match %s with %s end" % (sv or n[0], body), eff))
        return V(term, ty, eff2)

    # ---- blocks and statements --------------------------------------------------------------------------------
    def block(self, blk, env, want, terminal=None):
        """terminal(env) -> V: what follows the last statement (loop bodies); None: the block must end in a tail
        expression / return"""
        assert blk[0] == "block"
        stmts = blk[1]
        env = dict(env)

        def go(i, env):
            if i == len(stmts):
                if terminal is None:
                    self.err("block without a tail expression")
                return terminal(env)
            st = stmts[i]
            k = st[0]
            if k == "use":
                return go(i + 1, env)
            if k == "tail":
                if terminal is not None:
                    self.err("tail expression in a loop body")
                return self.expr(st[1], env, want)
            if k == "ret":
                return V(self.ret_err(st[1], env), NEVER, True)
            if k == "let":
                _, name, mut, ann, ex = st
                if ann is not None and ann not in INT and ann not in ("f64", "bool"):
                    self.err("type annotation %r" % ann)
                if ann is None and self.is_untyped_lit(ex):
                    self.err("the type of `let %s = <literal>` is not determined locally" % name)
                v = self.expr(ex, env, ann)
                if ann is not None and v.ty != ann:
                    self.err("let %s: %s = a value of type %r" % (name, ann, v.ty))
                if v.ty == NEVER or isinstance(v.ty, tuple):
                    self.err("let of a value of type %r" % (v.ty,))
                env2 = dict(env)
                env2[name] = (self.var(name), v.ty, "mut" if mut else "let")
                rest = go(i + 1, env2)
                if v.eff:
                    return V("let? %s := %s in %s" % (self.var(name), grp(v.t), self.lift(rest)), rest.ty, True)
                return V("let %s := %s in %s" % (self.var(name), grp(v.t), rest.t), rest.ty, rest.eff)
            if k == "assign":
                _, name, op, ex = st
                if name not in env or len(env[name]) < 3 or env[name][2] != "mut":
                    self.err("assignment to `%s`, which is not a `mut` local" % name)
                ty = env[name][1]
                v = self.expr(("bin", op, ("id", name), ex) if op else ex, env, ty)
                if v.ty != ty:
                    self.err("assignment of a %r to `%s: %s`" % (v.ty, name, ty))
                rest = go(i + 1, env)
                if v.eff:
                    return V("let? %s := %s in %s" % (self.var(name), grp(v.t), self.lift(rest)), rest.ty, True)
                return V("let %s := %s in %s" % (self.var(name), grp(v.t), rest.t), rest.ty, rest.eff)
            if k == "ifstmt":
                _, cond, body = st
                c = self.expr(cond, env, "bool")
                if c.ty != "bool":
                    self.err("condition of type %r" % (c.ty,))
                bs = [s for s in body[1] if s[0] != "use"]
                if len(bs) == 1 and bs[0][0] in ("ret", "tail") and (bs[0][0] == "ret" or bs[0][1][0] == "return"):
                    r = self.ret_err(bs[0][1] if bs[0][0] == "ret" else bs[0][1][1], env)
                    rest = go(i + 1, env)
                    term, _ = self.seq([c], lambda n: ("if %s then %s else %s" % (n[0], r, paren(self.lift(rest))), True))
                    return V(term, rest.ty, True)
                if len(bs) == 1 and bs[0][0] == "assign":
                    _, name, op, ex = bs[0]
                    if name not in env or len(env[name]) < 3 or env[name][2] != "mut":
                        self.err("assignment to `%s`, which is not a `mut` local" % name)
                    ty = env[name][1]
                    v = self.expr(("bin", op, ("id", name), ex) if op else ex, env, ty)
                    if v.ty != ty:
                        self.err("assignment of a %r to `%s: %s`" % (v.ty, name, ty))
                    old = V(self.var(name), ty)
                    _, beff, (tn, to) = self.branches([v, old], ty)
                    term, eff = self.seq([c], lambda n: ("if %s then %s else %s" % (n[0], tn, to), beff))
                    rest = go(i + 1, env)
                    if eff:
                        return V("let? %s := %s in %s" % (self.var(name), grp(term), self.lift(rest)), rest.ty, True)
                    return V("let %s := %s in %s" % (self.var(name), grp(term), rest.t), rest.ty, rest.eff)
                self.err("`if` statement whose body is neither one `return Err(..)` nor one assignment")
            if k == "while":
                return self.while_(st, env, lambda env2: go(i + 1, env2))
            self.err("statement kind %r" % k)
        return go(0, env)

    def assigned(self, blk):
        out = []
        for st in blk[1]:
            if st[0] == "assign" and st[1] not in out:
                out.append(st[1])
            elif st[0] == "ifstmt":
                for x in self.assigned(st[2]):
                    if x not in out:
                        out.append(x)
            elif st[0] == "while":
                self.err("nested loop")
        return out

    def while_(self, st, env, after):
        _, cond, body = st
        if self.aux:
            self.err("more than one loop in a function")
        state = [n for n in env if len(env[n]) >= 3 and env[n][2] == "mut" and n in self.assigned(body)]
        for n in self.assigned(body):
            if n not in state:
                self.err("the loop assigns `%s`, which is not a `mut` local" % n)
        if not state:
            self.err("loop without state")
        others = [n for n in env if n not in state and env[n][1] in INT or env[n][1] in ("f64", "bool") and n not in state]
        c = self.expr(cond, env, "bool")
        if c.ty != "bool" or c.eff:
            self.err("loop condition")
        name = "src_%s_loop" % self.what.split("::")[-1]
        params = [self.var(n) for n in others] + [self.var(n) for n in state]
        tup = "(%s)" % ", ".join(self.var(n) for n in state)

        def again(env2):
            return V(" ".join([name, "fuel'"] + params), "state", True)
        b = self.block(body, env, None, terminal=again)
        if any(st_[0] == "let" for st_ in body[1]):
            self.err("`let` in a loop body")
        uses_fops = "fops" in b.t or "fops" in c.t
        head = "Fixpoint %s %s(fuel : nat) (%s : Z) : outcome (%s) :=" % (
            name, "(fops : float_ops) " if uses_fops else "", " ".join(params), " * ".join(["Z"] * len(state)))
        defn = "%s if %s then match fuel with O => Err E_FUEL | S fuel' => %s end else Ok %s." % (head, c.t, self.lift(b), tup)
        self.aux.append(defn)
        rest = after(env)
        call = " ".join([name] + (["fops"] if uses_fops else []) + ["%d%%nat" % LOOP_FUEL] + params)
        return V("let? %s := %s in %s" % (tup, call, self.lift(rest)), rest.ty, True)

    # ---- function-result context (a value of type Result<T, _> that is the function's result) -------------------
    def tail(self, e, env, rty):
        """-> Gallina term of type `outcome <rty>`"""
        k = e[0]
        if k == "paren":
            return self.tail(e[1], env, rty)
        if k == "call" and e[1] == "Ok":
            if len(e[2]) != 1:
                self.err("Ok with %d arguments" % len(e[2]))
            v = self.expr(e[2][0], env, rty)
            v = self.convert(v, rty) if v.ty != rty else v
            return self.lift(v)
        if k == "call" and e[1] == "Err":
            if len(e[2]) != 1:
                self.err("Err with %d arguments" % len(e[2]))
            return self.err_value(e[2][0], env)
        if k == "block":
            stmts = e[1]
            if not stmts or stmts[-1][0] != "tail" or any(s[0] not in ("tail", "use") for s in stmts):
                # a block with statements: translate the statements in value context around the tail
                return self.block_tail(e, env, rty)
            return self.tail(stmts[-1][1], env, rty)
        if k == "if":
            if e[3] is None:
                self.err("`if` without else as a result")
            c = self.expr(e[1], env, "bool")
            if c.ty != "bool":
                self.err("condition of type %r" % (c.ty,))
            a = self.tail(e[2], env, rty)
            b = self.tail(e[3], env, rty)
            term, _ = self.seq([c], lambda n: ("if %s then %s else %s" % (n[0], grp(a), grp(b)), True))
            return term
        if k == "match":
            s = self.expr(e[1], env, None)
            if s.ty == "expr" and not (self.in_eval and e[1] == ("id", "self")):
                self.err("match on an Expr other than `self` of Expr::eval")
            if s.ty not in ("res", "binop", "unop", "expr"):
                self.err("match on a value of type %r" % (s.ty,))
            arms = []
            for pats, body in e[2]:
                gp, benv = [], env
                for p in pats:
                    g, benv2 = self.pattern(p, s.ty, env)
                    if len(pats) > 1 and benv2 != env:
                        self.err("binding in an or-pattern")
                    gp.append(g)
                    benv = benv2
                arms.append("| %s => %s" % (" | ".join(gp), self.tail(body, benv, rty)))
            sv = "e" if s.ty == "expr" else None
            term, _ = self.seq([s], lambda n: ("match %s with %s end" % (sv or n[0], " ".join(arms)), True))
            return term
        if k == "mcall" and self.is_lookup(e, env):
            return self.lookup_term(e, env)
        v = self.expr(e, env, None)
        if isinstance(v.ty, tuple) and v.ty[0] == "result" and v.ty[1] == rty and not v.eff:
            return v.t
        self.err("result of type %r where a Result<%s> is expected" % (v.ty, rty))

    def block_tail(self, blk, env, rty):
        stmts = blk[1]
        if not stmts or stmts[-1][0] != "tail":
            self.err("block without a tail expression")
        last = stmts[-1][1]
        inner = ("block", stmts[:-1])
        v = self.block(inner, env, None, terminal=lambda env2: V(self.tail(last, env2, rty), rty, True))
        return self.lift(v)

    def is_lookup(self, e, env):
        """var_env.get(s.as_str()).ok_or_else(|| GenApiError::invalid_node(..))?.borrow().eval(var_env)"""
        try:
            assert e[0] == "mcall" and e[2] == "eval" and len(e[3]) == 1
            b = e[1]
            assert b[0] == "mcall" and b[2] == "borrow" and not b[3]
            t = b[1]
            assert t[0] == "try"
            o = t[1]
            assert o[0] == "mcall" and o[2] == "ok_or_else" and len(o[3]) == 1 and o[3][0][0] == "closure0"
            g = o[1]
            assert g[0] == "mcall" and g[2] == "get" and len(g[3]) == 1
            return True
        except (AssertionError, IndexError):
            return False

    def lookup_term(self, e, env):
        if not self.in_eval:
            self.err("environment lookup outside Expr::eval")
        o = e[1][1][1]
        g = o[1]
        venv, key, arg = g[1], g[3][0], e[3][0]

        def is_env(a):
            return a[0] == "id" and a[1] in env and env[a[1]][1] == "env"
        if not is_env(venv) or not is_env(arg) or venv != arg:
            self.err("the lookup does not use the environment it evaluates in")
        if not (key[0] == "mcall" and key[2] == "as_str" and not key[3] and key[1][0] == "id"
                and key[1][1] in env and env[key[1][1]][1] == "string"):
            self.err("the key of the lookup is not the identifier's name")
        body = o[3][0][1]
        while body[0] == "paren" or (body[0] == "block" and len(body[1]) == 1 and body[1][0][0] == "tail"):
            body = body[1] if body[0] == "paren" else body[1][0][1]
        cls = self.err_value(body, env)
        self.fops_rec = True
        return ("match lookup %s env with None => %s | Some e' => match fuel with O => Err E_FUEL | S fuel' => "
                "src_eval fops fuel' env e' end end" % (env[key[1][1]][0], cls))


# ------------------------------------------------------------------------------------------- source items --
def one_block(src, head_re, what):
    ms = list(re.finditer(head_re, src, flags=re.M))
    if len(ms) != 1:
        raise ShapeError("%d items `%s`" % (len(ms), what))
    return block_after(src, ms[0].end() - 1)[0]


def split_top(s, sep=","):
    out, depth, cur = [], 0, ""
    for ch in s:
        if ch in "<([{":
            depth += 1
        elif ch in ">)]}":
            depth -= 1
        if ch == sep and depth == 0:
            out.append(cur)
            cur = ""
        else:
            cur += ch
    if cur.strip():
        out.append(cur)
    return [x.strip() for x in out]


def functions(body):
    """{name: (params text, return type text, body text)} of the fns directly inside an item list"""
    out, pos = {}, 0
    while True:
        m = re.compile(r"\bfn\s+(\w+)\s*(<[^>(]*>)?\s*\(").search(body, pos)
        if not m:
            return out
        # parameter list
        depth, j = 0, m.end() - 1
        for j in range(m.end() - 1, len(body)):
            if body[j] == "(":
                depth += 1
            elif body[j] == ")":
                depth -= 1
                if depth == 0:
                    break
        params = body[m.end():j]
        brace = body.index("{", j)
        head = body[j + 1:brace]
        rm = re.match(r"\s*->\s*(.*?)\s*(?:\bwhere\b.*)?$", head, flags=re.S)
        ret = rm.group(1).strip() if rm else ""
        text, end = block_after(body, brace)
        if m.group(1) in out:
            raise ShapeError("two functions named %s" % m.group(1))
        out[m.group(1)] = (params, ret, text)
        pos = end


def enum_decl(src, name):
    body = one_block(src, r"^pub enum %s \{" % name, "enum " + name)
    out = []
    for item in split_top(body):
        m = re.fullmatch(r"(\w+)", item)
        if m:
            out.append((m.group(1), []))
            continue
        m = re.fullmatch(r"(\w+)\s*\((.*)\)", item, flags=re.S)
        if m:
            out.append((m.group(1), [(None, norm_type(t)) for t in split_top(m.group(2))]))
            continue
        m = re.fullmatch(r"(\w+)\s*\{(.*)\}", item, flags=re.S)
        if m:
            fs = []
            for f in split_top(m.group(2)):
                fm = re.fullmatch(r"(\w+)\s*:\s*(.+)", f, flags=re.S)
                if not fm:
                    raise ShapeError("field %r of %s::%s" % (f, name, m.group(1)))
                fs.append((fm.group(1), norm_type(fm.group(2))))
            out.append((m.group(1), fs))
            continue
        raise ShapeError("variant %r of %s" % (item, name))
    return out


def norm_type(t):
    t = re.sub(r"\s+", "", t)
    return {"Box<Expr>": "expr", "BinOpKind": "binop", "UnOpKind": "unop", "String": "string"}.get(t, t)


def param_type(t, impl):
    t = re.sub(r"\s+", "", t)
    if t in INT or t in ("f64", "bool"):
        return t
    if t in ("BinOpKind", "UnOpKind"):
        return norm_type(t)
    if t in ("&Self", "&Expr") and (impl == "Expr" or t == "&Expr"):
        return "expr"
    if t == "&HashMap<K,V>":
        return "env"
    raise ShapeError("parameter type %r" % t)


def signature(params, ret, impl, what):
    ps = []
    for p in split_top(params):
        if p in ("self", "&self"):
            if impl not in ("EvaluationResult", "Expr"):
                raise ShapeError("%s: self outside an impl" % what)
            ps.append(("self", "res" if impl == "EvaluationResult" else "expr", False))
            continue
        m = re.fullmatch(r"(mut\s+)?(\w+)\s*:\s*(.+)", p, flags=re.S)
        if not m:
            raise ShapeError("%s: parameter %r" % (what, p))
        ps.append((m.group(2), param_type(m.group(3), impl), bool(m.group(1))))
    r = re.sub(r"\s+", "", ret)
    result = False
    if r == "GenApiResult<EvaluationResult>":
        r, result = "res", True
    elif r == "Self" and impl == "EvaluationResult":
        r = "res"
    elif r not in INT and r not in ("f64", "bool"):
        raise ShapeError("%s: return type %r" % (what, ret))
    return ps, r, result


def uses_of(stmts_text):
    """names imported by the `use std::ops::..;` lines of a body"""
    out = set()
    for m in re.finditer(r"\buse\s+std::ops::(\w+|\{[^}]*\})\s*;", stmts_text):
        g = m.group(1)
        out.update(x.strip() for x in g.strip("{}").split(",") if x.strip())
    return out


def translate(repo):
    path = os.path.join(repo, "genapi", "src", "formula.rs")
    src = strip_comments(open(path).read())
    # the test module is not part of the translation unit
    src = re.split(r"(?m)^#\[cfg\(test\)\]", src)[0]
    # ---- declarations ------------------------------------------------------------------------------------------
    if [v for v, _ in enum_decl(src, "BinOpKind")] != BINOPS or any(f for _, f in enum_decl(src, "BinOpKind")):
        raise ShapeError("enum BinOpKind is not %s" % BINOPS)
    if [v for v, _ in enum_decl(src, "UnOpKind")] != UNOPS or any(f for _, f in enum_decl(src, "UnOpKind")):
        raise ShapeError("enum UnOpKind is not %s" % UNOPS)
    if enum_decl(src, "EvaluationResult") != [(n, f) for n, _, f in RES_CTORS]:
        raise ShapeError("enum EvaluationResult is not { Integer(i64), Float(f64) }")
    if enum_decl(src, "Expr") != [(n, f) for n, _, f in EXPR_CTORS]:
        raise ShapeError("enum Expr does not have the variants / fields of model/Formula.v's expr")
    if not re.search(r"(?m)^use super::\{[^}]*\bGenApiError\b[^}]*\bGenApiResult\b[^}]*\};", src):
        raise ShapeError("GenApiError / GenApiResult are not imported from the parent module")
    if not re.search(r"(?m)^use std::\{[^}]*\bcollections::HashMap\b[^}]*\};", src):
        raise ShapeError("HashMap is not std's")
    sigs, defs = {}, []

    def compile_fn(key, kind, head, name, impl, params, ret, text, in_eval=False):
        what = "%s::%s" % (impl, name) if impl else name
        ps, rty, result = signature(params, ret, impl, what)
        toks = expand_local_macros(tokenize(text), what)
        p = Parser(toks)
        try:
            blk = p.block()
        except ShapeError as e:
            raise ShapeError("%s: %s" % (what, e))
        if not p.done():
            raise ShapeError("%s: trailing tokens %r" % (what, p.peek()))
        g = Gen(what, sigs, impl, uses_of(text), in_eval=in_eval, result=result)
        env, gparams = {}, []
        for pn, pt, mut in ps:
            if pt == "env":
                env[pn] = ("env", "env")
            elif pt == "expr" and in_eval:
                env[pn] = ("(ev e)", "expr")
            elif pt == "expr":
                env[pn] = ("ev_" + pn, "expr")
                gparams.append(("ev_" + pn, "outcome res"))
            else:
                env[pn] = (Gen.var(pn), pt, "mut" if mut else "let")
                gparams.append((Gen.var(pn), coq_type(pt)))
        if result:
            stmts = blk[1]
            body = g.tail(blk, env, rty)
            eff = True
        else:
            v = g.block(blk, env, rty)
            if v.ty != rty:
                raise ShapeError("%s: body has type %r, declared %r" % (what, v.ty, rty))
            body, eff = v.t, v.eff
        return g, ps, rty, result, gparams, body, eff

    def add(key, kind, head, name, impl, params, ret, text):
        g, ps, rty, result, gparams, body, eff = compile_fn(key, kind, head, name, impl, params, ret, text)
        fops = g.fops
        for a in g.aux:
            defs.append(("raw", a))
        # Gallina parameter order of eval_binop / eval_unop: the operator first
        if name in ("eval_binop", "eval_unop"):
            if [p[1] for p in ps][:2] != ["expr", {"eval_binop": "binop", "eval_unop": "unop"}[name]] or ps[0][0] != "self" \
                    or [p[1] for p in ps][2:] != {"eval_binop": ["expr", "env"], "eval_unop": ["env"]}[name]:
                raise ShapeError("%s: parameters %r" % (name, [(p[0], p[1]) for p in ps]))
            gparams = [gparams[1], gparams[0]] + gparams[2:]
        sigs[key] = (kind, head, [p[1] for p in ps if p[1] != "env"], rty if not result else ("result", rty), eff, fops)
        defs.append(("fn", head, fops, gparams, ("outcome " + paren(coq_type(rty))) if eff else coq_type(rty), body))

    # ---- impl From<..> for EvaluationResult --------------------------------------------------------------------
    for ty in ("i64", "f64", "bool"):
        body = one_block(src, r"^impl From<%s> for EvaluationResult \{" % ty, "impl From<%s> for EvaluationResult" % ty)
        fs = functions(body)
        if list(fs) != ["from"]:
            raise ShapeError("impl From<%s> for EvaluationResult: functions %s" % (ty, list(fs)))
        params, ret, text = fs["from"]
        if not re.fullmatch(r"\w+\s*:\s*%s" % ty, params.strip()) or ret.strip() != "Self":
            raise ShapeError("From<%s>::from: signature" % ty)
        add("from_" + ty, "from", "src_res_from_" + ty, "from", "EvaluationResult", params, ret, text)
    # ---- impl EvaluationResult ----------------------------------------------------------------------------------
    fs = functions(one_block(src, r"^impl EvaluationResult \{", "impl EvaluationResult"))
    for name in ("as_integer", "as_float", "as_bool", "is_integer"):
        if name not in fs:
            raise ShapeError("EvaluationResult::%s not found" % name)
        params, ret, text = fs[name]
        if params.strip() not in ("self", "&self"):
            raise ShapeError("EvaluationResult::%s: parameters %r" % (name, params))
        add("res." + name, "method", "src_" + name, name, "EvaluationResult", params, ret, text)
    # ---- free helper -------------------------------------------------------------------------------------------
    top = functions(re.sub(r"(?ms)^impl[^\n]*\{.*?^\}", "", src))
    if "wrapping_pow" not in top:
        raise ShapeError("fn wrapping_pow not found")
    params, ret, text = top["wrapping_pow"]
    add("wrapping_pow", "free", "src_wrapping_pow", "wrapping_pow", None, params, ret, text)
    # ---- impl Expr ---------------------------------------------------------------------------------------------
    fs = functions(one_block(src, r"^impl Expr \{", "impl Expr"))
    for name in ("eval", "eval_binop", "eval_unop"):
        if name not in fs:
            raise ShapeError("Expr::%s not found" % name)
    for name in ("eval_binop", "eval_unop"):
        params, ret, text = fs[name]
        add("expr." + name, "method", "src_" + name, name, "Expr", params, ret, text)
    params, ret, text = fs["eval"]
    g, ps, rty, result, gparams, body, eff = compile_fn("expr.eval", "method", "src_eval", "eval", "Expr", params, ret, text,
                                                        in_eval=True)
    if [(p[0], p[1]) for p in ps] != [("self", "expr"), ("var_env", "env")] or not result or rty != "res" or g.aux:
        raise ShapeError("Expr::eval: signature")
    if not body.startswith("match e with"):
        raise ShapeError("Expr::eval is not one match on self")
    defs.append(("eval", body))
    # Formula::eval only forwards
    fb = functions(one_block(src, r"^impl Formula \{", "impl Formula"))
    if "eval" not in fb or re.sub(r"\s+", "", fb["eval"][2]) != "self.expr.eval(var_env)":
        raise ShapeError("Formula::eval is not `self.expr.eval(var_env)`")
    return {"defs": defs, "path": path, "binops": [v for v, _ in enum_decl(src, "BinOpKind")],
            "unops": [v for v, _ in enum_decl(src, "UnOpKind")]}


def zbytes(s):
    return "[" + "; ".join(str(b) for b in s.encode()) + "]"


def render(t):
    o = ["(* GENERATED by tools/translate_formulaops.py from genapi/src/formula.rs (the evaluator) - do not edit.",
         "   EvaluationResult = model/Formula.v's res, Expr = expr, BinOpKind / UnOpKind = binop / unop (B<Variant> / U<Variant>).",
         "   An `&Expr` parameter is the outcome of evaluating it (ev_self, ev_rhs); v_<x> is the Rust local x.",
         "   Primitives: model/FormulaOps.v (i64_* / f64_*: float arithmetic = the oracle record fops) and lib/RustInt.v. *)",
         "From Cam Require Import Outcome RustInt Formula FormulaOps.", "",
         "(* declaration order of the operator enums in the source *)",
         "Definition src_binop_decl : list binop := [%s]." % "; ".join("B" + b for b in BINOPS),
         "Definition src_unop_decl : list unop := [%s]." % "; ".join("U" + u for u in UNOPS),
         "(* the variant names as written in the source (bytes), same order *)",
         "Definition src_binop_names : list (list Z) := [%s]." % "; ".join(zbytes(v) for v in t["binops"]),
         "Definition src_unop_names : list (list Z) := [%s]." % "; ".join(zbytes(v) for v in t["unops"]), ""]
    for d in t["defs"]:
        if d[0] == "raw":
            o.append(wrap(d[1]))
            o.append("")
        elif d[0] == "fn":
            _, head, fops, gparams, rty, body = d
            ps = (["(fops : float_ops)"] if fops else []) + ["(%s : %s)" % p for p in gparams]
            o.append(wrap("Definition %s %s : %s :=" % (head, " ".join(ps), rty)))
            o.append(wrap("  " + body + "."))
            o.append("")
        else:
            o.append("Fixpoint src_eval (fops : float_ops) (fuel : nat) (env : list (ident * expr)) : expr -> outcome res :=")
            o.append("  fix ev (e : expr) : outcome res :=")
            o.append(wrap("  " + d[1] + "."))
            o.append("")
    return "\n".join(o)


def regenerate(repo=None, out=None):
    repo = repo or os.environ.get("VERIF_REPO", "/repo")
    out = out or OUT
    t = translate(repo)
    text = render(t)
    old = open(out).read() if os.path.exists(out) else None
    if old != text:
        with open(out, "w") as f:
            f.write(text)
    return t


if __name__ == "__main__":
    try:
        regenerate(sys.argv[1] if len(sys.argv) > 1 else None, sys.argv[2] if len(sys.argv) > 2 else None)
    except ShapeError as e:
        print("ShapeError:", e)
        sys.exit(1)
    print(open(sys.argv[2] if len(sys.argv) > 2 else OUT).read())
