"""Independent reference interpreter for C03: evaluates an operation history on a node graph (the Python
object of tools/gen_graph.py) directly from the property text / the GenApi description of each element.

It is deliberately NOT a transliteration of model/Graph.v: plain recursive Python with exceptions, Python
floats, no fuel, no request/answer plumbing, no read log.  Where the property text does not prescribe an
outcome it says so instead of guessing:
  * RefErr(None)  - "an error is required, the class is not prescribed"
  * Unspec        - the outcome (and everything after it) is not prescribed: arithmetic overflow of an
                    address, negative lengths, formula operators applied outside their domain, scripted
                    device rejections, readability through access restrictions (C18), min/max of kinds for
                    which the property names no source, on == off booleans, non-ASCII register strings.
Formulas are evaluated by the reference evaluator of tools/c05.py (property C05's predicate).
"""
import math

import c05
import reghist
from gen_graph import FLT_KINDS, INT_KINDS, REG_KINDS, STR_KINDS, b2f, f2b

I64_MIN, I64_MAX = -(1 << 63), (1 << 63) - 1
E_DEVICE, E_NOT_WRITABLE, E_INVALID_NODE, E_INVALID_DATA, E_INVALID_BUFFER = 30, 31, 32, 33, 35
NO_IFACE, NO_NODE = 90, 91
STATS = {"ops": 0, "checked_ops": 0, "unspec_stops": 0, "complete": 0, "histories": 0}


class RefErr(Exception):
    def __init__(self, code=None):
        Exception.__init__(self, code)
        self.code = code


class Unspec(Exception):
    pass


class Stop(Exception):
    """the rest of the history is not prescribed (scripted device rejection met)"""


READ_ONLY = ("v", "mn", "mx", "inc", "fv", "fmn", "fmx", "finc", "bv", "cv", "ce", "dn", "sv", "sml", "rr", "ra", "rl", "ir")


def fbits(x):
    return 0x7FF8000000000000 if x != x else f2b(x)


def f2i(x):
    if x != x:
        return 0
    if x >= 9.3e18:
        return I64_MAX
    if x <= -9.3e18:
        return I64_MIN
    return max(I64_MIN, min(I64_MAX, int(x)))


class Ref:
    def __init__(self, g):
        self.g = g
        self.nodes = g["nodes"]
        self.vals = []
        for v in g["vals0"]:
            self.vals.append(b2f(v[1]) if v[0] == "f" else v[1])
        self.base = g["base"]
        self.mem = bytearray(g["image"])
        self.writes = []
        self.rej_pending = False

    # ------------------------------------------------------------ helpers --
    def node(self, j):
        return self.nodes[j] if 0 <= j < len(self.nodes) else None

    def kind(self, j):
        n = self.node(j)
        return n["kind"] if n else None

    def dev_range(self, a, n):
        if self.rej_pending:
            raise Stop()
        off = a - self.base
        if off < 0 or off + n > len(self.mem):
            raise RefErr(E_DEVICE)
        return off

    def dev_read(self, a, n):
        off = self.dev_range(a, n)
        return bytes(self.mem[off:off + n])

    def dev_write(self, a, bs):
        if self.rej_pending:
            raise Stop()
        self.writes.append((a, bytes(bs)))
        off = self.dev_range(a, len(bs))
        self.mem[off:off + len(bs)] = bs

    # any numeric node read as an integer / float (pValue, pMin, pIndex base, ... may point at any of them)
    def as_int(self, j):
        k = self.kind(j)
        if k in INT_KINDS:
            return self.int_value(j)
        if k in FLT_KINDS:
            return f2i(self.flt_value(j))
        if k == "enumeration":
            return self.src_int(self.nodes[j]["v"])
        raise RefErr()

    def as_flt(self, j):
        k = self.kind(j)
        if k in INT_KINDS:
            return float(self.int_value(j))
        if k in FLT_KINDS:
            return self.flt_value(j)
        if k == "enumeration":
            return float(self.src_int(self.nodes[j]["v"]))
        raise RefErr()

    def put_int(self, j, v):
        k = self.kind(j)
        if k in INT_KINDS:
            return self.int_set(j, v)
        if k in FLT_KINDS:
            return self.flt_set(j, float(v))
        if k == "enumeration":
            return self.enum_set(j, v)
        raise RefErr(E_NOT_WRITABLE)

    def put_flt(self, j, x):
        k = self.kind(j)
        if k in INT_KINDS:
            return self.int_set(j, f2i(x))
        if k in FLT_KINDS:
            return self.flt_set(j, x)
        if k == "enumeration":
            return self.enum_set(j, f2i(x))
        raise RefErr(E_NOT_WRITABLE)

    def slot_int(self, vid):
        v = self.vals[vid]
        return f2i(v) if isinstance(v, float) else v

    def slot_flt(self, vid):
        return float(self.vals[vid])

    def src_int(self, s):
        return self.slot_int(s[1]) if s[0] == "imm" else self.as_int(s[1])

    def src_flt(self, s):
        return self.slot_flt(s[1]) if s[0] == "imm" else self.as_flt(s[1])

    def src_put_int(self, s, v):
        if s[0] == "imm":
            self.vals[s[1]] = v
        else:
            self.put_int(s[1], v)

    def src_put_flt(self, s, x):
        if s[0] == "imm":
            self.vals[s[1]] = x
        else:
            self.put_flt(s[1], x)

    def isrc_int(self, s):
        return s[1] if s[0] == "imm" else self.as_int(s[1])

    # ------------------------------------------------------------ value kinds --
    def select(self, vk):
        idx = vk[1]
        if self.kind(idx) not in INT_KINDS:
            raise RefErr()
        i = self.int_value(idx)
        for k, s in vk[2]:
            if k == i:
                return s
        return vk[3]

    def vk_get(self, vk, flt):
        if vk[0] == "value":
            return self.slot_flt(vk[1]) if flt else self.slot_int(vk[1])
        if vk[0] == "pvalue":
            return self.as_flt(vk[1]) if flt else self.as_int(vk[1])
        s = self.select(vk)
        return self.src_flt(s) if flt else self.src_int(s)

    def vk_put(self, vk, v, flt):
        if vk[0] == "value":
            self.vals[vk[1]] = v
        elif vk[0] == "pvalue":
            for t in [vk[1]] + list(vk[2]) + list(vk[3]):
                if flt:
                    self.put_flt(t, v)
                else:
                    self.put_int(t, v)
        else:
            s = self.select(vk)
            if flt:
                self.src_put_flt(s, v)
            else:
                self.src_put_int(s, v)

    # ------------------------------------------------------------ registers --
    def reg_len(self, r):
        n = self.isrc_int(r["length"])
        if n < 0 or n > (1 << 20):
            raise Unspec()
        return n

    def reg_addr(self, r):
        total = 0
        for a in r["addrs"]:
            if a[0] == "addr":
                v = self.isrc_int(a[1])
            elif a[0] == "knife":
                v = self.as_int(a[1])
            else:
                v = self.as_int(a[2])
                if a[1] is not None:
                    v = v * self.isrc_int(a[1])
            total += v
            if not (I64_MIN <= v <= I64_MAX and I64_MIN <= total <= I64_MAX):
                raise Unspec()
        return total

    def reg_params(self, r):
        """address and length; when both fail the order is an implementation matter"""
        try:
            n = self.reg_len(r)
        except RefErr:
            try:
                self.reg_addr(r)
            except (RefErr, Unspec):
                pass
            raise RefErr()
        try:
            a = self.reg_addr(r)
        except RefErr:
            raise RefErr()
        return a, n

    def port_ok(self, r):
        if self.kind(r["port"]) != "port":
            raise RefErr()

    def reg_bytes(self, r):
        a, n = self.reg_params(r)
        self.port_ok(r)
        return self.dev_read(a, n)

    def reg_put(self, r, bs):
        a, n = self.reg_params(r)
        if n != len(bs):
            raise RefErr(E_INVALID_BUFFER)
        self.port_ok(r)
        self.dev_write(a, bs)

    # ------------------------------------------------------------ formulas --
    def var_expr(self, nm, j):
        parts = nm.split(".", 2)
        k = self.kind(j)
        acc = parts[1:]
        if acc in ([], ["Value"]):
            if k in INT_KINDS:
                return ("int", self.int_value(j))
            if k in FLT_KINDS:
                return ("flt", fbits(self.flt_value(j)))
            if k == "boolean":
                return ("int", 1 if self.bool_value(j) else 0)
            if k == "enumeration":
                e = self.enum_entry(j)
                return ("flt", e[2]) if e[2] is not None else ("flt", f2b(float(e[1])))
            raise RefErr()
        if acc in (["Min"], ["Max"], ["Inc"]):
            which = acc[0]
            if k in INT_KINDS:
                v = {"Min": self.int_min, "Max": self.int_max, "Inc": self.int_inc}[which](j)
                if v is None:
                    raise RefErr()
                return ("int", v)
            if k in FLT_KINDS:
                v = {"Min": self.flt_min, "Max": self.flt_max, "Inc": self.flt_inc}[which](j)
                if v is None:
                    raise RefErr()
                return ("flt", fbits(v))
            raise RefErr()
        if len(acc) == 2 and acc[0] == "Enum":
            if k != "enumeration":
                raise RefErr()
            for sym, val, _ in self.nodes[j]["ents"]:
                if sym == acc[1]:
                    return ("int", val)
            raise RefErr()
        raise RefErr()

    def formula(self, n, tree, first):
        kn = n["knife"]
        env = dict(first)
        for nm, j in kn["vars"]:
            env[nm] = self.var_expr(nm, j)
        isf = n["kind"] in ("swissknife", "converter")
        for nm, v in kn["consts"]:
            env[nm] = ("flt", v) if isf else ("int", v)
        for nm, t in kn["exprs"]:
            env[nm] = ("expr", t)
        cx = c05.Ctx(env)
        try:
            v = c05.ref_eval(cx, tree)
        except c05.EvalError:
            raise RefErr()
        if cx.unspec:
            raise Unspec()
        return v

    def store_result(self, p, v):
        k = self.kind(p)
        if k in INT_KINDS:
            self.int_set(p, v if isinstance(v, int) else f2i(v))
        elif k in FLT_KINDS:
            self.flt_set(p, float(v))
        elif k == "boolean":
            self.bool_set(p, v != 0)
        elif k == "enumeration":
            self.enum_set(p, v if isinstance(v, int) else f2i(v))
        else:
            raise RefErr()

    def to_expr(self, j):
        return self.var_expr("TO", j)

    # ------------------------------------------------------------ IInteger --
    def int_value(self, j):
        n = self.nodes[j]
        k = n["kind"]
        if k == "integer":
            return self.vk_get(n["vk"], False)
        if k == "intreg":
            bs = self.reg_bytes(n["reg"])
            if len(bs) not in (1, 2, 4, 8):
                raise RefErr(E_INVALID_BUFFER)
            u = int.from_bytes(bs, "big" if n["endian"] else "little")
            if (n["sign"] or len(bs) == 8) and u >> (8 * len(bs) - 1):
                u -= 1 << (8 * len(bs))
            return u
        if k == "maskedintreg":
            bs = self.reg_bytes(n["reg"])
            if len(bs) not in (1, 2, 4, 8):
                raise RefErr(E_INVALID_BUFFER)
            lo, hi, w = self.field(n, len(bs))
            p = int.from_bytes(bs, "big" if n["endian"] else "little")
            raw = (p >> lo) & ((1 << w) - 1)
            if n["sign"] and raw >> (w - 1):
                raw -= 1 << w
            if not n["sign"] and w == 64:
                raise Unspec()
            return raw
        if k == "intswissknife":
            v = self.formula(n, n["f"], {})
            return v if isinstance(v, int) else f2i(v)
        if k == "intconverter":
            v = self.formula(n, n["ffrom"], {"TO": self.to_expr(n["p"])})
            return v if isinstance(v, int) else f2i(v)
        raise RefErr(NO_IFACE)

    def field(self, n, L):
        nb = 8 * L
        lo, hi = (nb - 1 - n["lsb"], nb - 1 - n["msb"]) if n["endian"] else (n["lsb"], n["msb"])
        if not 0 <= lo <= hi < nb:
            raise Unspec()
        return lo, hi, hi - lo + 1

    def int_set(self, j, v):
        n = self.nodes[j]
        k = n["kind"]
        if k == "integer":
            return self.vk_put(n["vk"], v, False)
        if k == "intreg":
            L = self.reg_len(n["reg"])
            if L not in (1, 2, 4, 8):
                raise RefErr(E_INVALID_BUFFER)
            img = (v % (1 << (8 * L))).to_bytes(L, "big" if n["endian"] else "little")
            return self.reg_put(n["reg"], img)
        if k == "maskedintreg":
            bs = self.reg_bytes(n["reg"])
            L = len(bs)
            if L not in (1, 2, 4, 8):
                raise RefErr(E_INVALID_BUFFER)
            lo, hi, w = self.field(n, L)
            mn, mx = (-(1 << (w - 1)), (1 << (w - 1)) - 1) if n["sign"] else (0, min((1 << w) - 1, I64_MAX))
            if not mn <= v <= mx:
                raise RefErr(E_INVALID_DATA)
            p = int.from_bytes(bs, "big" if n["endian"] else "little")
            mask = ((1 << w) - 1) << lo
            p = (p & ~mask) | ((v % (1 << w)) << lo)
            return self.reg_put(n["reg"], p.to_bytes(L, "big" if n["endian"] else "little"))
        if k == "intswissknife":
            raise RefErr(E_NOT_WRITABLE)
        if k == "intconverter":
            r = self.formula(n, n["fto"], {"FROM": ("int", v)})
            return self.store_result(n["p"], r)
        raise RefErr(NO_IFACE)

    def int_min(self, j):
        n = self.nodes[j]
        k = n["kind"]
        if k == "integer":
            return self.src_int(n["mn_m"]) if n["mn"] is not None else I64_MIN
        if k == "maskedintreg":
            L = self.reg_len(n["reg"])
            lo, hi, w = self.field(n, L)
            return -(1 << (w - 1)) if n["sign"] else 0
        if k in INT_KINDS:
            raise Unspec()
        raise RefErr(NO_IFACE)

    def int_max(self, j):
        n = self.nodes[j]
        k = n["kind"]
        if k == "integer":
            return self.src_int(n["mx_m"]) if n["mx"] is not None else I64_MAX
        if k == "maskedintreg":
            L = self.reg_len(n["reg"])
            lo, hi, w = self.field(n, L)
            return (1 << (w - 1)) - 1 if n["sign"] else min((1 << w) - 1, I64_MAX)
        if k in INT_KINDS:
            raise Unspec()
        raise RefErr(NO_IFACE)

    def int_inc(self, j):
        n = self.nodes[j]
        if n["kind"] == "integer":
            return self.isrc_int(n["inc"]) if n["inc"] is not None else 1
        if n["kind"] in INT_KINDS:
            return None
        raise RefErr(NO_IFACE)

    # ------------------------------------------------------------ IFloat --
    def flt_value(self, j):
        n = self.nodes[j]
        k = n["kind"]
        if k == "float":
            return self.vk_get(n["vk"], True)
        if k == "floatreg":
            bs = self.reg_bytes(n["reg"])
            if len(bs) not in (4, 8):
                raise RefErr(E_INVALID_BUFFER)
            u = int.from_bytes(bs, "big" if n["endian"] else "little")
            if len(bs) == 4:
                w = reghist.widen_bits(u)
                return math.nan if w is None else b2f(w)
            return b2f(u)
        if k == "swissknife":
            return float(self.formula(n, n["f"], {}))
        if k == "converter":
            return float(self.formula(n, n["ffrom"], {"TO": self.to_expr(n["p"])}))
        raise RefErr(NO_IFACE)

    def flt_set(self, j, x):
        n = self.nodes[j]
        k = n["kind"]
        if k == "float":
            return self.vk_put(n["vk"], x, True)
        if k == "floatreg":
            L = self.reg_len(n["reg"])
            if L not in (4, 8):
                raise RefErr(E_INVALID_BUFFER)
            if x != x:
                raise Unspec()                       # NaN payloads
            if L == 8:
                u = f2b(x)
            else:
                u = reghist.narrow_bits(f2b(x))
            return self.reg_put(n["reg"], u.to_bytes(L, "big" if n["endian"] else "little"))
        if k == "swissknife":
            raise RefErr(E_NOT_WRITABLE)
        if k == "converter":
            r = self.formula(n, n["fto"], {"FROM": ("flt", fbits(x))})
            return self.store_result(n["p"], r)
        raise RefErr(NO_IFACE)

    def flt_min(self, j):
        n = self.nodes[j]
        if n["kind"] == "float":
            return self.src_flt(n["mn_m"]) if n["mn"] is not None else -1.7976931348623157e308
        if n["kind"] in FLT_KINDS:
            raise Unspec()
        raise RefErr(NO_IFACE)

    def flt_max(self, j):
        n = self.nodes[j]
        if n["kind"] == "float":
            return self.src_flt(n["mx_m"]) if n["mx"] is not None else 1.7976931348623157e308
        if n["kind"] in FLT_KINDS:
            raise Unspec()
        raise RefErr(NO_IFACE)

    def flt_inc(self, j):
        n = self.nodes[j]
        if n["kind"] == "float":
            if n["inc"] is None:
                return None
            return b2f(n["inc"][1]) if n["inc"][0] == "imm" else self.as_flt(n["inc"][1])
        if n["kind"] in FLT_KINDS:
            return None
        raise RefErr(NO_IFACE)

    # ------------------------------------------------------------ Boolean / Enumeration / Command --
    def bool_value(self, j):
        n = self.nodes[j]
        if n["kind"] != "boolean":
            raise RefErr(NO_IFACE)
        raw = self.src_int(n["v"])
        if n["on"] == n["off"]:
            raise Unspec()
        if raw == n["on"]:
            return True
        if raw == n["off"]:
            return False
        raise RefErr(E_INVALID_NODE)

    def bool_set(self, j, b):
        n = self.nodes[j]
        if n["kind"] != "boolean":
            raise RefErr(NO_IFACE)
        self.src_put_int(n["v"], n["on"] if b else n["off"])

    def enum_entry(self, j):
        n = self.nodes[j]
        raw = self.src_int(n["v"])
        for e in n["ents"]:
            if e[1] == raw:
                return e
        raise RefErr(E_INVALID_NODE)

    def enum_set(self, j, v):
        n = self.nodes[j]
        if all(e[1] != v for e in n["ents"]):
            raise RefErr(E_INVALID_DATA)
        self.src_put_int(n["v"], v)

    def restricted(self, j, seen=None):
        """does any access restriction (ImposedAccessMode / AccessMode other than RW) occur below node j?"""
        seen = seen if seen is not None else set()
        if j in seen or self.node(j) is None:
            return True
        seen.add(j)
        n = self.nodes[j]
        if n.get("imposed", "RW") != "RW":
            return True
        if "reg" in n and n["reg"]["acc"] != "RW":
            return True
        return any(self.restricted(t, seen) for t in refs_of(n))

    def cmd_done(self, j):
        n = self.nodes[j]
        if n["v"][0] == "imm":
            return True
        t = n["v"][1]
        if self.kind(t) not in INT_KINDS + FLT_KINDS + ("enumeration",):
            return True
        # a pValue node that cannot be read cannot be polled: the command counts as done (GenApi: IsDone is
        # true when the command node is not readable).  Only the node's OWN modes are decided here; anything
        # restricted further down is left to C18.
        tn = self.nodes[t]
        own_unreadable = tn.get("imposed", "RW") == "WO" or ("reg" in tn and tn["reg"]["acc"] == "WO")
        if own_unreadable:
            return True
        if self.restricted(t):
            raise Unspec()
        return self.src_int(n["cv"]) != self.as_int(t)

    # ------------------------------------------------------------ IString --
    def str_target(self, j):
        n = self.nodes[j]
        if n["kind"] == "string" and n["v"][0] == "node":
            if self.kind(n["v"][1]) not in STR_KINDS:
                raise RefErr()
            return self.str_target(n["v"][1])
        return j

    def str_value(self, j):
        n = self.nodes[self.str_target(j)]
        if n["kind"] == "string":
            s = self.vals[n["v"][1]]
        else:
            bs = self.reg_bytes(n["reg"])
            s = bs.split(b"\0")[0]
        if any(c >= 128 for c in s):
            raise Unspec()
        return s

    def str_set(self, j, s):
        n = self.nodes[self.str_target(j)]
        if n["kind"] == "string":
            self.vals[n["v"][1]] = bytes(s)
            return
        L = self.reg_len(n["reg"])
        if any(c >= 128 or c == 0 for c in s) or len(s) > L:
            raise RefErr(E_INVALID_DATA)
        self.reg_put(n["reg"], bytes(s) + bytes(L - len(s)))

    def str_maxlen(self, j):
        n = self.nodes[self.str_target(j)]
        if n["kind"] == "string":
            return I64_MAX
        return self.reg_len(n["reg"])

    # ------------------------------------------------------------ one operation --
    def op(self, o):
        k = o[0]
        if k == "rej":
            self.rej_pending = True
            return [0]
        j = o[1]
        n = self.node(j)
        if n is None:
            return [1, NO_NODE]
        kind = n["kind"]

        def need(kinds):
            if kind not in kinds:
                raise RefErr(NO_IFACE)

        if k in ("v", "s", "mn", "mx", "inc"):
            need(INT_KINDS)
            if k == "v":
                return [0, self.int_value(j)]
            if k == "s":
                self.int_set(j, o[2])
                return [0]
            if k == "inc":
                v = self.int_inc(j)
                return [0, 0] if v is None else [0, 1, v]
            return [0, self.int_min(j) if k == "mn" else self.int_max(j)]
        if k in ("fv", "fs", "fmn", "fmx", "finc"):
            need(FLT_KINDS)
            if k == "fv":
                return [0, fbits(self.flt_value(j))]
            if k == "fs":
                self.flt_set(j, b2f(o[2]))
                return [0]
            if k == "finc":
                v = self.flt_inc(j)
                return [0, 0] if v is None else [0, 1, fbits(v)]
            return [0, fbits(self.flt_min(j) if k == "fmn" else self.flt_max(j))]
        if k in ("bv", "bs"):
            need(("boolean",))
            if k == "bv":
                return [0, 1 if self.bool_value(j) else 0]
            self.bool_set(j, o[2])
            return [0]
        if k in ("cv", "ce", "sev"):
            need(("enumeration",))
            if k == "cv":
                return [0, self.src_int(n["v"])]
            if k == "ce":
                e = self.enum_entry(j)
                return [0, e[1], len(e[0])] + list(e[0].encode())
            self.enum_set(j, o[2])
            return [0]
        if k in ("ex", "dn"):
            need(("command",))
            if k == "ex":
                self.src_put_int(n["v"], self.src_int(n["cv"]))
                return [0]
            return [0, 1 if self.cmd_done(j) else 0]
        if k in ("sv", "ss", "sml"):
            need(STR_KINDS)
            if k == "sv":
                s = self.str_value(j)
                return [0, len(s)] + list(s)
            if k == "ss":
                if any(c >= 128 for c in o[2]) and self.nodes[self.str_target(j)]["kind"] == "string":
                    raise Unspec()
                self.str_set(j, o[2])
                return [0]
            return [0, self.str_maxlen(j)]
        if k in ("rr", "rw", "ra", "rl"):
            need(REG_KINDS)
            r = n["reg"]
            if k == "ra":
                return [0, self.reg_addr(r)]
            if k == "rl":
                return [0, self.isrc_int(r["length"])]
            if k == "rr":
                a, ln = self.reg_params(r)
                if ln != o[2]:
                    raise RefErr(E_INVALID_BUFFER)
                self.port_ok(r)
                return [0] + list(self.dev_read(a, ln))
            self.reg_put(r, bytes(o[2]))
            return [0]
        if k == "ir":
            raise Unspec()
        raise ValueError(k)


def refs_of(n):
    """all nodes a node refers to"""
    out = []

    def src(s):
        if s is not None and s[0] == "node":
            out.append(s[1])

    k = n["kind"]
    if k in ("integer", "float"):
        vk = n["vk"]
        if vk[0] == "pvalue":
            out.extend([vk[1]] + list(vk[2]) + list(vk[3]))
        elif vk[0] == "pindex":
            out.append(vk[1])
            for _, s in vk[2]:
                src(s)
            src(vk[3])
        src(n["mn"])
        src(n["mx"])
        src(n["inc"])
    if "reg" in n:
        r = n["reg"]
        for a in r["addrs"]:
            if a[0] == "addr":
                src(a[1])
            elif a[0] == "knife":
                out.append(a[1])
            else:
                src(a[1])
                out.append(a[2])
        src(r["length"])
    if k in ("boolean", "enumeration", "string", "command"):
        src(n["v"])
    if k == "command":
        src(n["cv"])
    if "knife" in n:
        out.extend(j for _, j in n["knife"]["vars"])
    if k in ("intconverter", "converter"):
        out.append(n["p"])
    return out


def run_reference(g):
    """-> dict(results=[expected result | "err" | None ...], complete, writes, mem)"""
    ref = Ref(g)
    results = []
    complete = True
    STATS["histories"] += 1
    for o in g["ops"]:
        STATS["ops"] += 1
        if not complete:
            results.append(None)
            continue
        try:
            results.append(ref.op(o))
            STATS["checked_ops"] += 1
        except RefErr as e:
            results.append([1, e.code] if e.code is not None else "err")
            STATS["checked_ops"] += 1
        except (Unspec, Stop, RecursionError, OverflowError, ZeroDivisionError) as e:
            results.append(None)
            if o[0] in READ_ONLY and not isinstance(e, Stop):
                STATS["unspec_reads"] = STATS.get("unspec_reads", 0) + 1     # no effect on the state: go on
            else:
                complete = False
                STATS["unspec_stops"] += 1
    if complete:
        STATS["complete"] += 1
    return dict(results=results, complete=complete, writes=ref.writes, mem=bytes(ref.mem))
