"""Rendering of GenApi XML documents for the genapi harness."""

HEADER = ('<RegisterDescription ModelName="M" VendorName="V" StandardNameSpace="None" SchemaMajorVersion="1" '
          'SchemaMinorVersion="1" SchemaSubMinorVersion="0" MajorVersion="1" MinorVersion="2" SubMinorVersion="3" '
          'ToolTip="t" ProductGuid="01234567-0123-0123-0123-0123456789ab" '
          'VersionGuid="76543210-3210-3210-3210-ba9876543210" xmlns="http://www.genicam.org/GenApi/Version_1_0" '
          'xmlns:xsi="http://www.w3.org/2001/XMLSchema-instance" '
          'xsi:schemaLocation="http://www.genicam.org/GenApi/Version_1_0 GenApiSchema.xsd">')


def el(tag, text, **attrs):
    a = "".join(' %s="%s"' % (k, v) for k, v in attrs.items())
    return "<%s%s>%s</%s>" % (tag, a, text, tag)


def document(nodes, port="Device", port_swap=False):
    body = "".join(nodes)
    if port:
        body += '<Port Name="%s">%s</Port>' % (port, "<SwapEndianess>Yes</SwapEndianess>" if port_swap else "")
    return HEADER + body + "</RegisterDescription>"


def reg_common(addr, length, port="Device", cachable=None, access=None, invalidators=()):
    s = el("Address", addr) + el("Length", length)
    if access:
        s += el("AccessMode", access)
    s += el("pPort", port)
    if cachable:
        s += el("Cachable", cachable)
    for i in invalidators:
        s += el("pInvalidator", i)
    return s


def int_reg(name, addr, length, sign=None, endian=None, representation=None, **kw):
    s = reg_common(addr, length, **kw)
    if sign:
        s += el("Sign", sign)
    if endian:
        s += el("Endianess", endian)
    if representation:
        s += el("Representation", representation)
    return '<IntReg Name="%s">%s</IntReg>' % (name, s)


def masked_int_reg(name, addr, length, lsb, msb, sign=None, endian=None, bit=None, **kw):
    s = reg_common(addr, length, **kw)
    if bit is not None:
        s += el("Bit", bit)
    else:
        s += el("LSB", lsb) + el("MSB", msb)
    if sign:
        s += el("Sign", sign)
    if endian:
        s += el("Endianess", endian)
    return '<MaskedIntReg Name="%s">%s</MaskedIntReg>' % (name, s)


def float_reg(name, addr, length, endian=None, **kw):
    s = reg_common(addr, length, **kw)
    if endian:
        s += el("Endianess", endian)
    return '<FloatReg Name="%s">%s</FloatReg>' % (name, s)


def string_reg(name, addr, length, **kw):
    return '<StringReg Name="%s">%s</StringReg>' % (name, reg_common(addr, length, **kw))


def register(name, addr, length, **kw):
    return '<Register Name="%s">%s</Register>' % (name, reg_common(addr, length, **kw))


def struct_reg(addr, length, entries, sign=None, endian=None, **kw):
    """entries: list of (name, lsb, msb, bit, sign)"""
    s = reg_common(addr, length, **kw)
    if sign:
        s += el("Sign", sign)
    if endian:
        s += el("Endianess", endian)
    for name, lsb, msb, bit, esign in entries:
        e = el("Bit", bit) if bit is not None else el("LSB", lsb) + el("MSB", msb)
        if esign:
            e += el("Sign", esign)
        s += '<StructEntry Name="%s">%s</StructEntry>' % (name, e)
    return '<StructReg Comment="c">%s</StructReg>' % s
