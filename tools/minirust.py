#!/usr/bin/env python3
"""tools/minirust.py -- the reusable part of the typed mini-Rust translators: a recursive-descent parser for a subset
of Rust expressions / blocks (`Parser`) and a type-directed emitter of Gallina terms over lib/RustInt.v (`Gen`), with the
DEBUG-build semantics of every integer operation (`+ - *` outside the type panic, shifts panic when the amount is not
below the width of the shifted type, `as` reinterprets the bit pattern, checked_add reports overflow as None).

This is a COPY of the parser / emitter of tools/translate_bitmask.py (which stays self-contained), extended with what the
bit-level decoders of cameleon/src/u3v/register_map.rs need:

    hex / binary literals (0xff, 0b11_1111) and literal suffixes (24_i32); the types u8 u16 u32 i32
    `match x { 0 => .., 0b10 => .., other => .., _ => .. }` on integers
    tuple-struct field `self.0`, a shared reference `&self.0` as an operand of an integer operation
    `u64::from(x)` (lossless widening only), `semver::Version::new(a, b, c)` (a triple of u64)
    `Ok(Enum::Variant)` / bare variants brought in by `use` (numbered by the caller's table)
    `Err(ControlError::X(<opaque message>))`, `return Err(..)` in any position of a fallible function
    `a.checked_add(b)` (an option) and `.ok_or_else(|| <error>)`
    macro_rules! macros with `$x:expr` parameters: the BODY is parsed like any other expression and expanded by
    substituting the argument expressions as whole sub-trees (which is what an `expr` fragment is); compound
    assignment `place |= e` / `place &= e` yields the new value of the place
    `format!(..)` / "..".into() are opaque (only accepted as the message of an error)

Anything else raises ShapeError: a caller reports that as a broken proof obligation, never translates "something else".

Types: 'u8' 'u16' 'u32' 'u64' 'usize' 'i32' 'i64' | 'bool' | an enum name | ('tuple', [..]) | ('option', T) | '!' (the
type of `return ..`, unifies with everything) | 'opaque'.  A term of type T is a Gallina term of type `outcome <T>`."""
import re


class ShapeError(Exception):
    pass


def strip_comments(s):
    s = re.sub(r"/\*.*?\*/", "", s, flags=re.S)
    return re.sub(r"//[^\n]*", "", s)


def norm_ws(s):
    return re.sub(r"\s+", " ", s).strip()


def block_after(src, start):
    """(text between the first `{` at/after start and its matching `}`, index after that `}`)"""
    i = src.index("{", start)
    depth = 0
    for j in range(i, len(src)):
        if src[j] == "{":
            depth += 1
        elif src[j] == "}":
            depth -= 1
            if depth == 0:
                return src[i + 1:j], j + 1
    raise ShapeError("unbalanced braces")


SUFFIX = r"(?:_?(?:[iu](?:8|16|32|64|128|size)))"
TOK = re.compile(r"""\s*(
    "(?:[^"\\]|\\.)*" |
    \$[A-Za-z_][A-Za-z0-9_]* |
    [A-Za-z_][A-Za-z0-9_]*(?:::[A-Za-z_][A-Za-z0-9_]*)*!(?!=) |
    [A-Za-z_][A-Za-z0-9_]*(?:::[A-Za-z_][A-Za-z0-9_]*)* |
    0x[0-9a-fA-F_]+""" + SUFFIX + r"""? |
    0b[01_]+""" + SUFFIX + r"""? |
    0o[0-7_]+""" + SUFFIX + r"""? |
    \d[\d_]*""" + SUFFIX + r"""? |
    => | == | != | <= | >= | <<= | >>= | << | >> | \|\| | && | \.\. | \|= | &= | \^= | \+= | -= | \*= |
    [(){},;:.|&^!\-+*<>=?]
)""", re.X)

LIT = re.compile(r"(0x[0-9a-fA-F_]+?|0b[01_]+?|0o[0-7_]+?|\d[\d_]*?)(?:_?([iu](?:8|16|32|64|128|size)))?$")


def tokenize(s):
    out, pos = [], 0
    s = s.strip()
    while pos < len(s):
        m = TOK.match(s, pos)
        if not m:
            raise ShapeError("cannot tokenize %r" % s[pos:pos + 40])
        tok = m.group(1)
        # a number directly followed by an identifier character or a `.`+digit is a token this grammar does not have
        # (floats, unknown suffixes): refuse instead of splitting it
        end = m.end()
        if tok[0].isdigit() and end < len(s) and (s[end].isalnum() or s[end] == "_"):
            raise ShapeError("numeric token not understood near %r" % s[pos:pos + 40])
        out.append(tok)
        pos = end
        while pos < len(s) and s[pos].isspace():
            pos += 1
    return out


def lit_value(tok):
    """(value, suffix or None) of an integer literal token, or None"""
    m = LIT.match(tok)
    if not m or not tok[0].isdigit():
        return None
    body = m.group(1).replace("_", "")
    if body.startswith("0x"):
        v = int(body[2:], 16)
    elif body.startswith("0b"):
        v = int(body[2:], 2)
    elif body.startswith("0o"):
        v = int(body[2:], 8)
    else:
        v = int(body, 10)
    return v, m.group(2)


INT = {"u8": ("u", 8), "u16": ("u", 16), "u32": ("u", 32), "u64": ("u", 64), "usize": ("u", 64),
       "i32": ("s", 32), "i64": ("s", 64)}
COMPOUND = {"|=": "|", "&=": "&", "^=": "^", "+=": "+", "-=": "-", "*=": "*", "<<=": "<<", ">>=": ">>"}


# ------------------------------------------------------------------------------------------------ parser --
class Parser:
    """enums: {enum name: {path as written in the source: number}} (used for patterns)"""

    def __init__(self, toks, enums=None):
        self.t, self.i = toks, 0
        self.enums = enums or {}

    def peek(self, k=0):
        return self.t[self.i + k] if self.i + k < len(self.t) else None

    def eat(self, x=None):
        tok = self.peek()
        if tok is None or (x is not None and tok != x):
            raise ShapeError("expected %r, found %r near %r" % (x, tok, " ".join(self.t[max(0, self.i - 6):self.i + 6])))
        self.i += 1
        return tok

    def done(self):
        return self.peek() is None

    # block := stmt* [expr]
    def block(self):
        stmts = []
        while self.peek() not in ("}", None):
            if self.peek() == "let":
                self.eat("let")
                if self.peek() == "mut":
                    raise ShapeError("`let mut`")
                if self.peek() == "(":
                    self.eat("(")
                    names = [self.eat()]
                    while self.peek() == ",":
                        self.eat(",")
                        names.append(self.eat())
                    self.eat(")")
                    pat = tuple(names)
                    for n_ in pat:
                        if not re.fullmatch(r"[a-z_][a-z0-9_]*", n_):
                            raise ShapeError("let pattern %r" % (pat,))
                else:
                    pat = self.eat()
                    if not re.fullmatch(r"[a-z_][a-z0-9_]*", pat) or pat in ("self", "_"):
                        raise ShapeError("let pattern %r" % pat)
                ann = None
                if self.peek() == ":":
                    raise ShapeError("type annotation on a let")
                self.eat("=")
                e = self.expr()
                self.eat(";")
                stmts.append(("let", pat, e, ann))
                continue
            e = self.expr()
            if self.peek() == ";":
                self.eat(";")
                if e[0] not in ("return",):
                    raise ShapeError("expression statement %r is not a return" % (e[0],))
                stmts.append(("expr", e))
                continue
            if self.peek() == "}" or self.peek() is None:
                stmts.append(("tail", e))
                break
            # `if c { return ..; }` without a semicolon, followed by more statements
            if e[0] == "if" and e[3] is None:
                stmts.append(("expr", e))
                continue
            raise ShapeError("statement not understood near %r" % self.peek())
        return ("block", stmts)

    # Rust's precedence, loosest first; `as` and the unary operators bind tighter than all of these
    LEVELS = [["||"], ["&&"], ["==", "!=", "<", ">", "<=", ">="], ["|"], ["^"], ["&"], ["<<", ">>"], ["+", "-"], ["*"]]

    def expr(self):
        e = self._binary(0)
        if self.peek() in COMPOUND:
            op = self.eat()
            r = self._binary(0)
            return ("opassign", COMPOUND[op], e, r)
        if self.peek() == "=":
            raise ShapeError("assignment")
        return e

    def _binary(self, lvl):
        if lvl == len(self.LEVELS):
            return self.cast()
        e = self._binary(lvl + 1)
        while self.peek() in self.LEVELS[lvl]:
            # `|` of a match-arm pattern never reaches here: patterns are parsed separately
            op = self.eat()
            r = self._binary(lvl + 1)
            e = ("bin", op, e, r)
            if lvl == 2 and self.peek() in self.LEVELS[2]:
                raise ShapeError("chained comparison")
        return e

    def cast(self):
        e = self.unary()
        while self.peek() == "as":
            self.eat("as")
            ty = self.eat()
            if ty not in INT:
                raise ShapeError("cast to %r" % ty)
            e = ("as", e, ty)
        return e

    def unary(self):
        if self.peek() in ("-", "!", "&"):
            op = self.eat()
            if op == "&" and self.peek() == "mut":
                raise ShapeError("&mut")
            return ("un", op, self.unary())
        if self.peek() == "&&":
            raise ShapeError("&& in operand position")
        if self.peek() == "*":
            raise ShapeError("dereference")
        return self.postfix()

    def postfix(self):
        e = self.atom()
        while self.peek() in (".", "?"):
            if self.peek() == "?":
                self.eat("?")
                e = ("try", e)
                continue
            self.eat(".")
            name = self.eat()
            if not re.fullmatch(r"[A-Za-z_][A-Za-z0-9_]*|\d+", name):
                raise ShapeError("field / method name %r" % name)
            if self.peek() == "(":
                args = self.args()
                e = ("mcall", e, name, args)
            else:
                e = ("field", e, name)
        return e

    def args(self):
        self.eat("(")
        out = []
        while self.peek() != ")":
            out.append(self.expr())
            if self.peek() == ",":
                self.eat(",")
            elif self.peek() != ")":
                raise ShapeError("argument list near %r" % self.peek())
        self.eat(")")
        return out

    def atom(self):
        tok = self.eat()
        if tok == "(":
            e = self.expr()
            if self.peek() == ",":
                items = [e]
                while self.peek() == ",":
                    self.eat(",")
                    if self.peek() == ")":
                        break
                    items.append(self.expr())
                self.eat(")")
                return ("tuple", items)
            self.eat(")")
            return ("paren", e)
        if tok == "{":
            b = self.block()
            self.eat("}")
            return b
        if tok == "||":
            # closure without parameters
            return ("closure0", self.expr())
        if tok == "if":
            if self.peek() == "let":
                raise ShapeError("if let")
            c = self.expr()
            self.eat("{")
            a = self.block()
            self.eat("}")
            b = None
            if self.peek() == "else":
                self.eat("else")
                if self.peek() == "if":
                    b = ("block", [("tail", self.atom())])
                else:
                    self.eat("{")
                    b = self.block()
                    self.eat("}")
            return ("if", c, a, b)
        if tok == "match":
            s = self.expr()
            self.eat("{")
            arms = []
            while self.peek() != "}":
                pats = [self.pattern()]
                while self.peek() == "|":
                    self.eat("|")
                    pats.append(self.pattern())
                guard = None
                if self.peek() == "if":
                    self.eat("if")
                    guard = self.expr()
                self.eat("=>")
                body = self.expr()
                if self.peek() == ",":
                    self.eat(",")
                elif self.peek() != "}" and body[0] != "block":
                    raise ShapeError("match arm not followed by a comma")
                arms.append((pats, guard, body))
            self.eat("}")
            return ("match", s, arms)
        if tok == "return":
            if self.peek() in (";", "}", ",", None):
                raise ShapeError("return without a value")
            return ("return", self.expr())
        if tok in ("Ok", "Err"):
            a = self.args()
            if len(a) != 1:
                raise ShapeError("%s with %d arguments" % (tok, len(a)))
            return (tok.lower(), a[0])
        if tok.startswith('"'):
            return ("str", tok)
        if tok.startswith("$"):
            return ("mvar", tok[1:])
        if tok.endswith("!") and len(tok) > 1:
            return ("macro", tok[:-1], self.args())
        lv = lit_value(tok)
        if lv is not None:
            return ("lit", lv[0], lv[1])
        if re.fullmatch(r"[A-Za-z_][A-Za-z0-9_:]*", tok):
            if tok in ("let", "mut", "fn", "loop", "while", "for", "unsafe", "move", "as", "else", "in", "ref", "break",
                       "continue", "struct", "impl", "use", "mod", "pub"):
                raise ShapeError("keyword %r in expression position" % tok)
            if self.peek() == "(":
                if "::" not in tok and tok != "Self":
                    raise ShapeError("call of the function %r" % tok)
                return ("pcall", tok, self.args())
            return ("id", tok)
        raise ShapeError("unexpected token %r" % tok)

    def pattern(self):
        tok = self.eat()
        if tok == "_":
            return ("wild",)
        lv = lit_value(tok)
        if lv is not None:
            if self.peek() in ("..", "..="):
                raise ShapeError("range pattern")
            return ("plit", lv[0], lv[1])
        for en, vs in self.enums.items():
            if tok in vs:
                return ("enum", en, tok)
        if re.fullmatch(r"[a-z_][a-z0-9_]*", tok) and self.peek() in ("=>", "if", "|"):
            if self.peek() == "|":
                raise ShapeError("binding in an or-pattern")
            return ("bind", tok)
        raise ShapeError("pattern %r" % tok)


def subst(ast, m):
    """replace every ("mvar", x) by m[x] (whole sub-tree: an `expr` fragment keeps its grouping)"""
    if isinstance(ast, tuple):
        if len(ast) == 2 and ast[0] == "mvar":
            if ast[1] not in m:
                raise ShapeError("macro variable $%s is not a parameter" % ast[1])
            return ("paren", m[ast[1]])
        return tuple(subst(x, m) for x in ast)
    if isinstance(ast, list):
        return [subst(x, m) for x in ast]
    return ast


def has_mvar(ast):
    if isinstance(ast, tuple):
        if len(ast) == 2 and ast[0] == "mvar":
            return True
        return any(has_mvar(x) for x in ast)
    if isinstance(ast, list):
        return any(has_mvar(x) for x in ast)
    return False


def parse_macro_rules(src, name):
    """macro_rules! NAME { ($a:expr, $b:expr, ..) => { BODY }; }  ->  ([a, b, ..], BODY ast).  One rule only, `expr`
    fragments only; the body is a single expression (possibly a compound assignment)."""
    ms = [m for m in re.finditer(r"macro_rules!\s*%s\s*\{" % re.escape(name), src)]
    if len(ms) != 1:
        raise ShapeError("%d definitions of the macro %s!" % (len(ms), name))
    text, _ = block_after(src, ms[0].end() - 1)
    m = re.fullmatch(r"\s*\(\s*((?:\$\w+\s*:\s*expr\s*,?\s*)+)\)\s*=>\s*\{(.*)\}\s*;?\s*", text, flags=re.S)
    if not m:
        raise ShapeError("macro %s! is not a single rule over `expr` fragments" % name)
    params = re.findall(r"\$(\w+)\s*:\s*expr", m.group(1))
    if len(set(params)) != len(params):
        raise ShapeError("macro %s!: repeated parameter" % name)
    p = Parser(tokenize(m.group(2)))
    body = p.expr()
    if p.peek() == ";":
        p.eat(";")
    if not p.done():
        raise ShapeError("macro %s!: the body is not one expression" % name)
    return params, body


# ------------------------------------------------------------------------------------- typing + emission --
def paren(s):
    return "(" + s + ")"


NEVER = "!"


def unify(a, b):
    """the common type of two branch types ('!' = diverges), or None"""
    if a == NEVER:
        return b
    if b == NEVER:
        return a
    return a if a == b else None


class Gen:
    """compiles an expression to (coq term of type `outcome T`, T); `want` is the type demanded by the context (None:
    unknown).

      ret / result   declared value type of the function, and whether it returns a Result
      enums          {enum: {path: number}}: how variants are written in this source (paths, or bare after a `use`)
      errs           {constructor path: Gallina term of the error class}
      consts         {path: (Gallina term, type)}
      macros         {name: (params, body ast)} from parse_macro_rules
      calls          {path: (param types, ret type, Gallina head, result?)} free functions of the translation unit
      var(name)      Gallina binder for the Rust local `name` (default: v_<name>)"""

    def __init__(self, ret, result, enums=None, errs=None, consts=None, macros=None, calls=None):
        self.ret, self.result = ret, result
        self.enums, self.errs, self.consts = enums or {}, errs or {}, consts or {}
        self.macros, self.calls = macros or {}, calls or {}
        self.n = 0

    def fresh(self, base="t"):
        self.n += 1
        return "%s%d_" % (base, self.n)

    @staticmethod
    def var(name):
        return "v_" + name

    def is_untyped_lit(self, e):
        k = e[0]
        if k == "lit":
            return e[2] is None
        if k == "paren":
            return self.is_untyped_lit(e[1])
        if k == "un" and e[1] in ("-", "!"):
            return self.is_untyped_lit(e[2])
        if k == "bin" and e[1] in ("<<", ">>"):
            return self.is_untyped_lit(e[2])
        if k == "bin" and e[1] in ("+", "-", "*", "&", "|", "^"):
            return self.is_untyped_lit(e[2]) and self.is_untyped_lit(e[3])
        return False

    def int_ops(self, ty):
        if not isinstance(ty, str) or ty not in INT:
            raise ShapeError("integer operation at type %r" % (ty,))
        return INT[ty]

    def binop(self, op, a, b, ty):
        sg, w = self.int_ops(ty)
        if op == "-":
            return "%s %d %s %s" % ("i_sub" if sg == "s" else "r_sub", w, a, b)
        if op == "+":
            return "%s %d %s %s" % ("i_add" if sg == "s" else "r_add", w, a, b)
        if op == "*":
            return "%s %d %s %s" % ("i_mul" if sg == "s" else "r_mul", w, a, b)
        if op == "<<":
            return "%s %d %s %s" % ("i_shl" if sg == "s" else "r_shl", w, a, b)
        if op == ">>":
            return "%s %d %s %s" % ("i_shr" if sg == "s" else "r_shr", w, a, b)
        f = {"&": "and", "|": "or", "^": "xor"}[op]
        if sg == "s":
            return "Ok (i_%s %d %s %s)" % (f, w, a, b)
        return "Ok (Z.l%s %s %s)" % (f, a, b)

    def lit(self, v, ty):
        if ty is None:
            raise ShapeError("the type of the literal %d cannot be determined" % v)
        if not isinstance(ty, str) or ty not in INT:
            raise ShapeError("literal %d at type %r" % (v, ty))
        sg, w = INT[ty]
        if not (0 <= v < 2 ** (w - (1 if sg == "s" else 0))):
            raise ShapeError("literal %d does not fit %s" % (v, ty))
        return ("Ok %d" % v, ty)

    def arith(self, op, l, r, env, want):
        """binary operator on two operands of one integer type (shifts: the amount has its own type)"""
        if op in ("<<", ">>"):
            a = self.expr(l, env, want)
            b = self.expr(r, env, None if not self.is_untyped_lit(r) else "i32")   # rustc's default; any width works the same
            self.int_ops(a[1])
            self.int_ops(b[1])
            x, y = self.fresh(), self.fresh()
            return ("let? %s := %s in let? %s := %s in %s" % (x, a[0], y, b[0], self.binop(op, x, y, a[1])), a[1])
        if self.is_untyped_lit(l) and not self.is_untyped_lit(r):
            b = self.expr(r, env, want)
            a = self.expr(l, env, b[1])
        else:
            a = self.expr(l, env, want)
            b = self.expr(r, env, a[1])
        if a[1] != b[1]:
            raise ShapeError("operands of %s have types %r and %r" % (op, a[1], b[1]))
        x, y = self.fresh(), self.fresh()
        return ("let? %s := %s in let? %s := %s in %s" % (x, a[0], y, b[0], self.binop(op, x, y, a[1])), a[1])

    def expand(self, e):
        """one macro_rules! call -> its expansion (ast)"""
        name, args = e[1], e[2]
        if name not in self.macros:
            raise ShapeError("macro %s! is not known" % name)
        params, body = self.macros[name]
        if len(params) != len(args):
            raise ShapeError("macro %s!: %d arguments for %d parameters" % (name, len(args), len(params)))
        for a in args:
            if has_mvar(a):
                raise ShapeError("macro variable outside a macro body")
        return subst(body, dict(zip(params, args)))

    def place(self, e, env):
        """a place expression (local or self.N) -> env key"""
        while e[0] == "paren":
            e = e[1]
        if e[0] == "id" and e[1] in env:
            return e[1]
        if e[0] == "field" and e[1] == ("id", "self") and ("self." + e[2]) in env:
            return "self." + e[2]
        raise ShapeError("place expression %r" % (e[0],))

    def expr(self, e, env, want=None):
        k = e[0]
        if k == "paren":
            return self.expr(e[1], env, want)
        if k == "lit":
            return self.lit(e[1], e[2] or want)
        if k == "id":
            if e[1] in env:
                return ("Ok %s" % env[e[1]][0], env[e[1]][1])
            if e[1] in self.consts:
                return ("Ok %s" % self.consts[e[1]][0], self.consts[e[1]][1])
            for en, vs in self.enums.items():
                if e[1] in vs:
                    return ("Ok %d" % vs[e[1]], en)
            raise ShapeError("unknown identifier %r" % e[1])
        if k == "field":
            key = self.place(e, env)
            return ("Ok %s" % env[key][0], env[key][1])
        if k == "mvar":
            raise ShapeError("macro variable $%s outside a macro body" % e[1])
        if k == "macro":
            return self.expr(self.expand(e), env, want)
        if k == "opassign":
            key = self.place(e[2], env)
            ty = env[key][1]
            v = self.arith(e[1], e[2], e[3], env, ty)
            if v[1] != ty:
                raise ShapeError("compound assignment changes the type")
            return (v[0], ("assigned", key, ty))
        if k == "tuple":
            wants = want[1] if isinstance(want, tuple) and want[0] == "tuple" else [None] * len(e[1])
            if len(wants) != len(e[1]):
                raise ShapeError("tuple of %d components where %d are expected" % (len(e[1]), len(wants)))
            return self.tuple_of([self.expr(x, env, w_) for x, w_ in zip(e[1], wants)])
        if k == "as":
            # the operand of a cast gets no type from the cast: a literal nothing else constrains is an i32 (rustc's fallback)
            src = self.expr(e[1], env, None if not self.is_untyped_lit(e[1]) else "i32")
            sty, dty = src[1], e[2]
            self.int_ops(sty)
            ds, dw = self.int_ops(dty)
            x = self.fresh()
            conv = ("r_cast %d %s" if ds == "u" else "sw %d %s") % (dw, x)   # two's complement pattern, truncated
            return ("let? %s := %s in Ok (%s)" % (x, src[0], conv), dty)
        if k == "un":
            if e[1] == "&":
                # a shared reference to an integer place, used as an operand: core implements the operators for
                # references by forwarding to the values
                inner = e[2]
                while inner[0] == "paren":
                    inner = inner[1]
                if inner[0] not in ("id", "field"):
                    raise ShapeError("reference to something other than a local or a field")
                a = self.expr(inner, env, want)
                self.int_ops(a[1])
                return a
            if e[1] == "-":
                a = self.expr(e[2], env, want)
                sg, w = self.int_ops(a[1])
                if sg != "s":
                    raise ShapeError("unary minus at type %r" % a[1])
                x = self.fresh()
                return ("let? %s := %s in i_neg %d %s" % (x, a[0], w, x), a[1])
            a = self.expr(e[2], env, want)
            x = self.fresh()
            if a[1] == "bool":
                return ("let? %s := %s in Ok (negb %s)" % (x, a[0], x), "bool")
            sg, w = self.int_ops(a[1])
            return ("let? %s := %s in Ok (%s %d %s)" % (x, a[0], "i_not" if sg == "s" else "r_not", w, x), a[1])
        if k == "bin":
            op, l, r = e[1], e[2], e[3]
            if op in ("||", "&&"):
                a = self.expr(l, env, "bool")
                b = self.expr(r, env, "bool")
                if a[1] != "bool" or b[1] != "bool":
                    raise ShapeError("%s on non-booleans" % op)
                x = self.fresh()
                if op == "||":
                    return ("let? %s := %s in if %s then Ok true else %s" % (x, a[0], x, paren(b[0])), "bool")
                return ("let? %s := %s in if %s then %s else Ok false" % (x, a[0], x, paren(b[0])), "bool")
            if op in ("==", "!=", "<", ">", "<=", ">="):
                if self.is_untyped_lit(l) and not self.is_untyped_lit(r):
                    b = self.expr(r, env, None)
                    a = self.expr(l, env, b[1])
                else:
                    a = self.expr(l, env, None)
                    b = self.expr(r, env, a[1])
                if a[1] != b[1]:
                    raise ShapeError("comparison of %r with %r" % (a[1], b[1]))
                self.int_ops(a[1])
                x, y = self.fresh(), self.fresh()
                c = {"==": "%s =? %s", "!=": "negb (%s =? %s)", "<": "%s <? %s", ">": "%s >? %s", "<=": "%s <=? %s",
                     ">=": "%s >=? %s"}[op] % (x, y)
                return ("let? %s := %s in let? %s := %s in Ok (%s)" % (x, a[0], y, b[0], c), "bool")
            return self.arith(op, l, r, env, want)
        if k == "pcall":
            return self.pcall(e, env, want)
        if k == "mcall":
            return self.mcall(e, env, want)
        if k == "if":
            c = self.expr(e[1], env, "bool")
            if c[1] != "bool":
                raise ShapeError("condition of type %r" % (c[1],))
            if e[3] is None:
                raise ShapeError("`if` without else in expression position")
            a = self.block(e[2], env, want)
            b = self.block(e[3], env, want if a[1] in (None, NEVER) else a[1])
            ty = unify(a[1], b[1])
            if ty is None:
                raise ShapeError("branches of types %r / %r" % (a[1], b[1]))
            x = self.fresh("c")
            return ("let? %s := %s in if %s then %s else %s" % (x, c[0], x, paren(a[0]), paren(b[0])), ty)
        if k == "block":
            return self.block(e, env, want)
        if k == "match":
            return self.match(e, env, want)
        if k == "ok":
            if not self.result:
                raise ShapeError("Ok(..) in a function that does not return a Result")
            v = self.expr(e[1], env, self.ret)
            if v[1] != self.ret:
                raise ShapeError("Ok(..) of type %r in a function returning %r" % (v[1], self.ret))
            return v
        if k == "err":
            return (self.err(e[1], env), self.ret)
        if k == "return":
            # in a function whose body is a chain of binds, leaving with Err(e) IS the term `Err e`
            if not (self.result and e[1][0] == "err"):
                raise ShapeError("`return` of something other than Err(..) in expression position")
            return (self.err(e[1][1], env), NEVER)
        if k == "try":
            raise ShapeError("the `?` operator")
        if k == "str":
            raise ShapeError("string literal in value position")
        if k == "closure0":
            raise ShapeError("closure in value position")
        raise ShapeError("expression kind %r" % k)

    def tuple_of(self, parts):
        names = [self.fresh() for _ in parts]
        code = "Ok (%s)" % ", ".join(names)
        for n_, p in reversed(list(zip(names, parts))):
            code = "let? %s := %s in %s" % (n_, p[0], code)
        return (code, ("tuple", [p[1] for p in parts]))

    def opaque(self, e, env):
        """the message of an error: "..".into() | format!("..", locals..).into() | the same without .into()"""
        if e[0] == "mcall" and e[2] == "into" and not e[3]:
            e = e[1]
        if e[0] == "str":
            return
        if e[0] == "macro" and e[1] == "format":
            if not e[2] or e[2][0][0] != "str":
                raise ShapeError("format! without a literal format string")
            for a in e[2][1:]:
                if not (a[0] == "id" and a[1] in env):
                    raise ShapeError("format! argument that is not a local")
            return
        raise ShapeError("error message %r" % (e[0],))

    def err(self, e, env):
        if not self.result:
            raise ShapeError("Err(..) in a function that does not return a Result")
        if e[0] == "pcall" and e[1] in self.errs:
            if len(e[2]) != 1:
                raise ShapeError("error constructor with %d arguments" % len(e[2]))
            self.opaque(e[2][0], env)
            return "Err %s" % self.errs[e[1]]
        raise ShapeError("error constructor %r" % (e[1] if len(e) > 1 else e,))

    def pcall(self, e, env, want):
        path, args = e[1], e[2]
        m = re.fullmatch(r"(u8|u16|u32|u64|usize)::from", path)
        if m:
            if len(args) != 1:
                raise ShapeError("arity of %s" % path)
            a = self.expr(args[0], env, None if not self.is_untyped_lit(args[0]) else m.group(1))
            ss, sw_ = self.int_ops(a[1])
            ds, dw = INT[m.group(1)]
            # From is implemented for lossless conversions only (and never between usize and the fixed widths)
            if ss != "u" or sw_ > dw or ("usize" in (a[1], m.group(1)) and a[1] != m.group(1)):
                raise ShapeError("%s of a %s" % (path, a[1]))
            return (a[0], m.group(1))
        if path == "semver::Version::new":
            if len(args) != 3:
                raise ShapeError("arity of %s" % path)
            parts = [self.expr(a, env, "u64") for a in args]
            for p in parts:
                if p[1] != "u64":
                    raise ShapeError("semver::Version::new of a %r" % (p[1],))
            return self.tuple_of(parts)
        if path in self.calls:
            ptys, rty, head, res = self.calls[path]
            if res:
                raise ShapeError("call of the fallible function %s without `?`" % path)
            if len(ptys) != len(args):
                raise ShapeError("arity of %s" % path)
            parts = []
            for pt, a in zip(ptys, args):
                p = self.expr(a, env, pt)
                if p[1] != pt:
                    raise ShapeError("argument of %s has type %r, not %r" % (path, p[1], pt))
                parts.append(p)
            names = [self.fresh() for _ in parts]
            code = "%s %s" % (head, " ".join(names))
            for n_, p in reversed(list(zip(names, parts))):
                code = "let? %s := %s in %s" % (n_, p[0], code)
            return (code, rty)
        raise ShapeError("call of %r" % path)

    def mcall(self, e, env, want):
        recv, name, args = e[1], e[2], e[3]
        if name == "checked_add":
            if len(args) != 1:
                raise ShapeError("arity of checked_add")
            a = self.expr(recv, env, None)
            sg, w = self.int_ops(a[1])
            if sg != "u":
                raise ShapeError("checked_add at type %r" % a[1])
            b = self.expr(args[0], env, a[1])
            if b[1] != a[1]:
                raise ShapeError("checked_add of %r and %r" % (a[1], b[1]))
            x, y = self.fresh(), self.fresh()
            return ("let? %s := %s in let? %s := %s in Ok (r_checked_add %d %s %s)" % (x, a[0], y, b[0], w, x, y),
                    ("option", a[1]))
        if name == "ok_or_else":
            if len(args) != 1 or args[0][0] != "closure0":
                raise ShapeError("ok_or_else without a parameterless closure")
            a = self.expr(recv, env, None)
            if not (isinstance(a[1], tuple) and a[1][0] == "option"):
                raise ShapeError("ok_or_else on a %r" % (a[1],))
            body = args[0][1]
            while body[0] == "paren" or (body[0] == "block" and len(body[1]) == 1 and body[1][0][0] == "tail"):
                body = body[1] if body[0] == "paren" else body[1][0][1]
            cls = self.err(body, env)[len("Err "):]
            if a[1][1] != self.ret:
                raise ShapeError("ok_or_else gives a %r in a function returning %r" % (a[1][1], self.ret))
            x = self.fresh()
            return ("let? %s := %s in r_ok_or %s %s" % (x, a[0], x, cls), a[1][1])
        raise ShapeError("method call .%s(..)" % name)

    def match(self, e, env, want):
        s = self.expr(e[1], env, None)
        sv = self.fresh("m")
        arms = e[2]
        is_enum = isinstance(s[1], str) and s[1] in self.enums
        if not is_enum:
            self.int_ops(s[1])
        vs = set(self.enums[s[1]].values()) if is_enum else None
        seen, code_arms, ty = set(), [], None
        exhaustive = False
        for pats, guard, body in arms:
            conds, benv = [], env
            for p in pats:
                if p[0] == "wild":
                    conds = None
                    break
                if p[0] == "bind":
                    if len(pats) != 1:
                        raise ShapeError("binding in an or-pattern")
                    conds = None
                    benv = dict(env)
                    benv[p[1]] = (sv, s[1])
                    break
                if p[0] == "enum" and is_enum and p[1] == s[1]:
                    conds.append((self.enums[s[1]][p[2]], "%s =? %d" % (sv, self.enums[s[1]][p[2]])))
                elif p[0] == "plit" and not is_enum:
                    if p[2] is not None and p[2] != s[1]:
                        raise ShapeError("pattern literal of type %s in a match on %s" % (p[2], s[1]))
                    self.lit(p[1], s[1])
                    conds.append((p[1], "%s =? %d" % (sv, p[1])))
                else:
                    raise ShapeError("pattern %r in a match on %r" % (p, s[1]))
            b = self.expr(body, benv, want if ty in (None, NEVER) else ty)
            nt = b[1] if ty is None else unify(ty, b[1])
            if nt is None:
                raise ShapeError("match arms of types %r / %r" % (ty, b[1]))
            ty = nt
            g = None
            if guard is not None:
                g = self.expr(guard, benv, "bool")
                if g[1] != "bool":
                    raise ShapeError("guard of type %r" % (g[1],))
            cond = None if conds is None else " || ".join(paren(c) for _, c in conds) if len(conds) > 1 else conds[0][1]
            code_arms.append((cond, g, b[0]))
            if g is None:
                if cond is None:
                    exhaustive = True
                    break
                seen.update(v for v, _ in conds)
                if is_enum and seen == vs:
                    exhaustive = True
                    break
        if not exhaustive:
            raise ShapeError("match is not seen to be exhaustive")
        if len(code_arms) != len(arms):
            raise ShapeError("unreachable match arms")
        # the last arm is unconditional (wildcard / binding, or the only variant left)
        code = code_arms[-1][2]
        if code_arms[-1][1] is not None:
            raise ShapeError("last arm has a guard")
        for cond, g, b in reversed(code_arms[:-1]):
            if g is None:
                code = "if %s then %s else %s" % (cond, paren(b), paren(code)) if cond else b
            else:
                gv = self.fresh("g")
                guarded = "let? %s := %s in if %s then %s else %s" % (gv, g[0], gv, paren(b), paren(code))
                code = "if %s then %s else %s" % (cond, paren(guarded), paren(code)) if cond else guarded
        return ("let? %s := %s in %s" % (sv, s[0], code), ty)

    def block(self, blk, env, want):
        assert blk[0] == "block"
        env = dict(env)
        stmts = blk[1]
        if not stmts:
            raise ShapeError("empty block")

        def go(i):
            st = stmts[i]
            last = i == len(stmts) - 1
            if st[0] == "tail":
                return self.expr(st[1], env, want)
            if last and st[0] == "expr" and st[1][0] == "return":
                # a block that ends with `return ..;`
                return self.expr(st[1], env, want)
            if last:
                raise ShapeError("block without a tail expression")
            if st[0] == "let":
                pat, ex = st[1], st[2]
                if isinstance(pat, tuple):
                    v = self.expr(ex, env, None)
                    if not (isinstance(v[1], tuple) and v[1][0] == "tuple" and len(v[1][1]) == len(pat)):
                        raise ShapeError("tuple pattern against %r" % (v[1],))
                    for n_, t_ in zip(pat, v[1][1]):
                        env[n_] = (self.var(n_), t_)
                    rest = go(i + 1)
                    return ("let? (%s) := %s in %s" % (", ".join(self.var(n_) for n_ in pat), v[0], rest[0]), rest[1])
                if self.is_untyped_lit(ex):
                    raise ShapeError("the type of `let %s = <literal>` is not determined locally" % pat)
                v = self.expr(ex, env, None)
                if v[1] == NEVER or (isinstance(v[1], tuple) and v[1][0] == "assigned"):
                    raise ShapeError("let of a value of type %r" % (v[1],))
                env[pat] = (self.var(pat), v[1])
                rest = go(i + 1)
                return ("let? %s := %s in %s" % (self.var(pat), v[0], rest[0]), rest[1])
            if st[0] == "expr":
                ex = st[1]
                if ex[0] == "if" and ex[3] is None:
                    body = ex[2][1]
                    if not (len(body) == 1 and body[0][0] in ("expr", "tail") and body[0][1][0] == "return"):
                        raise ShapeError("`if` statement whose body is not a single return")
                    c = self.expr(ex[1], env, "bool")
                    if c[1] != "bool":
                        raise ShapeError("condition of type %r" % (c[1],))
                    r = self.ret_value(body[0][1][1], env)
                    rest = go(i + 1)
                    x = self.fresh("c")
                    return ("let? %s := %s in if %s then %s else %s" % (x, c[0], x, paren(r), paren(rest[0])), rest[1])
                raise ShapeError("statement %r" % (ex[0],))
            raise ShapeError("statement kind %r" % st[0])
        return go(0)

    def ret_value(self, e, env):
        """operand of `return` in statement position"""
        if self.result:
            if e[0] == "err":
                return self.err(e[1], env)
            if e[0] == "ok":
                v = self.expr(e[1], env, self.ret)
                if v[1] != self.ret:
                    raise ShapeError("return of type %r" % (v[1],))
                return v[0]
            raise ShapeError("return of something other than Ok / Err")
        v = self.expr(e, env, self.ret)
        if v[1] != self.ret:
            raise ShapeError("return of type %r, not %r" % (v[1], self.ret))
        return v[0]


def coq_type(ty):
    if isinstance(ty, tuple) and ty[0] == "tuple":
        return "(" + " * ".join(coq_type(t) for t in ty[1]) + ")"
    if ty == "bool":
        return "bool"
    return "Z"


def wrap(s, width=112, ind="    "):
    out, line = [], ""
    for w in s.split(" "):
        if len(line) + len(w) + 1 > width and line:
            out.append(line)
            line = ind + w
        else:
            line = (line + " " + w) if line else w
    out.append(line)
    return "\n".join(out)
