"""C01 — register features encode and decode values exactly."""
from reghist import reg_case, parse_output, narrow_bits, widen_bits, f64_bits, CODE
from vplib import Rng, standard_main

CODES = {"reg": CODE}
NAN = 0x7FF8000000000000


def in_range(v, length, sign):
    if sign:
        return -(1 << (8 * length - 1)) <= v < (1 << (8 * length - 1))
    return 0 <= v < min(1 << (8 * length), 1 << 63)


def int_image(v, length, endian):
    b = [((v % (1 << (8 * length))) >> (8 * i)) & 255 for i in range(length)]
    return b[::-1] if endian else b


def decode_int(bs, endian, sign):
    b = bs[::-1] if endian else bs
    u = sum(x << (8 * i) for i, x in enumerate(b))
    n = 8 * len(bs)
    if sign and u >= 1 << (n - 1):
        u -= 1 << n
    if not sign and len(bs) == 8 and u >= 1 << 63:
        u -= 1 << 64
    return u


def spec_step(m, mem, op):
    """One operation of the property on the device memory mem: -> (result, log entry or None, image
    written or None) or None when the operation is outside the property's quantifier."""
    addr, L, en, base = m["addr"], m["length"], m["endian"], m["base"]
    off = addr - base
    if not (0 <= off and off + L <= len(mem)):
        return None
    k = op[0]
    n = m["nodes"][op[1]]
    kind, sign = n["kind"], n.get("sign", 0)
    R = ("R", addr, L)
    if k == "v" and kind == "int":
        if L not in (1, 2, 4, 8):
            return [1, 35], R, None
        return [0, decode_int(mem[off:off + L], en, sign)], R, None
    if k == "s" and kind == "int":
        if L not in (1, 2, 4, 8):
            return [1, 35], None, None
        if not in_range(op[2], L, sign):
            return None
        return [0], None, int_image(op[2], L, en)
    if k == "fv" and kind == "float":
        if L not in (4, 8):
            return [1, 35], R, None
        b = mem[off:off + L]
        u = sum(x << (8 * i) for i, x in enumerate(b[::-1] if en else b))
        if L == 4:
            u = widen_bits(u)
            if u is None:
                u = NAN
        elif (u >> 52) & 0x7FF == 0x7FF and u & ((1 << 52) - 1):
            u = NAN
        return [0, u], R, None
    if k == "fs" and kind == "float":
        if L not in (4, 8):
            return [1, 35], None, None
        u = op[2]
        if L == 4:
            u = narrow_bits(u)
            if u is None:
                return None
        img = [(u >> (8 * i)) & 255 for i in range(L)]
        return [0], None, (img[::-1] if en else img)
    if k == "sv" and kind == "string":
        b = mem[off:off + L]
        if any(x >= 128 for x in b):
            return None
        sv = b[:b.index(0)] if 0 in b else b
        return [0, len(sv)] + sv, R, None
    if k == "ss" and kind == "string":
        sv = list(op[2])
        if any(x >= 128 for x in sv) or 0 in sv or len(sv) > L:
            return [1, 33], None, None      # unrepresentable: refused, no device write
        return [0], None, sv + [0] * (L - len(sv))
    if k == "rr":
        if op[2] != L:
            return [1, 35], None, None
        return [0] + mem[off:off + L], R, None
    if k == "rw":
        if len(op[2]) != L:
            return [1, 35], None, None
        return [0], None, list(op[2])
    return None


def spec_run(m):
    """Independent Python statement of the property on one fault-free history: expected per-op results, log
    and final memory, or None when some op is outside the property's quantifier."""
    addr, L, base, mem = m["addr"], m["length"], m["base"], list(m["image"])
    off = addr - base
    res, log = [], []
    for op in m["ops"]:
        if op[0] == "rej":
            return None
        st = spec_step(m, mem, op)
        if st is None:
            return None
        r, rd, img = st
        res.append(r)
        if rd is not None:
            log.append(rd)
        if img is not None:
            log.append(("W", addr, img))
            mem[off:off + L] = img
    return res, log, mem


def spec_check_faulty(m, res, wlog, final):
    """Histories with scripted rejections of device accesses ('rej': one of the next accesses fails): the operation
    the rejection hits fails with a device error and leaves the device as it was (its single write, if it got that
    far, was the refused access); every other operation returns what the property requires for the bytes the device
    really holds -- in particular a value read back after a failed write is the OLD value, and a repeated
    operation works on the device's contents."""
    addr, L, base = m["addr"], m["length"], m["base"]
    off = addr - base

    def go(i, mem, armed, wi):
        if i == len(m["ops"]):
            if wi != len(wlog):
                return "device writes beyond the required ones"
            return None if list(final) == list(mem) else "final device memory differs from the required image"
        op = m["ops"][i]
        if op[0] == "rej":
            return go(i + 1, mem, armed + 1, wi)
        st = spec_step(m, mem, op)
        if st is None:
            return None
        r, rd, img = st
        if res[i] == [1, 30] and armed > 0 and (rd is not None or img is not None):
            x = go(i + 1, mem, armed - 1, wi)
            if x is None:
                return None
            if img is not None and wi < len(wlog) and tuple(map(_t, wlog[wi])) == ("W", addr, tuple(img)):
                return go(i + 1, mem, armed - 1, wi + 1)
            return x
        if res[i] != r:
            return "op %d %r: result %r, the property requires %r (for the bytes the device holds)" % (i, op[:2], res[i][:6], r[:6])
        if img is not None:
            if wi >= len(wlog) or tuple(map(_t, wlog[wi])) != ("W", addr, tuple(img)):
                return "op %d %r: device write differs from the required image" % (i, op[:2])
            mem = list(mem)
            mem[off:off + L] = img
            wi += 1
        return go(i + 1, mem, armed, wi)

    return go(0, list(m["image"]), 0, 0)


def predicate(c, out):
    m = c.meta
    if out is None or out in ([2], [3], [4]):
        return "harness died / panicked: %r" % (out,)
    po = parse_output(out, len(m["ops"]))
    if po is None:
        return "unparsable output"
    res, log, mem = po
    if any(r == [2] for r in res):
        return "an operation panicked"
    # every access touches exactly [address, address+length)
    for e in log:
        ln = e[2] if e[0] == "R" else len(e[2])
        if e[1] != m["addr"] or ln != m["length"]:
            return "device access %r outside [address, address+length)" % (e[:2],)
    if any(op[0] == "rej" for op in m["ops"]):
        return spec_check_faulty(m, res, [e for e in log if e[0] == "W"], mem)
    exp = spec_run(m)
    if exp is None:
        return None
    eres, elog, emem = exp
    if m["flags"] & 1 == 0:
        # cached run: reads may be served from memory; compare values, writes and final image
        log = [e for e in log if e[0] == "W"]
        elog = [e for e in elog if e[0] == "W"]
    if res != eres:
        i = [a == b for a, b in zip(res, eres)].index(False)
        return "op %d %r: result %r, the property requires %r" % (i, m["ops"][i][:2], res[i][:6], eres[i][:6])
    if [tuple(map(_t, e)) for e in log] != [tuple(map(_t, e)) for e in elog]:
        return "device access log %r differs from the required %r" % (log[:3], elog[:3])
    if mem != emem:
        return "final device memory differs from the required image"
    return None


def _t(x):
    return tuple(x) if isinstance(x, list) else x


def nontrivial(c, out):
    po = parse_output(out, len(c.meta["ops"])) if out else None
    return bool(po and any(e[0] == "W" for e in po[1]))


def gen_cases(ck):
    rng = Rng(ck.seed)
    cases = []
    quick = ck.tier == "quick"

    def img(n):
        return bytes(rng.bytes(n))

    def add(kind, L, en, sign, ops, addr=None, flags=1, image=None, pad=8, cachable=None, port_swap=False, **extra):
        base = rng.choice([0, 0x1000, 0x7FFFFFF0, (1 << 40) + 3])
        a = base + rng.below(pad) if addr is None else addr
        image = img(L + 2 * pad) if image is None else image
        node = dict(kind=kind, sign=sign, **extra)
        c = reg_case(a, L, en, base, image, [node], ops, flags=flags,
                     cachable=cachable or ("NoCache" if flags & 1 else "WriteThrough"), port_swap=port_swap)
        if not flags & 1:
            c.kind = "reg-cached"      # the uncached model does not apply: implementation-only predicate
        cases.append(c)

    # integers: exhaustive for 8 and 16 bit (as set/value pairs), boundaries + random above
    for en in (0, 1):
        for sign in (0, 1):
            lo8, hi8 = (-128, 128) if sign else (0, 256)
            add("int", 1, en, sign, [x for v in range(lo8, hi8) for x in (("s", 0, v), ("v", 0))])
            lo16, hi16 = (-32768, 32768) if sign else (0, 65536)
            step = 1 if not quick else 1
            vals = list(range(lo16, hi16, step))
            for i in range(0, len(vals), 4096):
                add("int", 2, en, sign, [x for v in vals[i:i + 4096] for x in (("s", 0, v), ("v", 0))])
            for L in (4, 8):
                n = 8 * L
                lo, hi = (-(1 << (n - 1)), (1 << (n - 1)) - 1) if sign else (0, min((1 << n) - 1, (1 << 63) - 1))
                vals = {0, 1, lo, hi, lo + 1, hi - 1}
                for k in range(n):
                    for d in (-1, 0, 1):
                        for sg in (1, -1):
                            v = sg * ((1 << k) + d)
                            if lo <= v <= hi:
                                vals.add(v)
                vals |= {rng.range(lo, hi) for _ in range(200 if quick else 5000)}
                add("int", L, en, sign, [x for v in sorted(vals) for x in (("s", 0, v), ("v", 0))])
                # every byte image pattern class held by the device: decode only
                for _ in range(40 if quick else 2000):
                    add("int", L, en, sign, [("v", 0)])
                for pat in (b"\x00" * L, b"\xff" * L, b"\x80" + b"\x00" * (L - 1), b"\x00" * (L - 1) + b"\x80",
                            b"\x7f" + b"\xff" * (L - 1)):
                    add("int", L, en, sign, [("v", 0)], image=b"\xaa" * 8 + pat + b"\x55" * 8, addr=None, pad=8)
            for L in (1, 2):
                for _ in range(30):
                    add("int", L, en, sign, [("v", 0)])
            # unsupported lengths: refused, no device write
            for L in (0, 3, 5, 6, 7, 9, 16):
                add("int", L, en, sign, [("s", 0, 1), ("v", 0), ("s", 0, -1 if sign else 255)])
            # cached run (default WriteThrough) gives the same values and writes
            add("int", 4, en, sign, [("s", 0, 5), ("v", 0), ("v", 0), ("s", 0, 7), ("v", 0)], flags=0)
    # the byte order and signedness are what the description declares - LittleEndian / Unsigned when it says nothing -
    # whatever <Representation> the feature carries
    for rep in (None, "Linear", "Logarithmic", "Boolean", "PureNumber", "HexNumber", "IPV4Address", "MACAddress"):
        for L in (1, 2, 4, 8):
            for en, sign in ((0, 0), (1, 0), (0, 1), (1, 1)):
                v = 0x0102030405060708 >> (8 * (8 - L))
                add("int", L, en, sign, [("v", 0), ("s", 0, v), ("v", 0), ("rr", 0, L), ("s", 0, 1), ("v", 0)],
                    implicit=1, repr=rep)
    # floats
    specials = [0.0, -0.0, 1.0, -1.0, 1.5, 0.1, 1e-45, 1.401298464324817e-45, 1e-40, 1.1754943508222875e-38,
                3.4028234663852886e38, 3.4028235677973366e38, 3.4028235677973362e38, 3.402823669209385e38, 1e39,
                -1e39, 5e-324, 2.2250738585072014e-308, 1.7976931348623157e308, float("inf"), float("-inf"),
                16777217.0, 16777219.0, 0.333333333333, 1.0000000596046448, 1.00000017881393433]
    fbits = [f64_bits(x) for x in specials] + [NAN, 0xFFF8000000000001, 0x7FF0000000000001]
    fbits += [rng.below(1 << 64) for _ in range(200 if quick else 20000)]
    fbits += [f64_bits(__import__("struct").unpack("<f", __import__("struct").pack("<I", rng.below(1 << 32)))[0])
              for _ in range(200 if quick else 20000)]
    isnan = lambda b: (b >> 52) & 0x7FF == 0x7FF and b & ((1 << 52) - 1) != 0
    nans = [b for b in fbits if isnan(b)]
    fbits = [b for b in fbits if not isnan(b)]
    for en in (0, 1):
        for L in (4, 8):
            for i in range(0, len(fbits), 100):
                add("float", L, en, 0, [x for b in fbits[i:i + 100] for x in (("fs", 0, b), ("fv", 0))])
            for i in range(0, len(nans), 100):     # NaN payloads: separate histories (4-byte payload bits not claimed)
                add("float", L, en, 0, [x for b in nans[i:i + 100] for x in (("fs", 0, b), ("fv", 0))])
            for _ in range(60 if quick else 3000):
                add("float", L, en, 0, [("fv", 0)])
        for pat in (0x00000001, 0x007FFFFF, 0x00800000, 0x7F7FFFFF, 0x7F800000, 0xFF800000, 0x80000000, 0x80000001,
                    0x00400000, 0x00000003):
            b = pat.to_bytes(4, "big" if en else "little")
            add("float", 4, en, 0, [("fv", 0)], image=b"\x11" * 8 + b + b"\x22" * 8)
        for L in (0, 1, 2, 3, 5, 7, 16):
            add("float", L, en, 0, [("fs", 0, f64_bits(1.0)), ("fv", 0)])
    # strings
    for L in ([0, 1, 2, 5, 16, 64] if quick else [0, 1, 2, 3, 5, 8, 16, 33, 64]):
        ops = []
        for n in range(0, L + 2):
            s = bytes(rng.range(1, 127) for _ in range(n))
            ops += [("ss", 0, s), ("sv", 0)]
        ops += [("ss", 0, b"a\x00b"[:max(L, 3)]), ("sv", 0), ("ss", 0, "é".encode()), ("sv", 0),
                ("ss", 0, b"\x00"), ("sv", 0)]
        add("string", L, 0, 0, ops, image=bytes(rng.range(1, 127) for _ in range(L + 16)))
        for _ in range(5):
            im = bytearray(rng.range(0, 127) for _ in range(L + 16))
            add("string", L, 0, 0, [("sv", 0)], image=bytes(im))
    # raw registers: exact transfer, length mismatch refused
    for L in ([1, 3, 4, 64] if quick else [1, 2, 3, 4, 7, 8, 17, 64]):
        ops = [("rr", 0, L), ("rw", 0, img(L)), ("rr", 0, L), ("rr", 0, L + 1), ("rr", 0, max(L - 1, 0)),
               ("rw", 0, img(L + 1)), ("rw", 0, img(max(L - 1, 0))), ("rr", 0, L)]
        for kind in ("raw", "int", "float", "string"):
            add(kind, L, 0, 0, ops)
    # device accesses that fail at scripted points (a rejected read, a rejected write), followed by reads back and
    # repeated operations: uncached (compared with the model too) and with every caching mode
    def rej_history(kind, L, en, sign):
        def val():
            if kind == "int":
                n = 8 * L
                return ("s", 0, rng.range(-(1 << (n - 1)), (1 << (n - 1)) - 1) if sign else rng.below(min(1 << n, 1 << 63)))
            if kind == "float":
                return ("fs", 0, f64_bits(float(rng.range(-1000, 1000)) / 8))
            if kind == "string":
                return ("ss", 0, bytes(rng.range(65, 90) for _ in range(rng.below(L + 1))))
            return ("rw", 0, img(L))
        rd = {"int": ("v", 0), "float": ("fv", 0), "string": ("sv", 0), "raw": ("rr", 0, L)}[kind]
        ops = []
        for _i in range(rng.range(3, 8)):
            if rng.chance(1, 3):
                ops.append(("rej", rng.choice([0, 0, 0, 1])))
            o = rng.choice([val(), rd, rd])
            ops.append(o)
            if rng.chance(1, 3):
                ops.append(o if rng.chance(1, 2) else rd)      # the caller repeats it / reads back
        ops += [rd, rd]
        return ops
    for _ in range(40 if quick else 1500):
        kind = rng.choice(["int", "int", "float", "string", "raw"])
        L = {"int": rng.choice([1, 2, 4, 8]), "float": rng.choice([4, 8]), "string": rng.choice([1, 5, 16]),
             "raw": rng.choice([1, 3, 8])}[kind]
        en, sign = rng.below(2), rng.below(2)
        ops = rej_history(kind, L, en, sign)
        image = bytes(rng.range(1, 127) for _ in range(L + 16))
        add(kind, L, en, sign, ops, image=image)
        for mode in ("WriteThrough", "WriteAround", "NoCache"):
            add(kind, L, en, sign, ops, image=image, flags=0, cachable=mode)
    # a port declared with SwapEndianess: the image of a string or of a raw register has no byte order to swap
    for L in (1, 2, 8, 16):
        sv = bytes(rng.range(65, 90) for _ in range(max(L - 1, 0)))
        add("string", L, 0, 0, [("sv", 0), ("ss", 0, sv), ("sv", 0), ("ss", 0, b"A"[:L]), ("sv", 0)],
            image=bytes(rng.range(65, 90) for _ in range(L + 16)), port_swap=True)
        add("raw", L, 0, 0, [("rr", 0, L), ("rw", 0, img(L)), ("rr", 0, L)], port_swap=True)
    # registers at the edge of / outside the device memory: error, no panic
    for L in (1, 4, 8):
        base = 0x100
        image = img(16)
        for a in (base + 16 - L, base + 16 - L + 1, base + 16, base - 1, 0, (1 << 63) - 8):
            cases.append(reg_case(a, L, 0, base, image, [dict(kind="int", sign=0)], [("v", 0), ("s", 0, 1), ("v", 0)]))
    return cases


def main():
    standard_main(
        "C01", "h_genapi", CODES, gen_cases, predicate, nontrivial,
        rule="one register feature per case (IntReg / FloatReg / StringReg / Register; lengths 1,2,4,8 | 4,8 | 0..64 and "
             "unsupported ones; both byte orders; signed/unsigned; several base addresses) with a history of set/value "
             "pairs: exhaustive for 8/16-bit integers, boundaries (each 2^k and neighbours, min, max) + seeded random "
             "for 32/64-bit, floats incl. +-0, inf, NaN, subnormals, f32 rounding boundaries, random bit patterns, "
             "strings of every length 0..len+1 incl. non-ASCII and embedded NUL, raw reads/writes with wrong buffer "
             "lengths, random prior device images; histories with device accesses rejected at scripted points followed by "
             "reads back and repeated operations, uncached and with each caching mode; string / raw registers behind a "
             "port declared SwapEndianess; real nodes built from XML by GenApiBuilder vs the extracted model; "
             "predicate = independent Python statement of the property (two's-complement / IEEE-754 via struct / "
             "NUL-padded ASCII image, exact touched range, refusal without write); non-trivial = at least one device write",
        trusted=["StringReg reads of non-ASCII device bytes (from_utf8_lossy) are outside the model and the quantifier",
                 "NaN payload bits written to 4-byte float registers are compared between model and code but not claimed"])
